/-
  x86-64 simulation, class `mulDivOpcodes`, part 1: the native stack below the eBPF frame.  Pushes write into the last
  region of the machine's memory (`lower` of `MemRel`), pops read back what was pushed; every other region — in
  particular `frame`, the head of the list — is untouched.
-/
import RbpfModel.Lemmas.X86Sim.Base
namespace Rbpf.JitSim
open Rbpf.X86 (Cfg St Out Instr step exec decode fetch readMem writeMem)

-- byte arrays ---------------------------------------------------------------------------------------------------

theorem md_fold_size (bs : List (BitVec 8)) (off n : Nat) (arr : Array (BitVec 8)) :
    ((List.range n).foldl (fun acc k => acc.setIfInBounds (off + k) (bs.getD k 0)) arr).size = arr.size := by
  induction n with
  | zero => simp
  | succ n ih =>
    rw [List.range_succ, List.foldl_append]
    simp only [List.foldl_cons, List.foldl_nil, Array.size_setIfInBounds]
    exact ih

theorem md_fold_get (bs : List (BitVec 8)) (off n : Nat) (arr : Array (BitVec 8)) (j : Nat) :
    ((List.range n).foldl (fun acc k => acc.setIfInBounds (off + k) (bs.getD k 0)) arr)[j]? =
      if off ≤ j ∧ j < off + n ∧ j < arr.size then some (bs.getD (j - off) 0) else arr[j]? := by
  induction n with
  | zero =>
    have : ¬ (off ≤ j ∧ j < off + 0 ∧ j < arr.size) := by omega
    rw [if_neg this]
    rfl
  | succ n ih =>
    rw [List.range_succ, List.foldl_append]
    simp only [List.foldl_cons, List.foldl_nil, Array.getElem?_setIfInBounds, md_fold_size, ih]
    by_cases h1 : off + n = j
    · subst h1
      by_cases h2 : off + n < arr.size
      · simp [h2]
      · have h3 : ¬ (off ≤ off + n ∧ off + n < off + (n + 1) ∧ off + n < arr.size) := by omega
        have h4 : arr[off + n]? = none := by simp; omega
        simp [h2, h3, h4]
    · rw [if_neg h1]
      by_cases h2 : off ≤ j ∧ j < off + n ∧ j < arr.size
      · have h3 : off ≤ j ∧ j < off + (n + 1) ∧ j < arr.size := by omega
        rw [if_pos h2, if_pos h3]
      · have h3 : ¬ (off ≤ j ∧ j < off + (n + 1) ∧ j < arr.size) := by omega
        rw [if_neg h2, if_neg h3]

theorem md_writeRegion_base (r : Region) (a : Nat) (bs : List (BitVec 8)) : (Memory.writeRegion r a bs).base = r.base := rfl

theorem md_writeRegion_size (r : Region) (a : Nat) (bs : List (BitVec 8)) :
    (Memory.writeRegion r a bs).bytes.size = r.bytes.size := by
  unfold Memory.writeRegion
  exact md_fold_size bs (a - r.base) bs.length r.bytes

theorem md_writeRegion_getD (r : Region) (a : Nat) (bs : List (BitVec 8)) (j : Nat) :
    (Memory.writeRegion r a bs).bytes.getD j 0 =
      if a - r.base ≤ j ∧ j < a - r.base + bs.length ∧ j < r.bytes.size then bs.getD (j - (a - r.base)) 0 else r.bytes.getD j 0 := by
  unfold Memory.writeRegion
  rw [Array.getD_eq_getD_getElem?, Array.getD_eq_getD_getElem?]
  show (((List.range bs.length).foldl (fun acc k => acc.setIfInBounds (a - r.base + k) (bs.getD k 0)) r.bytes)[j]?).getD 0 = _
  rw [md_fold_get]
  split <;> simp

theorem md_contains_writeRegion (r : Region) (a : Nat) (bs : List (BitVec 8)) (a' w : Nat) :
    (Memory.writeRegion r a bs).contains a' w = r.contains a' w := by
  unfold Region.contains
  rw [md_writeRegion_base, md_writeRegion_size]

-- memory lists: the last region is the one written ----------------------------------------------------------------

theorem md_writeExtra_last (pre : List Region) (lower : Region) (a : Nat) (bs : List (BitVec 8))
    (hpre : ∀ r ∈ pre, r.contains a bs.length = false) (hl : lower.contains a bs.length = true) :
    Memory.writeExtra (pre ++ [lower]) a bs = some (pre ++ [Memory.writeRegion lower a bs]) := by
  induction pre with
  | nil => simp [Memory.writeExtra, hl]
  | cons r pre ih =>
    have h1 : r.contains a bs.length = false := hpre r (by simp)
    have h2 := ih (fun r' hr' => hpre r' (by simp [hr']))
    simp only [List.cons_append, Memory.writeExtra, h1, Bool.false_eq_true, if_false, h2, Option.map_some]

theorem md_readMem_last (pre : List Region) (lower : Region) (a w : Nat)
    (hpre : ∀ r ∈ pre, r.contains a w = false) (hl : lower.contains a w = true) :
    readMem (pre ++ [lower]) a w = some ((List.range w).map (fun k => lower.bytes.getD (a - lower.base + k) 0)) := by
  unfold readMem
  have h1 : (pre ++ [lower]).find? (fun r => r.contains a w) = some lower := by
    rw [List.find?_append]
    have : pre.find? (fun r => r.contains a w) = none := by
      rw [List.find?_eq_none]
      intro r hr
      simp [hpre r hr]
    rw [this]
    simp [List.find?, hl]
  rw [h1]

theorem md_readMem_head (frame : Region) (rest : List Region) (a w : Nat) (hf : frame.contains a w = true) :
    readMem (frame :: rest) a w = some ((List.range w).map (fun k => frame.bytes.getD (a - frame.base + k) 0)) := by
  unfold readMem
  simp [List.find?, hf]

theorem md_leBytes_length (v w : Nat) : (leBytes v w).length = w := by
  induction w generalizing v with
  | zero => rfl
  | succ w ih => simp [leBytes, ih]

theorem md_leValue_leBytes (v w : Nat) : leValue (leBytes v w) = v % 2 ^ (8 * w) := by
  induction w generalizing v with
  | zero => simp [leBytes, leValue, Nat.mod_one]
  | succ w ih =>
    simp only [leBytes, leValue, ih, BitVec.toNat_ofNat]
    have : 2 ^ (8 * (w + 1)) = 256 * 2 ^ (8 * w) := by
      rw [Nat.mul_add, Nat.pow_add]; simp [Nat.mul_comm]
    rw [this, Nat.mod_mul]

/-- the eight bytes of a 64-bit value, read back -/
theorem md_ofNat_leValue (v : BitVec 64) : BitVec.ofNat 64 (leValue (leBytes v.toNat 8)) = v := by
  rw [md_leValue_leBytes]
  apply BitVec.eq_of_toNat_eq
  simp
  omega

theorem md_getD_append_left (l1 l2 : List Nat) (j : Nat) (h : j < l1.length) : (l1 ++ l2).getD j 0 = l1.getD j 0 := by
  rw [List.getD_eq_getElem?_getD, List.getD_eq_getElem?_getD, List.getElem?_append_left h]

theorem md_getD_append_right (l1 : List Nat) (x : Nat) : (l1 ++ [x]).getD l1.length 0 = x := by
  rw [List.getD_eq_getElem?_getD, List.getElem?_append_right (Nat.le_refl _)]
  simp

-- the native-stack invariant -------------------------------------------------------------------------------------

/-- The machine's memory is `pre ++ [lower]` where `lower` occupies `[base, base + size)` and no region of `pre`
    holds a non-empty range inside it; `top` (inside `lower`) is the upper end of the part of the native stack the
    current arm works on: rsp is `8 * slots.length` below `top`, the 8-byte slots from `top` downwards hold `slots`
    (first: the return address of `Rel0.ret`, then the pushed values); the bytes of `lower` from `top` upwards — the
    frames of the callers — are `hi` (fixed throughout: pushes write below rsp). -/
structure md_NS (pre : List Region) (base size top : Nat) (hi : Nat → BitVec 8) (σ : St) (slots : List Nat) : Prop where
  mem : ∃ lower : Region, σ.mem = pre ++ [lower] ∧ lower.base = base ∧ lower.bytes.size = size ∧
    (∀ j, j < slots.length → ∀ k, k < 8 →
      lower.bytes.getD (top - base - 8 * (j + 1) + k) 0 = (leBytes (slots.getD j 0) 8).getD k 0) ∧
    (∀ j, top - base ≤ j → j < size → lower.bytes.getD j 0 = hi j)
  pre : ∀ r ∈ pre, ∀ a w, base ≤ a → a + w ≤ base + size → 0 < w → r.contains a w = false
  room : base + 8 * slots.length ≤ top
  top_le : top ≤ base + size
  sp : (σ.get 4).toNat + 8 * slots.length = top
  bound : base + size < 2 ^ 64

theorem md_ns_congr {pre : List Region} {base size top : Nat} {hi : Nat → BitVec 8} {σ σ' : St} {slots : List Nat}
    (h : md_NS pre base size top hi σ slots) (hm : σ'.mem = σ.mem) (hr : σ'.get 4 = σ.get 4) :
    md_NS pre base size top hi σ' slots := by
  obtain ⟨hmem, hpre, hroom, htop, hsp, hb⟩ := h
  exact ⟨by rw [hm]; exact hmem, hpre, hroom, htop, by rw [hr]; exact hsp, hb⟩

theorem md_list8 (f : Nat → BitVec 8) (l : List (BitVec 8)) (hl : l.length = 8) (h : ∀ k, k < 8 → f k = l.getD k 0) :
    (List.range 8).map f = l := by
  match l, hl with
  | [b0, b1, b2, b3, b4, b5, b6, b7], _ =>
    have h0 := h 0 (by omega); have h1 := h 1 (by omega); have h2 := h 2 (by omega); have h3 := h 3 (by omega)
    have h4 := h 4 (by omega); have h5 := h 5 (by omega); have h6 := h 6 (by omega); have h7 := h 7 (by omega)
    simp at h0 h1 h2 h3 h4 h5 h6 h7
    simp [List.range, List.range.loop, h0, h1, h2, h3, h4, h5, h6, h7]

/-- reading slot `j` (counted from `top` downwards) -/
theorem md_ns_read {pre : List Region} {base size top : Nat} {hi : Nat → BitVec 8} {σ : St} {slots : List Nat}
    (h : md_NS pre base size top hi σ slots) (j : Nat) (hj : j < slots.length) :
    readMem σ.mem (top - 8 * (j + 1)) 8 = some (leBytes (slots.getD j 0) 8) := by
  obtain ⟨⟨lower, hm, hb, hs, hsl, _⟩, hpre, hroom, htop, hsp, hbd⟩ := h
  rw [hm, md_readMem_last pre lower _ 8 (fun r hr => hpre r hr _ 8 (by omega) (by omega) (by omega))
    (by simp [Region.contains, hb, hs]; omega)]
  congr 1
  apply md_list8 _ _ (md_leBytes_length _ _)
  intro k hk
  rw [← hsl j hj k hk, hb]
  congr 1
  omega

/-- two memories that differ only in the last region, whose bytes agree on the range read, read the same -/
theorem md_readMem_agree (pre : List Region) (l1 l2 : Region) (a w : Nat) (hb : l2.base = l1.base)
    (hs : l2.bytes.size = l1.bytes.size)
    (h : l1.contains a w = true → ∀ k, k < w → l2.bytes.getD (a - l1.base + k) 0 = l1.bytes.getD (a - l1.base + k) 0) :
    readMem (pre ++ [l2]) a w = readMem (pre ++ [l1]) a w := by
  unfold readMem
  rw [List.find?_append, List.find?_append]
  cases pre.find? (fun r => r.contains a w) with
  | some r => rfl
  | none =>
    have hc : l2.contains a w = l1.contains a w := by simp only [Region.contains, hb, hs]
    by_cases h1 : l1.contains a w = true
    · have h2 : l2.contains a w = true := by rw [hc]; exact h1
      simp only [Option.none_or, List.find?, h1, h2]
      congr 1
      apply List.map_congr_left
      intro k hk
      rw [hb]
      exact h h1 k (List.mem_range.mp hk)
    · have h2 : ¬ l2.contains a w = true := by rw [hc]; exact h1
      simp only [Option.none_or, List.find?, h1, h2]

/-- everything at or above `top` reads the same in two states with the same invariant parameters -/
theorem md_ns_above {pre : List Region} {base size top : Nat} {hi : Nat → BitVec 8} {σ σ' : St} {slots slots' : List Nat}
    (h : md_NS pre base size top hi σ slots) (h' : md_NS pre base size top hi σ' slots') (a w : Nat) (ha : top ≤ a) :
    readMem σ'.mem a w = readMem σ.mem a w := by
  obtain ⟨⟨l1, hm1, hb1, hs1, _, hhi1⟩, _, hroom1, _, _, _⟩ := h
  obtain ⟨⟨l2, hm2, hb2, hs2, _, hhi2⟩, _, _, _, _, _⟩ := h'
  rw [hm1, hm2]
  apply md_readMem_agree pre l1 l2 a w (by rw [hb1, hb2]) (by rw [hs1, hs2])
  intro hc k hk
  simp only [Region.contains, Bool.and_eq_true, decide_eq_true_eq] at hc
  rw [hhi1 _ (by omega) (by omega), hhi2 _ (by omega) (by omega)]

theorem md_ns_push {pre : List Region} {base size top : Nat} {hi : Nat → BitVec 8} {σ : St} {slots : List Nat}
    (h : md_NS pre base size top hi σ slots) (hroom : base + 8 * (slots.length + 1) ≤ top) (v : BitVec 64) :
    ∃ σ1, X86.push σ v = some σ1 ∧ σ1.reg = (σ.set 4 (σ.get 4 - 8)).reg ∧ σ1.rip = σ.rip ∧ σ1.flags = σ.flags ∧
      σ1.log = σ.log ∧ σ1.misaligned = σ.misaligned ∧ md_NS pre base size top hi σ1 (slots ++ [v.toNat]) := by
  obtain ⟨⟨lower, hm, hb, hs, hsl, hhi⟩, hpre, _, htop, hsp, hbd⟩ := h
  have hspv : (σ.get 4 - 8).toNat = (σ.get 4).toNat - 8 := by
    rw [BitVec.toNat_sub]
    have : (8 : BitVec 64).toNat = 8 := rfl
    have := (σ.get 4).isLt
    omega
  have hw : writeMem σ.mem (σ.get 4 - 8).toNat (leBytes v.toNat 8) =
      some (pre ++ [Memory.writeRegion lower (σ.get 4 - 8).toNat (leBytes v.toNat 8)]) := by
    unfold writeMem
    rw [hm]
    apply md_writeExtra_last
    · intro r hr
      rw [md_leBytes_length]
      exact hpre r hr _ 8 (by omega) (by omega) (by omega)
    · rw [md_leBytes_length]
      simp [Region.contains, hb, hs]
      omega
  refine ⟨{ (σ.set 4 (σ.get 4 - 8)) with mem := pre ++ [Memory.writeRegion lower (σ.get 4 - 8).toNat (leBytes v.toNat 8)] },
    ?_, rfl, rfl, rfl, rfl, rfl, ?_⟩
  · unfold X86.push
    simp only [X86.RSP]
    rw [hw]
  · refine ⟨⟨_, rfl, by rw [md_writeRegion_base, hb], by rw [md_writeRegion_size, hs], ?_, ?_⟩, hpre, by simpa using hroom,
      htop, ?_, hbd⟩
    · intro j hj k hk
      rw [md_writeRegion_getD, md_leBytes_length, hb, hs, hspv]
      simp only [List.length_append, List.length_cons, List.length_nil] at hj
      by_cases hjl : j = slots.length
      · subst hjl
        have hc : (σ.get 4).toNat - 8 - base ≤ top - base - 8 * (slots.length + 1) + k ∧
            top - base - 8 * (slots.length + 1) + k < (σ.get 4).toNat - 8 - base + 8 ∧
            top - base - 8 * (slots.length + 1) + k < size := by omega
        rw [if_pos hc]
        have : top - base - 8 * (slots.length + 1) + k - ((σ.get 4).toNat - 8 - base) = k := by omega
        rw [this]
        simp
      · have hj' : j < slots.length := by omega
        have hc : ¬ ((σ.get 4).toNat - 8 - base ≤ top - base - 8 * (j + 1) + k ∧
            top - base - 8 * (j + 1) + k < (σ.get 4).toNat - 8 - base + 8 ∧ top - base - 8 * (j + 1) + k < size) := by omega
        rw [if_neg hc, hsl j hj' k hk, md_getD_append_left _ _ _ hj']
    · intro j hj1 hj2
      rw [md_writeRegion_getD, md_leBytes_length, hb, hs, hspv]
      have hc : ¬ ((σ.get 4).toNat - 8 - base ≤ j ∧ j < (σ.get 4).toNat - 8 - base + 8 ∧ j < size) := by omega
      rw [if_neg hc, hhi j hj1 hj2]
    · show ((σ.set 4 (σ.get 4 - 8)).get 4).toNat + _ = _
      rw [get_set_eq σ 4 _ (by omega), hspv]
      simp only [List.length_append, List.length_cons, List.length_nil]
      omega

theorem md_ns_pop {pre : List Region} {base size top : Nat} {hi : Nat → BitVec 8} {σ : St} {slots : List Nat} {v : BitVec 64}
    (h : md_NS pre base size top hi σ (slots ++ [v.toNat])) :
    X86.pop σ = some (v, σ.set 4 (σ.get 4 + 8)) ∧ md_NS pre base size top hi (σ.set 4 (σ.get 4 + 8)) slots := by
  have hlen : (slots ++ [v.toNat]).length = slots.length + 1 := by simp
  have hr := md_ns_read h slots.length (by omega)
  obtain ⟨⟨lower, hm, hb, hs, hsl, hhi⟩, hpre, hroom, htop, hsp, hbd⟩ := h
  rw [hlen] at hroom hsp
  have hspv : (σ.get 4 + 8).toNat = (σ.get 4).toNat + 8 := by
    rw [BitVec.toNat_add]
    have : (8 : BitVec 64).toNat = 8 := rfl
    omega
  constructor
  · unfold X86.pop
    simp only [X86.RSP]
    have : (σ.get 4).toNat = top - 8 * (slots.length + 1) := by omega
    rw [this, hr]
    simp [md_ofNat_leValue]
  · refine ⟨⟨lower, hm, hb, hs, ?_, hhi⟩, hpre, by omega, htop, ?_, hbd⟩
    · intro j hj k hk
      rw [hsl j (by omega) k hk, md_getD_append_left _ _ _ hj]
    · rw [get_set_eq σ 4 _ (by omega), hspv]
      omega

-- from and to `Rel0` ----------------------------------------------------------------------------------------------

theorem md_disjoint_contains (r lower : Region) (a w : Nat) (hd : disjoint r lower) (hl : 0 < lower.bytes.size)
    (h1 : lower.base ≤ a) (h2 : a + w ≤ lower.base + lower.bytes.size) (hw : 0 < w) : r.contains a w = false := by
  unfold disjoint at hd
  simp only [Region.contains, Bool.and_eq_false_iff, decide_eq_false_iff_not]
  omega

/-- entering: the state between two arms has the return address of the current activation in the slot at rsp; `top` is
    `rsp + 8`, at least 72 bytes above the base of the native stack.  Leaving: a state with the same invariant, the same
    eBPF memory and call depth, and matching registers represents `s'`; the bytes above the eBPF stack and the frames of
    the callers are as before. -/
theorem md_ns_of_rel0 (retAddr : Nat) (σ : St) (s : State) (h : Rel0 retAddr σ s) :
    ∃ pre base size top hi, md_NS pre base size top hi σ [retAddr] ∧ base + 72 ≤ top ∧
      ∀ (σ' : St) (s' : State), md_NS pre base size top hi σ' [retAddr] → s'.mem = s.mem →
        s'.frames.length = s.frames.length →
        (∀ k, k < 11 → σ'.get (regOf k) = s'.reg.getD k 0) → σ'.get 10 = σ.get 10 →
        Rel0 retAddr σ' s' ∧ topBytes σ' s' = topBytes σ s ∧ CallersKept σ σ' s := by
  obtain ⟨hregs, hmem, hpkt, hrsp, hret, hroom⟩ := h
  obtain ⟨frame, lower, hxm, hfb, hss, hfs, hfbytes, hlb, hls, hpw, hbd⟩ := hmem
  have hxm' : σ.mem = (frame :: s.mem.mbuff :: s.mem.mem :: s.mem.extra) ++ [lower] := by simp [hxm]
  have hpre : ∀ r ∈ (frame :: s.mem.mbuff :: s.mem.mem :: s.mem.extra), ∀ a w, lower.base ≤ a →
      a + w ≤ lower.base + lower.bytes.size → 0 < w → r.contains a w = false := by
    intro r hr a w h1 h2 hw
    rw [hxm', List.pairwise_append] at hpw
    exact md_disjoint_contains r lower a w (hpw.2.2 r hr lower (by simp)) (by omega) h1 h2 hw
  have hlbd : lower.base + lower.bytes.size < 2 ^ 64 := hbd lower (by rw [hxm']; simp)
  have hrsp4 : (σ.get 4).toNat + 8 + 48 * s.frames.length = s.mem.stack.base := hrsp
  have hroom4 : lower.base + 64 ≤ (σ.get 4).toNat := by
    obtain ⟨l, hl, hle⟩ := hroom
    rw [hxm', List.getLast?_append] at hl
    simp at hl
    subst hl
    exact hle
  have hns0 : md_NS (frame :: s.mem.mbuff :: s.mem.mem :: s.mem.extra) lower.base lower.bytes.size ((σ.get 4).toNat + 8)
      (fun j => lower.bytes.getD j 0) σ [retAddr] := by
    refine ⟨⟨lower, hxm', rfl, rfl, ?_, fun _ _ _ => rfl⟩, hpre, by simp; omega, by omega, by simp, hlbd⟩
    intro j hj k hk
    simp only [List.length_cons, List.length_nil] at hj
    have hj0 : j = 0 := by omega
    subst hj0
    have hr : readMem σ.mem (σ.get 4).toNat 8 = some (leBytes retAddr 8) := hret
    rw [hxm', md_readMem_last _ lower _ 8 (fun r hr => hpre r hr _ 8 (by omega) (by omega) (by omega))
      (by simp [Region.contains]; omega)] at hr
    have hr' := Option.some.inj hr
    have := congrArg (fun l => l.getD k 0) hr'
    simp only [List.getD_eq_getElem?_getD, List.getElem?_map, List.getElem?_range hk, Option.map_some, Option.getD_some] at this
    show _ = (leBytes retAddr 8).getD k 0
    rw [List.getD_eq_getElem?_getD, ← this]
    congr 1
    omega
  refine ⟨_, _, _, _, _, hns0, by omega, ?_⟩
  · intro σ' s' hns hsm hsf hr10 hpk
    have habove := fun a w ha => md_ns_above hns0 hns a w ha
    have hread := md_ns_read hns 0 (by simp)
    obtain ⟨⟨lower', hm', hb', hs', hsl', _⟩, _, _, _, hsp', _⟩ := hns
    simp only [List.length_cons, List.length_nil] at hsp'
    have hsp4 : (σ'.get 4).toNat = (σ.get 4).toNat := by omega
    refine ⟨⟨hr10, ?_, by rw [hpk, hpkt, hsm], ?_, ?_, ?_⟩, ?_, ?_⟩
    · rw [hsm]
      refine ⟨frame, lower', by simp [hm'], hfb, hss, hfs, hfbytes, by rw [hb', hs']; exact hlb, by rw [hs']; exact hls, ?_, ?_⟩
      · rw [hxm', List.pairwise_append] at hpw
        rw [hm', List.pairwise_append]
        refine ⟨hpw.1, by simp, ?_⟩
        intro r hr q hq
        simp only [List.mem_singleton] at hq
        subst hq
        have := hpw.2.2 r hr lower (by simp)
        unfold disjoint at this ⊢
        rw [hb', hs']
        exact this
      · intro r hr
        rw [hm'] at hr
        rw [List.mem_append] at hr
        rcases hr with hr | hr
        · exact hbd r (by rw [hxm']; exact List.mem_append_left _ hr)
        · simp only [List.mem_singleton] at hr
          subst hr
          rw [hb', hs']; exact hlbd
    · show (σ'.get 4).toNat + 8 + 48 * s'.frames.length = _
      rw [hsm, hsf, hsp4]
      exact hrsp4
    · show readMem σ'.mem (σ'.get 4).toNat 8 = _
      have : (σ'.get 4).toNat = (σ.get 4).toNat + 8 - 8 * (0 + 1) := by omega
      rw [this, hread]
      rfl
    · refine ⟨lower', ?_, ?_⟩
      · rw [hm', List.getLast?_append]; simp
      · show lower'.base + 64 ≤ (σ'.get 4).toNat
        rw [hb', hsp4]; exact hroom4
    · unfold topBytes
      rw [hsm, hm', hxm']
      have hc : frame.contains (s.mem.stack.base + 512) 56 = true := by
        simp [Region.contains]; omega
      simp only [List.cons_append]
      rw [md_readMem_head _ _ _ _ hc, md_readMem_head _ _ _ _ hc]
    · intro a w ha _
      exact habove a w ha

end Rbpf.JitSim
