/-
  x86-64 simulation, opcode class `aluOpcodes`: the instruction sequence the JIT emits for each of these eBPF
  instructions, run by the x86-64 machine model, computes what `EngineSem.jitExec` says (statement: `JitSim.ArmSim`).
  One theorem per opcode (`alu_opXX`), assembled in `armSim_alu`.
-/
import RbpfModel.Lemmas.X86Sim.AluBase
set_option linter.unusedSimpArgs false
namespace Rbpf.JitSim
open Rbpf.X86 (Cfg St Out Instr step exec decode fetch readMem writeMem AluOp ShOp)
open Rbpf.JitAst (AI Tgt checkSeq window arm)
open Rbpf.EngineSem (jitExec)
open Rbpf.Interp (lo32 zx32 sx32)

/-- the arm of opcode `h` is the stated instruction list (closes `arm … = .ok (…, 1)`) -/
macro "alu_arm_tac" h:ident : tactic => `(tactic| (
  intro haddr pc nxt hd hs
  unfold arm
  rw [mapRegister_eq _ hd, mapRegister_eq _ hs, $h:ident]
  rfl))

/-- reduces `jitExec … = .next {… val …}` for opcode `h` to the equation between the interpreter's value and `val` -/
macro "alu_int_tac" h:ident hmem:ident : tactic => `(tactic| (
  intro env s hd hs
  rw [alu_jitExec_eq env s _ $hmem]
  unfold Interp.exec
  rw [$h:ident]
  first | show Interp.rd _ _ _ = _ | show Interp.wr _ _ _ = _
  simp only [alu_rd _ _ _ hd, alu_rd _ _ _ hs, alu_wr _ _ _ hd]
  first | done | apply alu_next_congr))

theorem alu_op07 (i : Insn) (h : i.opc.toNat = 0x07) : ArmSim i := by
  have hmem : i.opc.toNat ∈ aluOpcodes := by rw [h]; decide
  refine alu_single i (fun sr ds => .aluRI true .add ds i.imm) (fun d x => aluBV .add d (sx32 i.imm)) (by alu_arm_tac h) ?_
    (fun c σ sr ds => alu_x_ri64 c σ .add (by decide) (by decide) ds i.imm)
  alu_int_tac h hmem
  rfl

theorem alu_op17 (i : Insn) (h : i.opc.toNat = 0x17) : ArmSim i := by
  have hmem : i.opc.toNat ∈ aluOpcodes := by rw [h]; decide
  refine alu_single i (fun sr ds => .aluRI true .sub ds i.imm) (fun d x => aluBV .sub d (sx32 i.imm)) (by alu_arm_tac h) ?_
    (fun c σ sr ds => alu_x_ri64 c σ .sub (by decide) (by decide) ds i.imm)
  alu_int_tac h hmem
  rfl

theorem alu_op47 (i : Insn) (h : i.opc.toNat = 0x47) : ArmSim i := by
  have hmem : i.opc.toNat ∈ aluOpcodes := by rw [h]; decide
  refine alu_single i (fun sr ds => .aluRI true .or ds i.imm) (fun d x => aluBV .or d (sx32 i.imm)) (by alu_arm_tac h) ?_
    (fun c σ sr ds => alu_x_ri64 c σ .or (by decide) (by decide) ds i.imm)
  alu_int_tac h hmem
  rfl

theorem alu_op57 (i : Insn) (h : i.opc.toNat = 0x57) : ArmSim i := by
  have hmem : i.opc.toNat ∈ aluOpcodes := by rw [h]; decide
  refine alu_single i (fun sr ds => .aluRI true .and ds i.imm) (fun d x => aluBV .and d (sx32 i.imm)) (by alu_arm_tac h) ?_
    (fun c σ sr ds => alu_x_ri64 c σ .and (by decide) (by decide) ds i.imm)
  alu_int_tac h hmem
  rfl

theorem alu_opa7 (i : Insn) (h : i.opc.toNat = 0xa7) : ArmSim i := by
  have hmem : i.opc.toNat ∈ aluOpcodes := by rw [h]; decide
  refine alu_single i (fun sr ds => .aluRI true .xor ds i.imm) (fun d x => aluBV .xor d (sx32 i.imm)) (by alu_arm_tac h) ?_
    (fun c σ sr ds => alu_x_ri64 c σ .xor (by decide) (by decide) ds i.imm)
  alu_int_tac h hmem
  rfl

theorem alu_op0f (i : Insn) (h : i.opc.toNat = 0x0f) : ArmSim i := by
  have hmem : i.opc.toNat ∈ aluOpcodes := by rw [h]; decide
  refine alu_single i (fun sr ds => .aluRR true .add sr ds) (fun d x => aluBV .add d x) (by alu_arm_tac h) ?_
    (fun c σ sr ds => alu_x_rr64 c σ .add (by decide) (by decide) sr ds)
  alu_int_tac h hmem
  rfl

theorem alu_op1f (i : Insn) (h : i.opc.toNat = 0x1f) : ArmSim i := by
  have hmem : i.opc.toNat ∈ aluOpcodes := by rw [h]; decide
  refine alu_single i (fun sr ds => .aluRR true .sub sr ds) (fun d x => aluBV .sub d x) (by alu_arm_tac h) ?_
    (fun c σ sr ds => alu_x_rr64 c σ .sub (by decide) (by decide) sr ds)
  alu_int_tac h hmem
  rfl

theorem alu_op4f (i : Insn) (h : i.opc.toNat = 0x4f) : ArmSim i := by
  have hmem : i.opc.toNat ∈ aluOpcodes := by rw [h]; decide
  refine alu_single i (fun sr ds => .aluRR true .or sr ds) (fun d x => aluBV .or d x) (by alu_arm_tac h) ?_
    (fun c σ sr ds => alu_x_rr64 c σ .or (by decide) (by decide) sr ds)
  alu_int_tac h hmem
  rfl

theorem alu_op5f (i : Insn) (h : i.opc.toNat = 0x5f) : ArmSim i := by
  have hmem : i.opc.toNat ∈ aluOpcodes := by rw [h]; decide
  refine alu_single i (fun sr ds => .aluRR true .and sr ds) (fun d x => aluBV .and d x) (by alu_arm_tac h) ?_
    (fun c σ sr ds => alu_x_rr64 c σ .and (by decide) (by decide) sr ds)
  alu_int_tac h hmem
  rfl

theorem alu_opaf (i : Insn) (h : i.opc.toNat = 0xaf) : ArmSim i := by
  have hmem : i.opc.toNat ∈ aluOpcodes := by rw [h]; decide
  refine alu_single i (fun sr ds => .aluRR true .xor sr ds) (fun d x => aluBV .xor d x) (by alu_arm_tac h) ?_
    (fun c σ sr ds => alu_x_rr64 c σ .xor (by decide) (by decide) sr ds)
  alu_int_tac h hmem
  rfl

theorem alu_opbf (i : Insn) (h : i.opc.toNat = 0xbf) : ArmSim i := by
  have hmem : i.opc.toNat ∈ aluOpcodes := by rw [h]; decide
  refine alu_single i (fun sr ds => .aluRR true .mov sr ds) (fun d x => aluBV .mov d x) (by alu_arm_tac h) ?_
    (fun c σ sr ds => alu_x_rr64 c σ .mov (by decide) (by decide) sr ds)
  alu_int_tac h hmem
  rfl

theorem alu_op04 (i : Insn) (h : i.opc.toNat = 0x04) : ArmSim i := by
  have hmem : i.opc.toNat ∈ aluOpcodes := by rw [h]; decide
  refine alu_single i (fun sr ds => .aluRI false .add ds i.imm) (fun d x => zx32 (aluBV .add (lo32 d) i.imm)) (by alu_arm_tac h) ?_
    (fun c σ sr ds => alu_x_ri32 c σ .add (by decide) (by decide) ds i.imm)
  alu_int_tac h hmem
  rfl

theorem alu_op14 (i : Insn) (h : i.opc.toNat = 0x14) : ArmSim i := by
  have hmem : i.opc.toNat ∈ aluOpcodes := by rw [h]; decide
  refine alu_single i (fun sr ds => .aluRI false .sub ds i.imm) (fun d x => zx32 (aluBV .sub (lo32 d) i.imm)) (by alu_arm_tac h) ?_
    (fun c σ sr ds => alu_x_ri32 c σ .sub (by decide) (by decide) ds i.imm)
  alu_int_tac h hmem
  rfl

theorem alu_op44 (i : Insn) (h : i.opc.toNat = 0x44) : ArmSim i := by
  have hmem : i.opc.toNat ∈ aluOpcodes := by rw [h]; decide
  refine alu_single i (fun sr ds => .aluRI false .or ds i.imm) (fun d x => zx32 (aluBV .or (lo32 d) i.imm)) (by alu_arm_tac h) ?_
    (fun c σ sr ds => alu_x_ri32 c σ .or (by decide) (by decide) ds i.imm)
  alu_int_tac h hmem
  rfl

theorem alu_op54 (i : Insn) (h : i.opc.toNat = 0x54) : ArmSim i := by
  have hmem : i.opc.toNat ∈ aluOpcodes := by rw [h]; decide
  refine alu_single i (fun sr ds => .aluRI false .and ds i.imm) (fun d x => zx32 (aluBV .and (lo32 d) i.imm)) (by alu_arm_tac h) ?_
    (fun c σ sr ds => alu_x_ri32 c σ .and (by decide) (by decide) ds i.imm)
  alu_int_tac h hmem
  rfl

theorem alu_opa4 (i : Insn) (h : i.opc.toNat = 0xa4) : ArmSim i := by
  have hmem : i.opc.toNat ∈ aluOpcodes := by rw [h]; decide
  refine alu_single i (fun sr ds => .aluRI false .xor ds i.imm) (fun d x => zx32 (aluBV .xor (lo32 d) i.imm)) (by alu_arm_tac h) ?_
    (fun c σ sr ds => alu_x_ri32 c σ .xor (by decide) (by decide) ds i.imm)
  alu_int_tac h hmem
  rfl

theorem alu_opb4 (i : Insn) (h : i.opc.toNat = 0xb4) : ArmSim i := by
  have hmem : i.opc.toNat ∈ aluOpcodes := by rw [h]; decide
  refine alu_single i (fun sr ds => .aluRI false .mov ds i.imm) (fun d x => zx32 (aluBV .mov (lo32 d) i.imm)) (by alu_arm_tac h) ?_
    (fun c σ sr ds => alu_x_ri32 c σ .mov (by decide) (by decide) ds i.imm)
  alu_int_tac h hmem
  rfl

theorem alu_op0c (i : Insn) (h : i.opc.toNat = 0x0c) : ArmSim i := by
  have hmem : i.opc.toNat ∈ aluOpcodes := by rw [h]; decide
  refine alu_single i (fun sr ds => .aluRR false .add sr ds) (fun d x => zx32 (aluBV .add (lo32 d) (lo32 x))) (by alu_arm_tac h) ?_
    (fun c σ sr ds => alu_x_rr32 c σ .add (by decide) (by decide) sr ds)
  alu_int_tac h hmem
  rfl

theorem alu_op1c (i : Insn) (h : i.opc.toNat = 0x1c) : ArmSim i := by
  have hmem : i.opc.toNat ∈ aluOpcodes := by rw [h]; decide
  refine alu_single i (fun sr ds => .aluRR false .sub sr ds) (fun d x => zx32 (aluBV .sub (lo32 d) (lo32 x))) (by alu_arm_tac h) ?_
    (fun c σ sr ds => alu_x_rr32 c σ .sub (by decide) (by decide) sr ds)
  alu_int_tac h hmem
  rfl

theorem alu_op4c (i : Insn) (h : i.opc.toNat = 0x4c) : ArmSim i := by
  have hmem : i.opc.toNat ∈ aluOpcodes := by rw [h]; decide
  refine alu_single i (fun sr ds => .aluRR false .or sr ds) (fun d x => zx32 (aluBV .or (lo32 d) (lo32 x))) (by alu_arm_tac h) ?_
    (fun c σ sr ds => alu_x_rr32 c σ .or (by decide) (by decide) sr ds)
  alu_int_tac h hmem
  rfl

theorem alu_op5c (i : Insn) (h : i.opc.toNat = 0x5c) : ArmSim i := by
  have hmem : i.opc.toNat ∈ aluOpcodes := by rw [h]; decide
  refine alu_single i (fun sr ds => .aluRR false .and sr ds) (fun d x => zx32 (aluBV .and (lo32 d) (lo32 x))) (by alu_arm_tac h) ?_
    (fun c σ sr ds => alu_x_rr32 c σ .and (by decide) (by decide) sr ds)
  alu_int_tac h hmem
  rfl

theorem alu_opac (i : Insn) (h : i.opc.toNat = 0xac) : ArmSim i := by
  have hmem : i.opc.toNat ∈ aluOpcodes := by rw [h]; decide
  refine alu_single i (fun sr ds => .aluRR false .xor sr ds) (fun d x => zx32 (aluBV .xor (lo32 d) (lo32 x))) (by alu_arm_tac h) ?_
    (fun c σ sr ds => alu_x_rr32 c σ .xor (by decide) (by decide) sr ds)
  alu_int_tac h hmem
  rfl

theorem alu_opbc (i : Insn) (h : i.opc.toNat = 0xbc) : ArmSim i := by
  have hmem : i.opc.toNat ∈ aluOpcodes := by rw [h]; decide
  refine alu_single i (fun sr ds => .aluRR false .mov sr ds) (fun d x => zx32 (aluBV .mov (lo32 d) (lo32 x))) (by alu_arm_tac h) ?_
    (fun c σ sr ds => alu_x_rr32 c σ .mov (by decide) (by decide) sr ds)
  alu_int_tac h hmem
  rfl

theorem alu_opb7 (i : Insn) (h : i.opc.toNat = 0xb7) : ArmSim i := by
  have hmem : i.opc.toNat ∈ aluOpcodes := by rw [h]; decide
  refine alu_single i (fun sr ds => JitAst.loadImm ds i.imm.toInt) (fun d x => sx32 i.imm) (by alu_arm_tac h) ?_
    (fun c σ sr ds => by have := alu_x_loadImm c σ ds (sx32 i.imm); rwa [alu_sx_toInt] at this)
  alu_int_tac h hmem
  

theorem alu_op67 (i : Insn) (h : i.opc.toNat = 0x67) : ArmSim i := by
  have hmem : i.opc.toNat ∈ aluOpcodes := by rw [h]; decide
  refine alu_single i (fun sr ds => .shiftI 64 .shl ds (i.imm.toNat % 256)) (fun d x => aluShBV .shl d (i.imm.toNat % 256 % 64)) (by alu_arm_tac h) ?_
    (fun c σ sr ds => alu_x_shI64 c σ .shl (by decide) ds _)
  alu_int_tac h hmem
  show _ = aluShBV .shl _ _
  rw [alu_cnt64]; rfl

theorem alu_op77 (i : Insn) (h : i.opc.toNat = 0x77) : ArmSim i := by
  have hmem : i.opc.toNat ∈ aluOpcodes := by rw [h]; decide
  refine alu_single i (fun sr ds => .shiftI 64 .shr ds (i.imm.toNat % 256)) (fun d x => aluShBV .shr d (i.imm.toNat % 256 % 64)) (by alu_arm_tac h) ?_
    (fun c σ sr ds => alu_x_shI64 c σ .shr (by decide) ds _)
  alu_int_tac h hmem
  show _ = aluShBV .shr _ _
  rw [alu_cnt64]; rfl

theorem alu_opc7 (i : Insn) (h : i.opc.toNat = 0xc7) : ArmSim i := by
  have hmem : i.opc.toNat ∈ aluOpcodes := by rw [h]; decide
  refine alu_single i (fun sr ds => .shiftI 64 .sar ds (i.imm.toNat % 256)) (fun d x => aluShBV .sar d (i.imm.toNat % 256 % 64)) (by alu_arm_tac h) ?_
    (fun c σ sr ds => alu_x_shI64 c σ .sar (by decide) ds _)
  alu_int_tac h hmem
  show _ = aluShBV .sar _ _
  rw [alu_cnt64]; rfl

theorem alu_op64 (i : Insn) (h : i.opc.toNat = 0x64) : ArmSim i := by
  have hmem : i.opc.toNat ∈ aluOpcodes := by rw [h]; decide
  refine alu_single i (fun sr ds => .shiftI 32 .shl ds (i.imm.toNat % 256)) (fun d x => zx32 (aluShBV .shl (lo32 d) (i.imm.toNat % 256 % 32))) (by alu_arm_tac h) ?_
    (fun c σ sr ds => alu_x_shI32 c σ .shl (by decide) ds _)
  alu_int_tac h hmem
  show _ = zx32 (aluShBV .shl _ _)
  rw [alu_cnt32]; rfl

theorem alu_op74 (i : Insn) (h : i.opc.toNat = 0x74) : ArmSim i := by
  have hmem : i.opc.toNat ∈ aluOpcodes := by rw [h]; decide
  refine alu_single i (fun sr ds => .shiftI 32 .shr ds (i.imm.toNat % 256)) (fun d x => zx32 (aluShBV .shr (lo32 d) (i.imm.toNat % 256 % 32))) (by alu_arm_tac h) ?_
    (fun c σ sr ds => alu_x_shI32 c σ .shr (by decide) ds _)
  alu_int_tac h hmem
  show _ = zx32 (aluShBV .shr _ _)
  rw [alu_cnt32]; rfl

theorem alu_opc4 (i : Insn) (h : i.opc.toNat = 0xc4) : ArmSim i := by
  have hmem : i.opc.toNat ∈ aluOpcodes := by rw [h]; decide
  refine alu_single i (fun sr ds => .shiftI 32 .sar ds (i.imm.toNat % 256)) (fun d x => zx32 (aluShBV .sar (lo32 d) (i.imm.toNat % 256 % 32))) (by alu_arm_tac h) ?_
    (fun c σ sr ds => alu_x_shI32 c σ .sar (by decide) ds _)
  alu_int_tac h hmem
  show _ = zx32 (aluShBV .sar _ _)
  rw [alu_sx_and]; rw [alu_cnt32]; rfl

theorem alu_op6f (i : Insn) (h : i.opc.toNat = 0x6f) : ArmSim i := by
  have hmem : i.opc.toNat ∈ aluOpcodes := by rw [h]; decide
  refine alu_shreg i true .shl (fun d x => aluShBV .shl d (x.toNat % 64)) (by alu_arm_tac h) ?_
    (fun c σ ds => alu_x_shCl64 c σ .shl (by decide) ds)
  alu_int_tac h hmem
  rfl

theorem alu_op7f (i : Insn) (h : i.opc.toNat = 0x7f) : ArmSim i := by
  have hmem : i.opc.toNat ∈ aluOpcodes := by rw [h]; decide
  refine alu_shreg i true .shr (fun d x => aluShBV .shr d (x.toNat % 64)) (by alu_arm_tac h) ?_
    (fun c σ ds => alu_x_shCl64 c σ .shr (by decide) ds)
  alu_int_tac h hmem
  rfl

theorem alu_opcf (i : Insn) (h : i.opc.toNat = 0xcf) : ArmSim i := by
  have hmem : i.opc.toNat ∈ aluOpcodes := by rw [h]; decide
  refine alu_shreg i true .sar (fun d x => aluShBV .sar d (x.toNat % 64)) (by alu_arm_tac h) ?_
    (fun c σ ds => alu_x_shCl64 c σ .sar (by decide) ds)
  alu_int_tac h hmem
  rfl

theorem alu_op6c (i : Insn) (h : i.opc.toNat = 0x6c) : ArmSim i := by
  have hmem : i.opc.toNat ∈ aluOpcodes := by rw [h]; decide
  refine alu_shreg i false .shl (fun d x => zx32 (aluShBV .shl (lo32 d) (x.toNat % 32))) (by alu_arm_tac h) ?_
    (fun c σ ds => alu_x_shCl32 c σ .shl (by decide) ds)
  alu_int_tac h hmem
  show _ = zx32 (aluShBV .shl _ _)
  rw [alu_cnt32r]; rfl

theorem alu_op7c (i : Insn) (h : i.opc.toNat = 0x7c) : ArmSim i := by
  have hmem : i.opc.toNat ∈ aluOpcodes := by rw [h]; decide
  refine alu_shreg i false .shr (fun d x => zx32 (aluShBV .shr (lo32 d) (x.toNat % 32))) (by alu_arm_tac h) ?_
    (fun c σ ds => alu_x_shCl32 c σ .shr (by decide) ds)
  alu_int_tac h hmem
  show _ = zx32 (aluShBV .shr _ _)
  rw [alu_cnt32r]; rfl

theorem alu_opcc (i : Insn) (h : i.opc.toNat = 0xcc) : ArmSim i := by
  have hmem : i.opc.toNat ∈ aluOpcodes := by rw [h]; decide
  refine alu_shreg i false .sar (fun d x => zx32 (aluShBV .sar (lo32 d) (x.toNat % 32))) (by alu_arm_tac h) ?_
    (fun c σ ds => alu_x_shCl32 c σ .sar (by decide) ds)
  alu_int_tac h hmem
  show _ = zx32 (aluShBV .sar _ _)
  rw [alu_sx_and]; rw [alu_cnt32r]; rfl

theorem alu_op87 (i : Insn) (h : i.opc.toNat = 0x87) : ArmSim i := by
  have hmem : i.opc.toNat ∈ aluOpcodes := by rw [h]; decide
  refine alu_single i (fun sr ds => .neg true ds) (fun d x => - d) (by alu_arm_tac h) ?_
    (fun c σ sr ds => alu_x_neg64 c σ ds)
  alu_int_tac h hmem
  

theorem alu_op84 (i : Insn) (h : i.opc.toNat = 0x84) : ArmSim i := by
  have hmem : i.opc.toNat ∈ aluOpcodes := by rw [h]; decide
  refine alu_single i (fun sr ds => .neg false ds) (fun d x => zx32 (- lo32 d)) (by alu_arm_tac h) ?_
    (fun c σ sr ds => alu_x_neg32 c σ ds)
  alu_int_tac h hmem
  show _ = zx32 _
  rw [alu_sx_and]

theorem alu_opd4 (i : Insn) (h : i.opc.toNat = 0xd4) : ArmSim i := by
  have hmem : i.opc.toNat ∈ aluOpcodes := by rw [h]; decide
  by_cases h16 : i.imm = 16
  · refine alu_single i (fun _ ds => .aluRI false .and ds 0xffff#32) (fun d _ => zx32 (aluBV .and (lo32 d) 0xffff#32)) ?_ ?_
      (fun c σ sr ds => alu_x_ri32 c σ .and (by decide) (by decide) ds _)
    · intro haddr pc nxt hd hs
      unfold arm
      rw [mapRegister_eq _ hd, mapRegister_eq _ hs, h]
      show (if i.imm = 16 then _ else _) = _
      rw [if_pos h16]
    · intro env s hd hs
      rw [alu_jitExec_eq env s _ hmem]
      unfold Interp.exec
      rw [h]
      show Interp.rd _ _ _ = _
      simp only [alu_rd _ _ _ hd, if_pos h16, alu_wr _ _ _ hd]
      apply alu_next_congr
      exact (alu_le16 _).symm
  by_cases h32 : i.imm = 32
  · refine alu_single i (fun _ ds => .aluRR false .mov ds ds) (fun d _ => zx32 (aluBV .mov (lo32 d) (lo32 d))) ?_ ?_
      (fun c σ sr ds => alu_x_rr32 c σ .mov (by decide) (by decide) ds ds)
    · intro haddr pc nxt hd hs
      unfold arm
      rw [mapRegister_eq _ hd, mapRegister_eq _ hs, h]
      show (if i.imm = 16 then _ else _) = _
      rw [if_neg h16, if_pos h32]
    · intro env s hd hs
      rw [alu_jitExec_eq env s _ hmem]
      unfold Interp.exec
      rw [h]
      show Interp.rd _ _ _ = _
      simp only [alu_rd _ _ _ hd, if_neg h16, if_pos h32, alu_wr _ _ _ hd]
      first | done | (apply alu_next_congr; rfl)
  intro c tgt haddr pc n a b retAddr ais σ env s s' harm' hchk _ hrip hrel hpc hex
  obtain ⟨hd, hs⟩ := alu_arm_regs harm'
  unfold arm at harm'
  rw [mapRegister_eq _ hd, mapRegister_eq _ hs, h] at harm'
  change (if i.imm = 16 then _ else _) = _ at harm'
  rw [if_neg h16, if_neg h32] at harm'
  by_cases h64 : i.imm = 64
  · rw [if_pos h64] at harm'
    injection harm' with harm'
    injection harm' with e1 e2
    subst e1 e2
    rw [checkSeq_nil] at hchk
    injection hchk with hchk
    subst hchk
    rw [alu_jitExec_eq env s _ hmem] at hex
    unfold Interp.exec at hex
    rw [h] at hex
    change Interp.rd _ _ _ = _ at hex
    simp only [alu_rd _ _ _ hd, if_neg h16, if_neg h32, if_pos h64, alu_wr _ _ _ hd] at hex
    injection hex with hex
    subst hex
    refine ⟨0, σ, rfl, ?_, rfl, rfl, rfl, rfl, rfl, callersKept_refl σ _, Or.inl ⟨hpc, hrip⟩⟩
    rw [alu_set_self]
    exact hrel
  · rw [if_neg h64] at harm'
    cases harm'

theorem alu_opdc (i : Insn) (h : i.opc.toNat = 0xdc) : ArmSim i := by
  have hmem : i.opc.toNat ∈ aluOpcodes := by rw [h]; decide
  by_cases h16 : i.imm = 16
  · intro c tgt haddr pc n a b retAddr ais σ env s s' harm' hchk _ hrip hrel hpc hex
    obtain ⟨hd, hs⟩ := alu_arm_regs harm'
    unfold arm at harm'
    rw [mapRegister_eq _ hd, mapRegister_eq _ hs, h] at harm'
    change (if i.imm = 16 then _ else _) = _ at harm'
    rw [if_pos h16] at harm'
    injection harm' with harm'
    injection harm' with e1 e2
    subst e1 e2
    rw [alu_jitExec_eq env s _ hmem] at hex
    unfold Interp.exec at hex
    rw [h] at hex
    change Interp.rd _ _ _ = _ at hex
    simp only [alu_rd _ _ _ hd, if_pos h16, alu_wr _ _ _ hd] at hex
    injection hex with hex
    subst hex
    obtain ⟨n1, hdec1, hrest⟩ := checkSeq_i _ _ _ _ _ _ hchk
    obtain ⟨σ1, x1, r1, m1, p1, l1, g1⟩ := alu_x_rol16 c σ (regOf i.dst.toNat) (c.codeBase + a + n1)
    have hrel1 := rel0_congr _ _ _ _ (rel0_wr retAddr σ s i.dst.toNat (alu_rol16 (σ.get (regOf i.dst.toNat))) hd hrel) r1 m1
    have hst1 : stepsN c 1 σ = some σ1 := stepsN_one _ _ _ (by rw [step_at c σ a n1 _ hrip hdec1]; exact x1)
    have hg : σ1.get (regOf i.dst.toNat) = alu_rol16 (σ.get (regOf i.dst.toNat)) := by
      have : σ1.get (regOf i.dst.toNat) = (σ.set (regOf i.dst.toNat) (alu_rol16 (σ.get (regOf i.dst.toNat)))).get (regOf i.dst.toNat) := by
        simp only [St.get, r1]; rfl
      rw [this, get_set_eq _ _ _ (regOf_lt _ hd)]
    have hm2 := alu_x_ri32 c σ1 .and (by decide) (by decide) (regOf i.dst.toNat) 0xffff#32
    rw [hg, alu_be16, hrel.regs _ hd] at hm2
    obtain ⟨σ2, h1, h2, h3, h4, h5, h6⟩ :=
      alu_fall_one c tgt (a + n1) b retAddr σ1 _ _ _ _ hd hrest (by rw [p1, Nat.add_assoc]) hrel1 hm2
    simp only [Vector.setIfInBounds_setIfInBounds] at h2
    refine ⟨2, σ2, stepsN_add c 1 1 σ σ1 σ2 hst1 h1, h2, ?_, h5.trans l1, h6.trans g1, rfl, rfl, callersKept_of_mem σ σ2 _ (h3.trans m1), Or.inl ⟨hpc, h4⟩⟩
    simp only [topBytes, h3, m1]
  by_cases h32 : i.imm = 32
  · refine alu_single i (fun _ ds => .bswap false ds) (fun d _ => Interp.bswap d 4) ?_ ?_
      (fun c σ sr ds => alu_x_bswap c σ false ds)
    · intro haddr pc nxt hd hs
      unfold arm
      rw [mapRegister_eq _ hd, mapRegister_eq _ hs, h]
      show (if i.imm = 16 then _ else _) = _
      rw [if_neg h16, if_pos h32]
    · intro env s hd hs
      rw [alu_jitExec_eq env s _ hmem]
      unfold Interp.exec
      rw [h]
      show Interp.rd _ _ _ = _
      simp only [alu_rd _ _ _ hd, if_neg h16, if_pos h32, alu_wr _ _ _ hd]
  by_cases h64 : i.imm = 64
  · refine alu_single i (fun _ ds => .bswap true ds) (fun d _ => Interp.bswap d 8) ?_ ?_
      (fun c σ sr ds => alu_x_bswap c σ true ds)
    · intro haddr pc nxt hd hs
      unfold arm
      rw [mapRegister_eq _ hd, mapRegister_eq _ hs, h]
      show (if i.imm = 16 then _ else _) = _
      rw [if_neg h16, if_neg h32, if_pos h64]
    · intro env s hd hs
      rw [alu_jitExec_eq env s _ hmem]
      unfold Interp.exec
      rw [h]
      show Interp.rd _ _ _ = _
      simp only [alu_rd _ _ _ hd, if_neg h16, if_neg h32, if_pos h64, alu_wr _ _ _ hd]
  intro c tgt haddr pc n a b retAddr ais σ env s s' harm' hchk _ hrip hrel hpc hex
  obtain ⟨hd, hs⟩ := alu_arm_regs harm'
  unfold arm at harm'
  rw [mapRegister_eq _ hd, mapRegister_eq _ hs, h] at harm'
  change (if i.imm = 16 then _ else _) = _ at harm'
  rw [if_neg h16, if_neg h32, if_neg h64] at harm'
  cases harm'

theorem alu_op18 (i : Insn) (h : i.opc.toNat = 0x18) : ArmSim i := by
  have hmem : i.opc.toNat ∈ aluOpcodes := by rw [h]; decide
  intro c tgt haddr pc n a b retAddr ais σ env s s' harm' hchk _ hrip hrel hpc hex
  obtain ⟨hd, hs⟩ := alu_arm_regs harm'
  unfold arm at harm'
  rw [mapRegister_eq _ hd, mapRegister_eq _ hs, h] at harm'
  rw [alu_jitExec_eq env s _ hmem] at hex
  unfold Interp.exec at hex
  rw [h, hpc] at hex
  cases hnx : getInsn? env.prog (pc + 1) with
  | none =>
    rw [hnx] at harm'
    cases harm'
  | some nx =>
    rw [hnx] at harm' hex
    change Except.ok _ = _ at harm'
    injection harm' with harm'
    injection harm' with e1 e2
    subst e1 e2
    change Interp.wr _ _ _ = _ at hex
    rw [alu_wr _ _ _ hd, alu_lddw_val] at hex
    injection hex with hex
    subst hex
    have hm := alu_x_loadImm c σ (regOf i.dst.toNat) (nx.imm ++ i.imm)
    obtain ⟨σ', h1, h2, h3, h4, h5, h6⟩ :=
      alu_fall_one c tgt a b retAddr σ _ _ _ _ hd hchk hrip (rel0_pc retAddr σ s (pc + 1 + 1) hrel) hm
    refine ⟨1, σ', h1, h2, ?_, h5, h6, rfl, rfl, callersKept_of_mem σ σ' _ h3, Or.inl ⟨rfl, h4⟩⟩
    simp only [topBytes, h3]

theorem armSim_alu (i : Insn) (h : i.opc.toNat ∈ aluOpcodes) : ArmSim i := by
  simp only [aluOpcodes, List.mem_cons, List.not_mem_nil, or_false] at h
  rcases h with h | h | h | h | h | h | h | h | h | h | h | h | h | h | h | h | h | h | h | h | h | h | h | h | h | h | h | h | h | h | h | h | h | h | h | h | h | h | h | h | h
  · exact alu_op07 i h
  · exact alu_op0f i h
  · exact alu_op17 i h
  · exact alu_op1f i h
  · exact alu_op47 i h
  · exact alu_op4f i h
  · exact alu_op57 i h
  · exact alu_op5f i h
  · exact alu_op67 i h
  · exact alu_op6f i h
  · exact alu_op77 i h
  · exact alu_op7f i h
  · exact alu_op87 i h
  · exact alu_opa7 i h
  · exact alu_opaf i h
  · exact alu_opb7 i h
  · exact alu_opbf i h
  · exact alu_opc7 i h
  · exact alu_opcf i h
  · exact alu_op04 i h
  · exact alu_op0c i h
  · exact alu_op14 i h
  · exact alu_op1c i h
  · exact alu_op44 i h
  · exact alu_op4c i h
  · exact alu_op54 i h
  · exact alu_op5c i h
  · exact alu_op64 i h
  · exact alu_op6c i h
  · exact alu_op74 i h
  · exact alu_op7c i h
  · exact alu_op84 i h
  · exact alu_opa4 i h
  · exact alu_opac i h
  · exact alu_opb4 i h
  · exact alu_opbc i h
  · exact alu_opc4 i h
  · exact alu_opcc i h
  · exact alu_opd4 i h
  · exact alu_opdc i h
  · exact alu_op18 i h

end Rbpf.JitSim
