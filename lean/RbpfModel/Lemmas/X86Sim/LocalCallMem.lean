/-
  eBPF-to-eBPF calls at machine level, part 1: the native stack seen from `Rel0` with the last region exposed
  (`lc_expose`), entering the native-stack invariant `md_NS` at any anchor from 8-byte reads (`lc_ns_enter`), and
  40-byte reads against five 8-byte reads inside the native stack.
-/
import RbpfModel.Lemmas.X86Sim.Base
import RbpfModel.Lemmas.X86Sim.MulDivMem
namespace Rbpf.JitSim
open Rbpf.X86 (Cfg St Out Instr step exec decode fetch readMem writeMem)

/-- reading inside the last region when no earlier region holds any part of it -/
theorem lc_read_lower (pre : List Region) (lower : Region) (a w : Nat)
    (hpre : ∀ r ∈ pre, ∀ a w, lower.base ≤ a → a + w ≤ lower.base + lower.bytes.size → 0 < w → r.contains a w = false)
    (h1 : lower.base ≤ a) (h2 : a + w ≤ lower.base + lower.bytes.size) (hw : 0 < w) :
    readMem (pre ++ [lower]) a w = some ((List.range w).map (fun k => lower.bytes.getD (a - lower.base + k) 0)) :=
  md_readMem_last pre lower a w (fun r hr => hpre r hr a w h1 h2 hw) (by simp [Region.contains]; omega)

/-- `Rel0` with the native stack (the last region of the machine's memory) exposed: no other region reaches into it, it
    ends where the eBPF stack begins, 64 bytes of it lie below rsp; and any state whose memory differs only inside it,
    whose rsp points at a slot holding `cur'` at the right depth, represents the matching eBPF state. -/
theorem lc_expose (cur : Nat) (σ : St) (s : State) (h : Rel0 cur σ s) :
    ∃ (pre : List Region) (lower : Region), σ.mem = pre ++ [lower] ∧
      lower.base + lower.bytes.size = s.mem.stack.base ∧ lower.base + 64 ≤ (σ.get 4).toNat ∧
      lower.base + lower.bytes.size < 2 ^ 64 ∧
      (∀ r ∈ pre, ∀ a w, lower.base ≤ a → a + w ≤ lower.base + lower.bytes.size → 0 < w → r.contains a w = false) ∧
      (∀ (σ' : St) (s' : State) (cur' : Nat) (lower' : Region), σ'.mem = pre ++ [lower'] → lower'.base = lower.base →
        lower'.bytes.size = lower.bytes.size → s'.mem = s.mem →
        (σ'.get 4).toNat + 8 + 48 * s'.frames.length = s.mem.stack.base → lower.base + 64 ≤ (σ'.get 4).toNat →
        readMem σ'.mem (σ'.get 4).toNat 8 = some (leBytes cur' 8) →
        (∀ k, k < 11 → σ'.get (regOf k) = s'.reg.getD k 0) → σ'.get 10 = σ.get 10 →
        Rel0 cur' σ' s' ∧ topBytes σ' s' = topBytes σ s) := by
  obtain ⟨hregs, hmem, hpkt, hrsp, hret, hroom⟩ := h
  obtain ⟨frame, lower, hxm, hfb, hss, hfs, hfbytes, hlb, hls, hpw, hbd⟩ := hmem
  have hxm' : σ.mem = (frame :: s.mem.mbuff :: s.mem.mem :: s.mem.extra) ++ [lower] := by simp [hxm]
  have hpre : ∀ r ∈ (frame :: s.mem.mbuff :: s.mem.mem :: s.mem.extra), ∀ a w, lower.base ≤ a →
      a + w ≤ lower.base + lower.bytes.size → 0 < w → r.contains a w = false := by
    intro r hr a w h1 h2 hw
    rw [hxm', List.pairwise_append] at hpw
    exact md_disjoint_contains r lower a w (hpw.2.2 r hr lower (by simp)) (by omega) h1 h2 hw
  have hlbd : lower.base + lower.bytes.size < 2 ^ 64 := hbd lower (by rw [hxm']; simp)
  have hroom4 : lower.base + 64 ≤ (σ.get 4).toNat := by
    obtain ⟨l, hl, hle⟩ := hroom
    rw [hxm', List.getLast?_append] at hl
    simp at hl
    subst hl
    exact hle
  refine ⟨_, lower, hxm', by rw [hlb, hfb], hroom4, hlbd, hpre, ?_⟩
  intro σ' s' cur' lower' hm' hb' hs' hsm hsp' hroom' hret' hr10 hpk
  refine ⟨⟨hr10, ?_, by rw [hpk, hpkt, hsm], ?_, hret', ?_⟩, ?_⟩
  · rw [hsm]
    refine ⟨frame, lower', by simp [hm'], hfb, hss, hfs, hfbytes, by rw [hb', hs']; exact hlb, by rw [hs']; exact hls, ?_, ?_⟩
    · rw [hxm', List.pairwise_append] at hpw
      rw [hm', List.pairwise_append]
      refine ⟨hpw.1, by simp, ?_⟩
      intro r hr q hq
      simp only [List.mem_singleton] at hq
      subst hq
      have := hpw.2.2 r hr lower (by simp)
      unfold disjoint at this ⊢
      rw [hb', hs']
      exact this
    · intro r hr
      rw [hm'] at hr
      rw [List.mem_append] at hr
      rcases hr with hr | hr
      · exact hbd r (by rw [hxm']; exact List.mem_append_left _ hr)
      · simp only [List.mem_singleton] at hr
        subst hr
        rw [hb', hs']; exact hlbd
  · show (σ'.get 4).toNat + 8 + 48 * s'.frames.length = _
    rw [hsm]; exact hsp'
  · refine ⟨lower', ?_, ?_⟩
    · rw [hm', List.getLast?_append]; simp
    · show lower'.base + 64 ≤ (σ'.get 4).toNat
      rw [hb']; exact hroom'
  · unfold topBytes
    rw [hsm, hm', hxm']
    have hc : frame.contains (s.mem.stack.base + 512) 56 = true := by
      simp [Region.contains]; omega
    simp only [List.cons_append]
    rw [md_readMem_head _ _ _ _ hc, md_readMem_head _ _ _ _ hc]

/-- entering the native-stack invariant at the anchor `top`: the slots between rsp and `top` hold `slots` -/
theorem lc_ns_enter (pre : List Region) (lower : Region) (σ : St) (hm : σ.mem = pre ++ [lower])
    (hpre : ∀ r ∈ pre, ∀ a w, lower.base ≤ a → a + w ≤ lower.base + lower.bytes.size → 0 < w → r.contains a w = false)
    (hbd : lower.base + lower.bytes.size < 2 ^ 64) (slots : List Nat) (top : Nat)
    (hsp : (σ.get 4).toNat + 8 * slots.length = top) (hroom : lower.base + 8 * slots.length ≤ top)
    (htop : top ≤ lower.base + lower.bytes.size)
    (hread : ∀ j, j < slots.length → readMem σ.mem (top - 8 * (j + 1)) 8 = some (leBytes (slots.getD j 0) 8)) :
    md_NS pre lower.base lower.bytes.size top (fun j => lower.bytes.getD j 0) σ slots := by
  refine ⟨⟨lower, hm, rfl, rfl, ?_, fun _ _ _ => rfl⟩, hpre, hroom, htop, hsp, hbd⟩
  intro j hj k hk
  have hr := hread j hj
  rw [hm, lc_read_lower pre lower _ 8 hpre (by omega) (by omega) (by omega)] at hr
  generalize slots.getD j 0 = v at hr ⊢
  have hr' := Option.some.inj hr
  have := congrArg (fun l => l.getD k 0) hr'
  simp only [List.getD_eq_getElem?_getD, List.getElem?_map, List.getElem?_range hk, Option.map_some, Option.getD_some] at this
  rw [List.getD_eq_getElem?_getD, ← this]
  congr 1
  omega

-- forty bytes against five slots ---------------------------------------------------------------------------------------

theorem lc_range40 {α : Type} (g : Nat → α) :
    (List.range 40).map g = (List.range 8).map g ++ (List.range 8).map (fun i => g (8 + i)) ++
      (List.range 8).map (fun i => g (16 + i)) ++ (List.range 8).map (fun i => g (24 + i)) ++
      (List.range 8).map (fun i => g (32 + i)) := by
  simp [List.range, List.range.loop]

theorem lc_read_lower8 (pre : List Region) (lower : Region) (a d : Nat)
    (hpre : ∀ r ∈ pre, ∀ a w, lower.base ≤ a → a + w ≤ lower.base + lower.bytes.size → 0 < w → r.contains a w = false)
    (h1 : lower.base ≤ a) (h2 : a + d + 8 ≤ lower.base + lower.bytes.size) :
    readMem (pre ++ [lower]) (a + d) 8 =
      some ((List.range 8).map (fun i => (fun k => lower.bytes.getD (a - lower.base + k) 0) (d + i))) := by
  rw [lc_read_lower pre lower (a + d) 8 hpre (by omega) (by omega) (by omega)]
  congr 1
  apply List.map_congr_left
  intro i _
  show lower.bytes.getD (a + d - lower.base + i) 0 = lower.bytes.getD (a - lower.base + (d + i)) 0
  congr 1
  omega

/-- five consecutive slots read as forty bytes -/
theorem lc_read40_of_8 (pre : List Region) (lower : Region) (a : Nat) (l1 l2 l3 l4 l5 : List (BitVec 8))
    (hpre : ∀ r ∈ pre, ∀ a w, lower.base ≤ a → a + w ≤ lower.base + lower.bytes.size → 0 < w → r.contains a w = false)
    (h1 : lower.base ≤ a) (h2 : a + 40 ≤ lower.base + lower.bytes.size)
    (r1 : readMem (pre ++ [lower]) a 8 = some l1) (r2 : readMem (pre ++ [lower]) (a + 8) 8 = some l2)
    (r3 : readMem (pre ++ [lower]) (a + 16) 8 = some l3) (r4 : readMem (pre ++ [lower]) (a + 24) 8 = some l4)
    (r5 : readMem (pre ++ [lower]) (a + 32) 8 = some l5) :
    readMem (pre ++ [lower]) a 40 = some (l1 ++ l2 ++ l3 ++ l4 ++ l5) := by
  have r1' : readMem (pre ++ [lower]) (a + 0) 8 = some l1 := r1
  rw [lc_read_lower8 pre lower a _ hpre h1 (by omega)] at r1' r2 r3 r4 r5
  rw [lc_read_lower pre lower a 40 hpre h1 h2 (by omega), lc_range40]
  simp only [Option.some.injEq] at r1' r2 r3 r4 r5
  rw [← r1', ← r2, ← r3, ← r4, ← r5]
  simp

/-- forty bytes read as five consecutive slots -/
theorem lc_read8_of_40 (pre : List Region) (lower : Region) (a : Nat) (l1 l2 l3 l4 l5 : List (BitVec 8))
    (hpre : ∀ r ∈ pre, ∀ a w, lower.base ≤ a → a + w ≤ lower.base + lower.bytes.size → 0 < w → r.contains a w = false)
    (h1 : lower.base ≤ a) (h2 : a + 40 ≤ lower.base + lower.bytes.size)
    (n1 : l1.length = 8) (n2 : l2.length = 8) (n3 : l3.length = 8) (n4 : l4.length = 8)
    (h : readMem (pre ++ [lower]) a 40 = some (l1 ++ l2 ++ l3 ++ l4 ++ l5)) :
    readMem (pre ++ [lower]) a 8 = some l1 ∧ readMem (pre ++ [lower]) (a + 8) 8 = some l2 ∧
    readMem (pre ++ [lower]) (a + 16) 8 = some l3 ∧ readMem (pre ++ [lower]) (a + 24) 8 = some l4 ∧
    readMem (pre ++ [lower]) (a + 32) 8 = some l5 := by
  rw [lc_read_lower pre lower a 40 hpre h1 h2 (by omega), lc_range40] at h
  simp only [Option.some.injEq] at h
  have e1 := List.append_inj h (by simp [n1, n2, n3, n4])
  have e2 := List.append_inj e1.1 (by simp [n1, n2, n3])
  have e3 := List.append_inj e2.1 (by simp [n1, n2])
  have e4 := List.append_inj e3.1 (by simp [n1])
  have r1' : readMem (pre ++ [lower]) (a + 0) 8 = some l1 := by
    rw [lc_read_lower8 pre lower a _ hpre h1 (by omega)]
    simp only [Nat.zero_add]
    rw [e4.1]
  refine ⟨r1', ?_, ?_, ?_, ?_⟩
  · rw [lc_read_lower8 pre lower a _ hpre h1 (by omega), e4.2]
  · rw [lc_read_lower8 pre lower a _ hpre h1 (by omega), e3.2]
  · rw [lc_read_lower8 pre lower a _ hpre h1 (by omega), e2.2]
  · rw [lc_read_lower8 pre lower a _ hpre h1 (by omega), e1.2]

end Rbpf.JitSim
