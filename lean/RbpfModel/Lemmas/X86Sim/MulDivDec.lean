/-
  x86-64 simulation, class `mulDivOpcodes`, part 2: two facts about the decoder that the fixed-distance `jne` of the
  register-division arm needs: `jmp rel32` is 5 bytes long, `xor r32 d, d` is 2 bytes (d < 8) or 3 bytes (REX prefix).
-/
import RbpfModel.Lemmas.X86Sim.Base
namespace Rbpf.JitSim
open Rbpf.X86

theorem md_ite_some {α : Type} {c : Prop} [Decidable c] {X Y : Option α} {r : α} (h : (if c then X else Y) = some r) :
    (c ∧ X = some r) ∨ (¬ c ∧ Y = some r) := by
  by_cases hc : c
  · rw [if_pos hc] at h; exact Or.inl ⟨hc, h⟩
  · rw [if_neg hc] at h; exact Or.inr ⟨hc, h⟩

set_option hygiene false in
macro "md_kill" : tactic =>
  `(tactic| first | (focus (exfalso; first | (simp at h1; done) | ((repeat' (split at h1 <;> try (simp at h1; done))); done))) | rotate_left)

set_option hygiene false in
macro "md_next" : tactic =>
  `(tactic| (replace h := md_ite_some h; rcases h with ⟨hc, h1⟩ | ⟨_, h⟩; md_kill))

set_option hygiene false in
/-- case analysis of `decodeOp … = some (x, n)` (hypothesis `h`) along the decoder's decision chain; branches whose
    result cannot be `x` are closed, the others are left with the branch's equation as `h1` -/
macro "md_chain" : tactic =>
  `(tactic| (
    unfold decodeOp at h
    rcases bs with _ | ⟨opb, rest⟩
    · simp at h
    dsimp only at h
    md_next; md_next; md_next; md_next; md_next; md_next; md_next; md_next
    rcases rest with _ | ⟨modrm, rest2⟩
    · simp at h
    dsimp only at h
    md_next; md_next; md_next; md_next; md_next; md_next; md_next; md_next; md_next
    (have h1 := h; clear h; md_kill)))

theorem md_decodeOp_aluRR (p : Pfx) (n0 : Nat) (bs : List Nat) (w : Bool) (op : AluOp) (s d n : Nat)
    (h : decodeOp p n0 bs = some (.aluRR w op s d, n)) :
    n = n0 + 2 ∧ p.lock = false ∧ p.o16 = false ∧ p.x = false ∧ p.rex ≠ some 0 ∧ w = p.w ∧
      ∃ reg rm, reg < 8 ∧ rm < 8 ∧ s = p.r + reg ∧ d = p.b + rm := by
  md_chain
  have hx : ¬ p.x = true := by assumption
  have hr : ¬(p.rex = some 0 ∧ opb ≠ 136) := by assumption
  have h88 : ¬ opb = 136 := by assumption
  cases ha : aluOfOpcode opb with
  | none => rw [ha] at h1; simp at h1
  | some a =>
    rw [ha] at h1
    dsimp only at h1
    rcases md_ite_some h1 with ⟨_, h2⟩ | ⟨_, h2⟩
    · rcases md_ite_some h2 with ⟨hp, h3⟩ | ⟨_, h3⟩
      · simp only [Option.some.injEq, Prod.mk.injEq, Instr.aluRR.injEq] at h3
        obtain ⟨⟨hw, _, hs, hd⟩, hn⟩ := h3
        simp only [Bool.and_eq_true, Bool.not_eq_true'] at hp
        refine ⟨hn.symm, hp.1, hp.2, by simpa using hx, fun h0 => hr ⟨h0, h88⟩, hw.symm, _, _, ?_, ?_, hs.symm, hd.symm⟩
        · have := @Nat.and_le_right (modrm >>> 3) 7; omega
        · have := @Nat.and_le_right modrm 7; omega
      · simp at h3
    · exfalso
      repeat' (split at h2 <;> try (simp at h2; done))

theorem md_decodeOp_jmp (p : Pfx) (n0 : Nat) (bs : List Nat) (rel : BitVec 32) (n : Nat)
    (h : decodeOp p n0 bs = some (.jmp rel, n)) : n = n0 + 5 ∧ p.lock = false ∧ p.o16 = false ∧ p.rex = none := by
  md_chain
  rcases rest with _ | ⟨a0, _ | ⟨a1, _ | ⟨a2, _ | ⟨a3, tl⟩⟩⟩⟩ <;> try (simp at h1; done)
  dsimp only at h1
  rcases md_ite_some h1 with ⟨hp, h3⟩ | ⟨_, h3⟩
  · simp only [Option.some.injEq, Prod.mk.injEq] at h3
    simp only [Bool.and_eq_true, Bool.not_eq_true', Option.isNone_iff_eq_none] at hp
    exact ⟨h3.2.symm, hp.1.1, hp.1.2, hp.2⟩
  · simp at h3

theorem md_decode_inv (bs : List Nat) (x : Instr) (n : Nat) (h : decode bs = some (x, n)) :
    ∃ p n0 bs', decodeOp p n0 bs' = some (x, n) ∧
      (p.lock = false → p.o16 = false → (p.rex = none ∧ n0 = 0) ∨ (∃ b, p.rex = some (b &&& 15) ∧ n0 = 1)) := by
  unfold decode at h
  split at h
  next lock bs1 n1 hlock =>
  split at h
  next o16 bs2 n2 ho16 =>
  have h1 : lock = false → n1 = 0 := by
    intro hl
    split at hlock <;> simp_all
  have h2 : lock = false → o16 = false → n2 = 0 := by
    intro hl ho
    have := h1 hl
    split at ho16 <;> simp_all
  split at h
  · next b t =>
    split at h
    · exact ⟨_, _, _, h, fun hl ho => Or.inr ⟨b, rfl, by have := h2 hl ho; omega⟩⟩
    · exact ⟨_, _, _, h, fun hl ho => Or.inl ⟨rfl, h2 hl ho⟩⟩
  · simp at h

theorem md_rex_cases : ∀ r, r < 16 → r &&& 2 = 0 → r &&& 8 = 0 → r ≠ 0 →
    ((if r &&& 4 ≠ 0 then 8 else 0) = 8 ∧ (if r &&& 1 ≠ 0 then 8 else 0) = 8) ∨
    ((if r &&& 4 ≠ 0 then 8 else 0) = 8 ∧ (if r &&& 1 ≠ 0 then 8 else 0) = 0) ∨
    ((if r &&& 4 ≠ 0 then 8 else 0) = 0 ∧ (if r &&& 1 ≠ 0 then 8 else 0) = 8) := by
  intro r hr
  have : r = 0 ∨ r = 1 ∨ r = 2 ∨ r = 3 ∨ r = 4 ∨ r = 5 ∨ r = 6 ∨ r = 7 ∨ r = 8 ∨ r = 9 ∨ r = 10 ∨ r = 11 ∨ r = 12 ∨
      r = 13 ∨ r = 14 ∨ r = 15 := by omega
  rcases this with h | h | h | h | h | h | h | h | h | h | h | h | h | h | h | h <;> subst h <;> decide

theorem md_decode_jmp_len (bs : List Nat) (rel : BitVec 32) (n : Nat) (h : decode bs = some (.jmp rel, n)) : n = 5 := by
  obtain ⟨p, n0, bs', h1, h2⟩ := md_decode_inv bs _ n h
  obtain ⟨hn, hl, ho, hr⟩ := md_decodeOp_jmp p n0 bs' rel n h1
  rcases h2 hl ho with ⟨_, h0⟩ | ⟨b, hb, _⟩
  · omega
  · rw [hr] at hb; simp at hb

theorem md_decode_xor_len (bs : List Nat) (d n : Nat) (h : decode bs = some (.aluRR false .xor d d, n)) :
    n = if d < 8 then 2 else 3 := by
  obtain ⟨p, n0, bs', h1, h2⟩ := md_decode_inv bs _ n h
  obtain ⟨hn, hl, ho, hx, hr0, hw, reg, rm, hreg, hrm, hs, hd⟩ := md_decodeOp_aluRR p n0 bs' _ _ _ _ n h1
  rcases h2 hl ho with ⟨hr, h0⟩ | ⟨b, hb, h0⟩
  · have : p.r = 0 := by simp [Pfx.r, hr]
    rw [this] at hs
    have : d < 8 := by omega
    rw [if_pos this]; omega
  · have hlt : b &&& 15 < 16 := by have := @Nat.and_le_right b 15; omega
    have hx' : (b &&& 15) &&& 2 = 0 := by simpa [Pfx.x, hb] using hx
    have hw' : (b &&& 15) &&& 8 = 0 := by simpa [Pfx.w, hb] using hw.symm
    have hne : b &&& 15 ≠ 0 := by intro h0; exact hr0 (by rw [hb, h0])
    have hpr : p.r = if (b &&& 15) &&& 4 ≠ 0 then 8 else 0 := by simp [Pfx.r, hb]
    have hpb : p.b = if (b &&& 15) &&& 1 ≠ 0 then 8 else 0 := by simp [Pfx.b, hb]
    rw [hpr] at hs; rw [hpb] at hd
    rcases md_rex_cases _ hlt hx' hw' hne with ⟨e1, e2⟩ | ⟨e1, e2⟩ | ⟨e1, e2⟩ <;> rw [e1] at hs <;> rw [e2] at hd
    · have : ¬ d < 8 := by omega
      rw [if_neg this]; omega
    · omega
    · omega
end Rbpf.JitSim
