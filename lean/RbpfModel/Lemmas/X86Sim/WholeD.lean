/-
  Whole programs with helper calls AND eBPF-to-eBPF calls: the run-level simulation at any call depth.  The machine
  has no depth limit of its own, only a native stack: the theorem is stated for runs whose call depth stays within `D`
  and a native stack with room for `D` frames below the eBPF stack.
-/
import RbpfModel.Lemmas.X86Sim.WholeC
import RbpfModel.Lemmas.X86Sim.LocalCall
import RbpfModel.Lemmas.X86Sim.WholeDAux
namespace Rbpf.JitSim
open Rbpf.X86 (Cfg St Out Instr step exec decode fetch readMem writeMem)
open Rbpf.JitAst (AI Tgt checkSeq window)

/-- every instruction is in a covered class, is `exit`, a helper call, or an eBPF-to-eBPF call -/
def CoveredD (p : Bytes) : Prop :=
  ∀ x ∈ starts p, x.2.opc.toNat ∈ coveredOpcodes ∨ x.2.opc.toNat = 0x95 ∨ (x.2.opc = 0x85 ∧ (x.2.src = 0 ∨ x.2.src = 1))

/-- the call depth of the run stays within `D` for `fuel` steps -/
def depthOk (clob : Nat → Nat → BitVec 64) (env : Env) (D : Nat) : State → Nat → Prop
  | _, 0 => True
  | s, fuel + 1 =>
    s.frames.length ≤ D ∧
    match jitStepC clob env s with
    | .next s' => depthOk clob env D s' fuel
    | _ => True

/-- between two arms at any depth: some current return address `cur` with `Rel0`, the frames of the callers as
    `FramesOk` says (down to the landing pad), the saved bytes above the eBPF stack, the position in the code, the helper
    logs, alignment, and native stack left for the remaining `D - depth` calls -/
def RelD (c : Cfg) (p : Bytes) (L : JitAst.Layout) (landing : Nat) (top : List (BitVec 8)) (D : Nat) (σ : St) (s : State) : Prop :=
  ∃ cur, Rel0 cur σ s ∧ topBytes σ s = some top ∧ (∃ i, (s.pc, i) ∈ starts p) ∧
    (∃ l, L.pcLocs[s.pc]? = some l ∧ σ.rip = c.codeBase + l) ∧
    FramesOk c p L landing (σ.get 10) σ.mem (σ.get X86.RSP).toNat s.frames cur ∧
    LogRel σ s ∧ s.mem.stack.base % 16 = 0 ∧ s.frames.length ≤ D ∧
    (∃ lower, σ.mem.getLast? = some lower ∧ lower.base + 64 + 48 * (D - s.frames.length) ≤ (σ.get X86.RSP).toNat)

/-- runs at any depth: if the register-transfer semantics (helper calls clobbering r1 … r5, local calls as the JIT
    performs them) return `r0` and the depth stays within `D`, the machine reaches the landing pad with rax = r0, the
    eBPF-visible memory as the semantics left it, rsp at the bottom of the eBPF stack, the saved bytes intact, the same
    helper calls made, none misaligned -/
theorem jit_run_simD (env : Env) (haddr : Nat → Option Nat) (um ud : Bool) (c : Cfg) (L : JitAst.Layout) (landing : Nat)
    (top : List (BitVec 8)) (D fuel : Nat) (σ : St) (s s' : State) (r0 : BitVec 64)
    (hv : JitAst.validate env.prog haddr um ud c.code L = true) (hcov : CoveredD env.prog) (hext : ExtOk c env haddr)
    (hsize : c.codeBase + c.code.size < 2 ^ 63)
    (hsent : c.retSentinel.toNat < c.codeBase ∨ c.codeBase + c.code.size ≤ c.retSentinel.toNat)
    (hland : c.codeBase ≤ landing ∧ landing < c.codeBase + c.code.size)
    (hrel : RelD c env.prog L landing top D σ s)
    (hdepth : depthOk c.clobber env D s fuel)
    (hrun : jitRunC c.clobber env s fuel = .done r0 s') :
    ∃ k σ', stepsN c k σ = some σ' ∧ σ'.rip = landing ∧ σ'.get 0 = r0 ∧ MemRel σ'.mem s'.mem ∧
      (σ'.get X86.RSP).toNat = s'.mem.stack.base ∧ topBytes σ' s' = some top ∧
      LogRel σ' s' ∧ σ'.misaligned = σ.misaligned := by
  -- `RelD` is `wholed_Rel`, `CoveredD` is `wholed_Covered` (`WholeDAux.lean`, where the proofs are)
  have hrel' : wholed_Rel c env.prog L landing top D σ s := hrel
  have hcov' : wholed_Covered env.prog := hcov
  refine wholed_run_sim armSimC_covered (depthOk c.clobber env D) env haddr um ud c L landing top D fuel σ s s' r0 ?_
    hv hcov' hext hsize hsent hland hrel' hdepth hrun
  intro s fuel h
  simp only [depthOk] at h
  refine ⟨h.1, fun s1 h1 => ?_⟩
  have h2 := h.2
  rw [h1] at h2
  exact h2

end Rbpf.JitSim
