/-
  x86-64 simulation, opcode class `mulDivOpcodes`: the instruction sequence the JIT emits for each of these eBPF
  instructions, run by the x86-64 machine model, computes what `EngineSem.jitExec` says (statement: `JitSim.ArmSim`).

  Parts: `MulDivMem` (native stack: push/pop over `MemRel`), `MulDivDec` (decoder lengths of `jmp` and `xor r32`),
  `MulDivExec` (straight-line runs, one lemma per instruction form), `MulDivBlock` (save/compute/restore),
  `MulDivPaths` (opcode table, shapes of the arm and of `jitExec`, zero-divisor prefixes); here: assembly.
-/
import RbpfModel.Lemmas.X86Sim.MulDivPaths
namespace Rbpf.JitSim
open Rbpf.X86 (Cfg St Out Instr step exec decode fetch readMem writeMem)
open Rbpf.JitAst (AI Tgt checkSeq window movRR)
open Rbpf.Interp (lo32 zx32 sx32)

/-- a machine state differing from one representing `s` by a write to the register of `dst` represents `s` with
    `dst` written -/
theorem md_fin_wr (retAddr : Nat) (σ0 σ' : St) (s : State) (dst : Nat) (x : BitVec 64) (hdst : dst < 11)
    (hrel : Rel0 retAddr σ0 s) (hmem : σ'.mem = σ0.mem) (hreg : σ'.reg = (σ0.set (regOf dst) x).reg) :
    Rel0 retAddr σ' { s with reg := s.reg.setIfInBounds dst x } ∧
      topBytes σ' { s with reg := s.reg.setIfInBounds dst x } = topBytes σ0 s := by
  refine ⟨rel0_congr retAddr _ σ' _ (rel0_wr retAddr σ0 s dst x hdst hrel) hreg hmem, ?_⟩
  unfold topBytes
  rw [hmem]

theorem md_fin_scratch (retAddr : Nat) (σ σ' : St) (s : State) (v : BitVec 64)
    (hrel : Rel0 retAddr σ s) (hmem : σ'.mem = σ.mem) (hreg : σ'.reg = (σ.set 1 v).reg) :
    Rel0 retAddr σ' s ∧ topBytes σ' s = topBytes σ s := by
  refine ⟨rel0_congr retAddr _ σ' _ (rel0_scratch retAddr σ s 1 v (Or.inl rfl) hrel) hreg hmem, ?_⟩
  unfold topBytes
  rw [hmem]

theorem md_mulLo_zero (w : Bool) (d : BitVec 64) : md_mulLo w d (sx32 0#32) = 0#64 := by
  cases w <;> simp [md_mulLo, sx32, lo32, zx32]

theorem md_nz_sx32 (w : Bool) (imm : BitVec 32) : md_nz w (sx32 imm) ↔ ¬ imm = 0#32 := by
  cases w
  · simp [md_nz, md_lo32_sx32]
  · simp [md_nz, md_sx32_eq_zero]

/-- immediate forms -/
theorem md_core_imm (k : md_Kind) (w : Bool) (i : Insn) (hopc : i.opc.toNat = md_code k w false) : ArmSim i := by
  intro c tgt haddr pc n a b retAddr ais σ env s s' harm hcs hb hrip hrel hpc hexec
  obtain ⟨hd, hs, hn, hais⟩ := md_arm_eq k w false i hopc haddr pc _ ais n harm
  subst hn hais
  rw [md_exec_eq k w false i hopc hd hs] at hexec
  have hx : md_x false s i = sx32 i.imm := by simp [md_x]
  rw [hx] at hexec
  by_cases himm : i.imm = 0#32
  · have hnz : ¬ md_nz w (sx32 i.imm) := by rw [md_nz_sx32]; exact fun h => h himm
    rw [himm] at hcs
    by_cases hk : k = .mod
    · subst hk
      rw [md_shape_imm0_mod] at hcs
      rw [if_pos ⟨by simp, hnz⟩, if_pos rfl] at hexec
      have hs' : s' = s := (Outcome.next.inj hexec).symm
      subst hs'
      have hab : a = b := by simpa using hcs
      subst hab
      exact ⟨0, σ, rfl, hrel, rfl, rfl, rfl, rfl, rfl, callersKept_refl _ _, Or.inl ⟨hpc, hrip⟩⟩
    · rw [md_shape_imm0 k w _ _ _ hk] at hcs
      have hs' : s' = { s with reg := s.reg.setIfInBounds i.dst.toNat 0#64 } := by
        by_cases hm : k = .mul
        · subst hm
          rw [if_neg (by simp)] at hexec
          rw [← Outcome.next.inj hexec, himm]
          simp [md_res, md_mulLo_zero]
        · rw [if_pos ⟨hm, hnz⟩, if_neg hk] at hexec
          exact (Outcome.next.inj hexec).symm
      subst hs'
      obtain ⟨fl, hxor⟩ := md_step_xor32 c σ (regOf i.dst.toNat)
      obtain ⟨m, hm, hrun⟩ := md_run c tgt [.aluRR false .xor (regOf i.dst.toNat) (regOf i.dst.toNat)] [] a b σ _
        (by simpa using hcs) hrip (md_steps_one hxor)
      have hmb : m = b := by simpa using hm
      subst hmb
      obtain ⟨h1, h2⟩ := md_fin_wr retAddr σ
        { ({ σ with flags := fl }.set (regOf i.dst.toNat) 0) with rip := c.codeBase + m } s i.dst.toNat 0#64 hd hrel rfl rfl
      exact ⟨1, _, hrun, h1, h2, rfl, rfl, rfl, rfl, callersKept_of_mem _ _ _ rfl, Or.inl ⟨hpc, rfl⟩⟩
  · have hnz : md_nz w (sx32 i.imm) := by rw [md_nz_sx32]; exact himm
    rw [md_shape_imm k w _ _ _ _ himm] at hcs
    rw [if_neg (fun h => h.2 hnz)] at hexec
    have hs' := (Outcome.next.inj hexec).symm
    subst hs'
    obtain ⟨n1, σ', hst, h1, h2, hl, hm, hck, h3⟩ := md_normal c tgt a b retAddr σ s i.dst.toNat hd k w _ (sx32 i.imm) hcs hrip hrel
      (fun σ1 _ => md_step_loadImm32 c σ1 1 i.imm) (fun _ => hnz)
    exact ⟨n1, σ', hst, h1, h2, hl, hm, rfl, rfl, hck, Or.inl ⟨hpc, h3⟩⟩

theorem md_cast_pc (pc : Nat) (spc : Nat) (h : spc = pc + 1) : ((spc : Nat) : Int) = (pc : Int) + 1 := by
  subst h; simp

/-- the block after a zero-divisor test that fell through: the machine is in `σ0`, which differs from `σ` in rcx only -/
theorem md_after_prefix (c : Cfg) (tgt : Tgt → Option Nat) (m b retAddr : Nat) (σ σ0 : St) (s : State) (dst src : Nat)
    (hd : dst < 11) (hs : src < 11) (k : md_Kind) (w : Bool)
    (hcs : checkSeq c.code tgt m ((md_block (regOf dst) k w (movRR (regOf src) 1)).map AI.i) = some b)
    (hrip : σ0.rip = c.codeBase + m) (hrel0 : Rel0 retAddr σ0 s) (htop0 : topBytes σ0 s = topBytes σ s)
    (hck0 : CallersKept σ σ0 s) (hrsp0 : σ0.get 4 = σ.get 4)
    (hnz : k ≠ .mul → md_nz w (s.reg.getD src 0)) :
    ∃ n σ', stepsN c n σ0 = some σ' ∧
      Rel0 retAddr σ' { s with reg := s.reg.setIfInBounds dst (md_res k w (s.reg.getD dst 0) (s.reg.getD src 0)) } ∧
      topBytes σ' { s with reg := s.reg.setIfInBounds dst (md_res k w (s.reg.getD dst 0) (s.reg.getD src 0)) } = topBytes σ s ∧
      σ'.log = σ0.log ∧ σ'.misaligned = σ0.misaligned ∧ CallersKept σ σ' s ∧ σ'.rip = c.codeBase + b := by
  obtain ⟨hS4, _, _, hS1⟩ := regOf_ne_special src hs
  have hX : ∀ σ1, (∀ r, r ≠ 4 → σ1.get r = σ0.get r) →
      md_Step c (movRR (regOf src) 1) σ1 (σ1.set 1 (s.reg.getD src 0)) := by
    intro σ1 hg
    have := md_step_movRR c σ1 (regOf src) 1
    rwa [hg _ hS4, hrel0.regs src hs] at this
  obtain ⟨n1, σ', hst, h1, h2, hl, hm, hck, h3⟩ := md_normal c tgt m b retAddr σ0 s dst hd k w _ (s.reg.getD src 0) hcs hrip hrel0 hX hnz
  exact ⟨n1, σ', hst, h1, h2.trans htop0, hl, hm, callersKept_trans σ σ0 σ' s hck0 hrsp0 hck, h3⟩

/-- register forms -/
theorem md_core_reg (k : md_Kind) (w : Bool) (i : Insn) (hopc : i.opc.toNat = md_code k w true) : ArmSim i := by
  intro c tgt haddr pc n a b retAddr ais σ env s s' harm hcs hb hrip hrel hpc hexec
  obtain ⟨hd, hs, hn, hais⟩ := md_arm_eq k w true i hopc haddr pc _ ais n harm
  subst hn hais
  rw [md_exec_eq k w true i hopc hd hs] at hexec
  have hx : md_x true s i = s.reg.getD i.src.toNat 0 := by simp [md_x]
  rw [hx] at hexec
  obtain ⟨hS4, _, _, hS1⟩ := regOf_ne_special i.src.toNat hs
  have hgS : σ.get (regOf i.src.toNat) = s.reg.getD i.src.toNat 0 := hrel.regs _ hs
  cases k with
  | mul =>
    rw [md_shape_reg_mul] at hcs
    rw [if_neg (by simp)] at hexec
    have hs' := (Outcome.next.inj hexec).symm
    subst hs'
    obtain ⟨n1, σ', hst, h1, h2, hl, hm, hck, h3⟩ := md_after_prefix c tgt a b retAddr σ σ s i.dst.toNat i.src.toNat hd hs .mul w
      hcs hrip hrel rfl (callersKept_refl σ s) rfl (by simp)
    exact ⟨n1, σ', hst, h1, h2, hl, hm, rfl, rfl, hck, Or.inl ⟨hpc, h3⟩⟩
  | div =>
    rw [md_shape_reg_div] at hcs
    obtain ⟨σ0, v, n0, hst0, hmem0, hlog0, hmis0, hcase⟩ := md_prefix_div c tgt a b σ pc (.pc ((pc : Int) + 1)) w _ _ _ hS1
      (regOf_lt _ hd) hcs hrip hb
    rw [hgS] at hcase
    rcases hcase with ⟨hz, hreg0, l, htl, hrip0⟩ | ⟨hz, hreg0, m, hcm, hrip0⟩
    · rw [if_pos ⟨by simp, hz⟩, if_neg (by simp)] at hexec
      have hs' := (Outcome.next.inj hexec).symm
      subst hs'
      obtain ⟨h1, h2⟩ := md_fin_wr retAddr (σ.set 1 v) σ0 s i.dst.toNat 0#64 hd
        (rel0_scratch retAddr σ s 1 v (Or.inl rfl) hrel) hmem0 hreg0
      exact ⟨n0, σ0, hst0, h1, h2, hlog0, hmis0, rfl, rfl, callersKept_of_mem _ _ _ hmem0, Or.inr ⟨l, by rw [md_cast_pc pc _ hpc]; exact htl, hrip0⟩⟩
    · rw [if_neg (fun h => h.2 hz)] at hexec
      have hs' := (Outcome.next.inj hexec).symm
      subst hs'
      obtain ⟨hrel0, htop0⟩ := md_fin_scratch retAddr σ σ0 s v hrel hmem0 hreg0
      have hrsp0 : σ0.get 4 = σ.get 4 := (get_congr _ _ 4 hreg0).trans (get_set_ne _ _ _ _ (by omega))
      obtain ⟨n1, σ', hst, h1, h2, hl, hm, hck, h3⟩ := md_after_prefix c tgt m b retAddr σ σ0 s i.dst.toNat i.src.toNat hd hs .div w
        hcm hrip0 hrel0 htop0 (callersKept_of_mem _ _ _ hmem0) hrsp0 (fun _ => hz)
      exact ⟨n0 + n1, σ', stepsN_add c n0 n1 _ _ _ hst0 hst, h1, h2, hl.trans hlog0, hm.trans hmis0, rfl, rfl, hck, Or.inl ⟨hpc, h3⟩⟩
  | mod =>
    rw [md_shape_reg_mod] at hcs
    obtain ⟨σ0, v, hst0, hmem0, hreg0, hlog0, hmis0, hcase⟩ := md_prefix_mod c tgt a b σ pc (.pc ((pc : Int) + 1)) w _ _ hS1 hcs hrip hb
    rw [hgS] at hcase
    rcases hcase with ⟨hz, l, htl, hrip0⟩ | ⟨hz, m, hcm, hrip0⟩
    · rw [if_pos ⟨by simp, hz⟩, if_pos rfl] at hexec
      have hs' := Outcome.next.inj hexec
      subst hs'
      obtain ⟨h1, h2⟩ := md_fin_scratch retAddr σ σ0 s v hrel hmem0 hreg0
      exact ⟨3, σ0, hst0, h1, h2, hlog0, hmis0, rfl, rfl, callersKept_of_mem _ _ _ hmem0, Or.inr ⟨l, by rw [md_cast_pc pc _ hpc]; exact htl, hrip0⟩⟩
    · rw [if_neg (fun h => h.2 hz)] at hexec
      have hs' := (Outcome.next.inj hexec).symm
      subst hs'
      obtain ⟨hrel0, htop0⟩ := md_fin_scratch retAddr σ σ0 s v hrel hmem0 hreg0
      have hrsp0 : σ0.get 4 = σ.get 4 := (get_congr _ _ 4 hreg0).trans (get_set_ne _ _ _ _ (by omega))
      obtain ⟨n1, σ', hst, h1, h2, hl, hm, hck, h3⟩ := md_after_prefix c tgt m b retAddr σ σ0 s i.dst.toNat i.src.toNat hd hs .mod w
        hcm hrip0 hrel0 htop0 (callersKept_of_mem _ _ _ hmem0) hrsp0 (fun _ => hz)
      exact ⟨3 + n1, σ', stepsN_add c 3 n1 _ _ _ hst0 hst, h1, h2, hl.trans hlog0, hm.trans hmis0, rfl, rfl, hck, Or.inl ⟨hpc, h3⟩⟩

theorem armSim_muldiv (i : Insn) (h : i.opc.toNat ∈ mulDivOpcodes) : ArmSim i := by
  simp only [mulDivOpcodes, List.mem_cons, List.not_mem_nil, or_false] at h
  rcases h with h | h | h | h | h | h | h | h | h | h | h | h
  · exact md_core_imm .mul false i h
  · exact md_core_reg .mul false i h
  · exact md_core_imm .div false i h
  · exact md_core_reg .div false i h
  · exact md_core_imm .mod false i h
  · exact md_core_reg .mod false i h
  · exact md_core_imm .mul true i h
  · exact md_core_reg .mul true i h
  · exact md_core_imm .div true i h
  · exact md_core_reg .div true i h
  · exact md_core_imm .mod true i h
  · exact md_core_reg .mod true i h

end Rbpf.JitSim
