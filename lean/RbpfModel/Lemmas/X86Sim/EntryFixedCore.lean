/-
  The prologue of the fixed-metadata VM kind (`use_mbuff` and `update_data_ptr`): the definitions of the statements in
  `EntryFixed.lean` and the prologue itself, stated with `Rel0`/`topBytes` (no `Rel`).  Independent of the per-class lemmas.
-/
import RbpfModel.Lemmas.X86Sim.EntryPro
import RbpfModel.Model.Vm
namespace Rbpf.JitSim
open Rbpf.X86 (Cfg St Out Instr step exec decode fetch readMem writeMem)
open Rbpf.JitAst (AI Tgt checkSeq window)

-- definitions ----------------------------------------------------------------------------------------------------

/-- the machine when the code compiled for `EbpfVmFixedMbuff` is entered: as `Entry` (rdi = the VM's internal buffer,
    rsi its length, rdx the packet), and in addition rcx = packet length, r8 = `data_offset`, r9 = `data_end_offset`,
    both 8-byte slots inside the buffer (`Vm.fixedBufLen`) -/
structure EntryFixed (c : Cfg) (m : Memory) (d e : Nat) (σ : St) : Prop where
  entry : Entry c m σ
  rcx : σ.get 1 = BitVec.ofNat 64 m.mem.bytes.size
  r8 : σ.get 8 = BitVec.ofNat 64 d
  r9 : σ.get 9 = BitVec.ofNat 64 e
  dIn : d + 8 ≤ m.mbuff.bytes.size
  eIn : e + 8 ≤ m.mbuff.bytes.size

/-- the eBPF-visible memory after the prologue's two stores: what `EbpfVmFixedMbuff::execute_program` prepares -/
def preparedMem (m : Memory) (d e : Nat) : Memory :=
  { m with mbuff := ⟨m.mbuff.base, Vm.fixedPrepare m.mbuff.bytes d e m.mem.base m.mem.bytes.size⟩ }

/-- the eBPF state the code compiled for the fixed-metadata kind starts from: the prepared memory, r1 = the buffer
    (rdi, untouched), r10 = top of the stack, and the two registers the prologue uses as scratch — x86 r9 (eBPF r4) left
    holding the address of the end slot, x86 r8 (eBPF r5) the packet end —, every other register whatever the machine
    register it is mapped to holds at entry -/
def entryStateFixed (m : Memory) (σ : St) (d e : Nat) : State :=
  { Interp.init (preparedMem m d e) with
    reg := ((((Vector.ofFn fun (k : Fin 11) => σ.get (regOf k.val)).setIfInBounds 1 (σ.get 7)).setIfInBounds 4
              (BitVec.ofNat 64 m.mbuff.base + BitVec.ofNat 64 e)).setIfInBounds 5
              (BitVec.ofNat 64 m.mem.base + BitVec.ofNat 64 m.mem.bytes.size)).setIfInBounds 10
             (BitVec.ofNat 64 (m.stack.base + 512)) }

theorem entryf_state_mem (m : Memory) (σ : St) (d e : Nat) : (entryStateFixed m σ d e).mem = preparedMem m d e := rfl
theorem entryf_state_pc (m : Memory) (σ : St) (d e : Nat) : (entryStateFixed m σ d e).pc = 0 := rfl
theorem entryf_state_log (m : Memory) (σ : St) (d e : Nat) : (entryStateFixed m σ d e).log = [] := rfl

theorem entryf_state_reg (m : Memory) (σ : St) (d e : Nat) (k : Nat) (hk : k < 11) :
    (entryStateFixed m σ d e).reg.getD k 0 =
      if k = 10 then BitVec.ofNat 64 (m.stack.base + 512)
      else if k = 5 then BitVec.ofNat 64 m.mem.base + BitVec.ofNat 64 m.mem.bytes.size
      else if k = 4 then BitVec.ofNat 64 m.mbuff.base + BitVec.ofNat 64 e
      else σ.get (regOf k) := by
  obtain ⟨-, v1, -⟩ := regOf_vals
  have : k = 0 ∨ k = 1 ∨ k = 2 ∨ k = 3 ∨ k = 4 ∨ k = 5 ∨ k = 6 ∨ k = 7 ∨ k = 8 ∨ k = 9 ∨ k = 10 := by omega
  rcases this with rfl | rfl | rfl | rfl | rfl | rfl | rfl | rfl | rfl | rfl | rfl <;>
    simp [entryStateFixed, Vector.getD, v1]

-- bytes: `leBytes` against `Vm.writeU64` ---------------------------------------------------------------------------

theorem entryf_leBytes_getD (v w k : Nat) (hk : k < w) : (leBytes v w).getD k 0 = BitVec.ofNat 8 (v >>> (8 * k)) := by
  induction w generalizing v k with
  | zero => omega
  | succ w ih =>
    cases k with
    | zero => simp [leBytes]
    | succ k =>
      simp only [leBytes, List.getD_cons_succ]
      rw [ih _ _ (by omega)]
      congr 1
      rw [show 8 * (k + 1) = 8 + 8 * k by omega, Nat.shiftRight_add]
      simp only [Nat.shiftRight_eq_div_pow, Nat.reducePow]

theorem entryf_foldl_congr {α : Type} (l : List Nat) (f g : α → Nat → α) (h : ∀ a k, k ∈ l → f a k = g a k) (init : α) :
    l.foldl f init = l.foldl g init := by
  induction l generalizing init with
  | nil => rfl
  | cons x l ih =>
    simp only [List.foldl_cons]
    rw [h init x List.mem_cons_self]
    exact ih (fun a k hk => h a k (List.mem_cons_of_mem _ hk)) _

/-- an 8-byte store at offset `off` of a region is `write_u64` on its bytes -/
theorem entryf_wr_writeU64 (r : Region) (off v : Nat) :
    Memory.writeRegion r (r.base + off) (leBytes v 8) = ⟨r.base, Vm.writeU64 r.bytes off v⟩ := by
  have h : (List.range (leBytes v 8).length).foldl
      (fun acc k => acc.setIfInBounds (r.base + off - r.base + k) ((leBytes v 8).getD k 0)) r.bytes =
      Vm.writeU64 r.bytes off v := by
    rw [entry_leBytes_length, Nat.add_sub_cancel_left]
    unfold Vm.writeU64
    apply entryf_foldl_congr
    intro a k hk
    rw [entryf_leBytes_getD v 8 k (by simpa using hk)]
  unfold Memory.writeRegion
  rw [h]

-- single instructions ----------------------------------------------------------------------------------------------

theorem entryf_exec_add (c : Cfg) (σ : St) (src dst next : Nat) (hd : dst < 16) :
    ∃ σ', exec c σ (.aluRR true .add src dst) next = .next σ' ∧ σ'.rip = next ∧ σ'.mem = σ.mem ∧
      σ'.get dst = σ.get dst + σ.get src ∧ (∀ q, q ≠ dst → σ'.get q = σ.get q) := by
  refine ⟨_, rfl, ?_, ?_, ?_, ?_⟩
  · simp [X86.writeSized]
  · simp [X86.writeSized]
  · simp only [X86.writeSized, if_true, true_or, X86.trunc]
    rw [get_set_eq _ _ _ hd]
    apply BitVec.eq_of_toNat_eq
    have e2 : ∀ q, St.get { σ with rip := next } q = σ.get q := fun _ => rfl
    simp only [BitVec.toNat_ofNat, BitVec.toNat_add, e2]
    omega
  · intro q hq
    simp only [X86.writeSized, if_true, true_or]
    rw [get_set_ne _ _ _ _ (Ne.symm hq)]
    rfl

theorem entryf_exec_store64 (c : Cfg) (σ : St) (src base next : Nat) (m' : List Region)
    (hw : writeMem σ.mem (σ.get base).toNat (leBytes (σ.get src).toNat 8) = some m') :
    ∃ σ', exec c σ (.store 64 src base 0) next = .next σ' ∧ σ'.rip = next ∧ σ'.mem = m' ∧ (∀ q, σ'.get q = σ.get q) := by
  refine ⟨{ σ with rip := next, mem := m' }, ?_, rfl, rfl, fun _ => rfl⟩
  unfold exec
  have ea : X86.addrOf { σ with rip := next } base 0 = (σ.get base).toNat := by
    unfold X86.addrOf
    have e2 : St.get { σ with rip := next } base = σ.get base := rfl
    have := (σ.get base).isLt
    have h4 : (((σ.get base).toNat : Int)).emod (2 ^ 64) = ((σ.get base).toNat : Int) :=
      Int.emod_eq_of_lt (by omega) (by omega)
    rw [e2, Int.add_zero, h4]
    exact Int.toNat_natCast _
  have e3 : St.get { σ with rip := next } src = σ.get src := rfl
  simp only [ea, e3, show (64 : Nat) / 8 = 8 from rfl]
  have hw' : writeMem (St.mem { σ with rip := next }) (σ.get base).toNat (leBytes (σ.get src).toNat 8) = some m' := hw
  rw [hw']

theorem entryf_write_second (F MB : Region) (rest : List Region) (a : Nat) (bs : List (BitVec 8))
    (hF : F.contains a bs.length = false) (hM : MB.contains a bs.length = true) :
    writeMem (F :: MB :: rest) a bs = some (F :: Memory.writeRegion MB a bs :: rest) := by
  simp only [writeMem, Memory.writeExtra, hF, hM, if_true, Bool.false_eq_true, if_false, Option.map_some]

-- the prologue ------------------------------------------------------------------------------------------------------

/-- the two stores into the metadata buffer:
    `add r8, rdi ; mov [r8], rdx ; mov r8, rdx ; add r8, rcx ; add r9, rdi ; mov [r9], r8` -/
theorem entryf_pro_mid (c : Cfg) (tgt : Tgt → Option Nat) (σ : St) (m1 m2 : Nat) (F MB : Region) (rest : List Region)
    (B d e : Nat)
    (hcs : checkSeq c.code tgt m1 [AI.i (.aluRR true .add JitAst.RDI JitAst.R8), .i (.store 64 JitAst.RDX JitAst.R8 0),
      .i (JitAst.movRR JitAst.RDX JitAst.R8), .i (.aluRR true .add JitAst.RCX JitAst.R8),
      .i (.aluRR true .add JitAst.RDI JitAst.R9), .i (.store 64 JitAst.R8 JitAst.R9 0)] = some m2)
    (hrip : σ.rip = c.codeBase + m1) (hm : σ.mem = F :: MB :: rest)
    (hrdi : (σ.get 7).toNat = B) (hr8 : (σ.get 8).toNat = d) (hr9 : (σ.get 9).toNat = e)
    (hB : MB.base = B) (hbd : B + MB.bytes.size < 2 ^ 64) (hd : d + 8 ≤ MB.bytes.size) (he : e + 8 ≤ MB.bytes.size)
    (hF : ∀ a, B ≤ a → a + 8 ≤ B + MB.bytes.size → F.contains a 8 = false) :
    ∃ σ', stepsN c 6 σ = some σ' ∧ σ'.rip = c.codeBase + m2 ∧
      σ'.mem = F :: Memory.writeRegion (Memory.writeRegion MB (B + d) (leBytes (σ.get 2).toNat 8)) (B + e)
        (leBytes (σ.get 2 + σ.get 1).toNat 8) :: rest ∧
      σ'.get 8 = σ.get 2 + σ.get 1 ∧ σ'.get 9 = σ.get 9 + σ.get 7 ∧ (∀ q, q ≠ 8 → q ≠ 9 → σ'.get q = σ.get q) ∧
      entry_lm σ' = entry_lm σ := by
  obtain ⟨n1, hd1, hcs⟩ := checkSeq_i _ _ _ _ _ _ hcs
  obtain ⟨n2, hd2, hcs⟩ := checkSeq_i _ _ _ _ _ _ hcs
  obtain ⟨n3, hd3, hcs⟩ := checkSeq_i _ _ _ _ _ _ hcs
  obtain ⟨n4, hd4, hcs⟩ := checkSeq_i _ _ _ _ _ _ hcs
  obtain ⟨n5, hd5, hcs⟩ := checkSeq_i _ _ _ _ _ _ hcs
  obtain ⟨n6, hd6, hcs⟩ := checkSeq_i _ _ _ _ _ _ hcs
  simp only [checkSeq_nil, Option.some.injEq] at hcs
  -- add r8, rdi
  obtain ⟨σ1, hx1, hr1, hm1, hg1, hq1⟩ := entryf_exec_add c σ JitAst.RDI JitAst.R8 (c.codeBase + m1 + n1) (by decide)
  have hs1 : step c σ = .next σ1 := by rw [step_at c σ m1 n1 _ hrip hd1]; exact hx1
  have ha1 : (σ1.get 8).toNat = B + d := by
    have hg1' : σ1.get 8 = σ.get 8 + σ.get 7 := hg1
    rw [hg1', BitVec.toNat_add, hrdi, hr8]
    omega
  -- mov [r8], rdx
  have hw1 : writeMem σ1.mem (σ1.get JitAst.R8).toNat (leBytes (σ1.get JitAst.RDX).toNat 8) =
      some (F :: Memory.writeRegion MB (B + d) (leBytes (σ.get 2).toNat 8) :: rest) := by
    have e2 : σ1.get JitAst.RDX = σ.get 2 := hq1 2 (by decide)
    have e8 : (σ1.get JitAst.R8).toNat = B + d := ha1
    rw [hm1, hm, e2, e8]
    exact entryf_write_second _ _ _ _ _ (by rw [entry_leBytes_length]; exact hF _ (by omega) (by omega))
      (by rw [entry_leBytes_length]; exact entry_contains _ _ _ (by omega) (by omega))
  obtain ⟨σ2, hx2, hr2, hm2, hq2⟩ := entryf_exec_store64 c σ1 JitAst.RDX JitAst.R8 (c.codeBase + (m1 + n1) + n2) _ hw1
  have hs2 : step c σ1 = .next σ2 := by rw [step_at c σ1 (m1 + n1) n2 _ (by rw [hr1]; omega) hd2]; exact hx2
  -- mov r8, rdx ; add r8, rcx
  obtain ⟨σ3, hx3, hr3, hm3, hg3, hq3⟩ := entry_exec_mov c σ2 JitAst.RDX JitAst.R8 (c.codeBase + (m1 + n1 + n2) + n3) (by decide)
  have hs3 : step c σ2 = .next σ3 := by rw [step_at c σ2 (m1 + n1 + n2) n3 _ (by rw [hr2]; omega) hd3]; exact hx3
  obtain ⟨σ4, hx4, hr4, hm4, hg4, hq4⟩ := entryf_exec_add c σ3 JitAst.RCX JitAst.R8 (c.codeBase + (m1 + n1 + n2 + n3) + n4) (by decide)
  have hs4 : step c σ3 = .next σ4 := by rw [step_at c σ3 (m1 + n1 + n2 + n3) n4 _ (by rw [hr3]; omega) hd4]; exact hx4
  have hv4 : σ4.get 8 = σ.get 2 + σ.get 1 := by
    have hg4' : σ4.get 8 = σ3.get 8 + σ3.get 1 := hg4
    have hg3' : σ3.get 8 = σ2.get 2 := hg3
    rw [hg4', hg3', hq3 1 (by decide), hq2, hq2, hq1 2 (by decide), hq1 1 (by decide)]
  -- add r9, rdi
  obtain ⟨σ5, hx5, hr5, hm5, hg5, hq5⟩ := entryf_exec_add c σ4 JitAst.RDI JitAst.R9 (c.codeBase + (m1 + n1 + n2 + n3 + n4) + n5) (by decide)
  have hs5 : step c σ4 = .next σ5 := by rw [step_at c σ4 (m1 + n1 + n2 + n3 + n4) n5 _ (by rw [hr4]; omega) hd5]; exact hx5
  have hv5 : σ5.get 9 = σ.get 9 + σ.get 7 := by
    have hg5' : σ5.get 9 = σ4.get 9 + σ4.get 7 := hg5
    rw [hg5', hq4 9 (by decide), hq4 7 (by decide), hq3 9 (by decide), hq3 7 (by decide), hq2, hq2, hq1 9 (by decide),
      hq1 7 (by decide)]
  have ha5 : (σ5.get 9).toNat = B + e := by
    rw [hv5, BitVec.toNat_add, hrdi, hr9]
    omega
  -- mov [r9], r8
  have hmem5 : σ5.mem = F :: Memory.writeRegion MB (B + d) (leBytes (σ.get 2).toNat 8) :: rest := by
    rw [hm5, hm4, hm3, hm2]
  have hw2 : writeMem σ5.mem (σ5.get JitAst.R9).toNat (leBytes (σ5.get JitAst.R8).toNat 8) =
      some (F :: Memory.writeRegion (Memory.writeRegion MB (B + d) (leBytes (σ.get 2).toNat 8)) (B + e)
        (leBytes (σ.get 2 + σ.get 1).toNat 8) :: rest) := by
    have e8 : σ5.get JitAst.R8 = σ.get 2 + σ.get 1 := (hq5 8 (by decide)).trans hv4
    have e9 : (σ5.get JitAst.R9).toNat = B + e := ha5
    have hc2 : (Memory.writeRegion MB (B + d) (leBytes (σ.get 2).toNat 8)).contains (B + e) 8 = true :=
      entry_contains _ _ _ (by rw [entry_wr_base]; omega) (by rw [entry_wr_base, entry_wr_size]; omega)
    rw [hmem5, e8, e9]
    exact entryf_write_second _ _ _ _ _ (by rw [entry_leBytes_length]; exact hF _ (by omega) (by omega))
      (by rw [entry_leBytes_length]; exact hc2)
  obtain ⟨σ6, hx6, hr6, hm6, hq6⟩ := entryf_exec_store64 c σ5 JitAst.R8 JitAst.R9 (c.codeBase + (m1 + n1 + n2 + n3 + n4 + n5) + n6) _ hw2
  have hs6 : step c σ5 = .next σ6 := by
    rw [step_at c σ5 (m1 + n1 + n2 + n3 + n4 + n5) n6 _ (by rw [hr5]; omega) hd6]; exact hx6
  have l1 := entry_exec_lm c σ σ1 _ _ (by simp) (Or.inl hx1)
  have l2 := entry_exec_lm c σ1 σ2 _ _ (by simp) (Or.inl hx2)
  have l3 := entry_exec_lm c σ2 σ3 _ _ (by simp) (Or.inl hx3)
  have l4 := entry_exec_lm c σ3 σ4 _ _ (by simp) (Or.inl hx4)
  have l5 := entry_exec_lm c σ4 σ5 _ _ (by simp) (Or.inl hx5)
  have l6 := entry_exec_lm c σ5 σ6 _ _ (by simp) (Or.inl hx6)
  refine ⟨σ6, ?_, by rw [hr6, ← hcs]; omega, hm6, ?_, ?_, ?_, by rw [l6, l5, l4, l3, l2, l1]⟩
  · exact stepsN_succ c 5 _ _ _ hs1 (stepsN_succ c 4 _ _ _ hs2 (stepsN_succ c 3 _ _ _ hs3 (stepsN_succ c 2 _ _ _ hs4
      (stepsN_two c _ _ _ hs5 hs6))))
  · rw [hq6, hq5 8 (by decide)]; exact hv4
  · rw [hq6]; exact hv5
  · intro q h8 h9
    rw [hq6, hq5 q h9, hq4 q h8, hq3 q h8, hq2, hq1 q h8]

theorem entryf_memrel_extra (m : Memory) (frame lower : Region)
    (h : MemRel (frame :: m.mbuff :: m.mem :: (m.extra ++ [lower])) m) :
    m.mem.base + m.mem.bytes.size < 2 ^ 64 ∧ disjoint frame m.mbuff := by
  obtain ⟨f0, l0, hxm, -, -, -, -, -, -, hpw, hbd⟩ := h
  simp only [List.cons.injEq, true_and, List.append_cancel_left_eq, and_true] at hxm
  obtain ⟨rfl, rfl⟩ := hxm
  exact ⟨hbd m.mem (by simp), (List.pairwise_cons.mp hpw).1 _ (by simp)⟩

/-- `entry_memrel_update` with the metadata buffer replaced by one of the same shape as well -/
theorem entryf_memrel_update (m m' : Memory) (frame lower frame' lower' : Region)
    (h : MemRel (frame :: m.mbuff :: m.mem :: (m.extra ++ [lower])) m)
    (hmb : entry_shape m'.mbuff = entry_shape m.mbuff) (hmem : m'.mem = m.mem) (hex : m'.extra = m.extra)
    (hst : m'.stack = m.stack)
    (hf : entry_shape frame' = entry_shape frame) (hl : entry_shape lower' = entry_shape lower)
    (hk : ∀ k, k < 512 → frame'.bytes[k]? = frame.bytes[k]?) :
    MemRel (frame' :: m'.mbuff :: m'.mem :: (m'.extra ++ [lower'])) m' := by
  obtain ⟨f0, l0, hxm, hfb, hss, hfs, hfk, hlb, hls, hpw, hbd⟩ := h
  simp only [List.cons.injEq, true_and, List.append_cancel_left_eq, and_true] at hxm
  obtain ⟨rfl, rfl⟩ := hxm
  have hmap : (frame' :: m'.mbuff :: m'.mem :: (m'.extra ++ [lower'])).map entry_shape =
      (frame :: m.mbuff :: m.mem :: (m.extra ++ [lower])).map entry_shape := by
    simp only [List.map_cons, List.map_append, List.map_nil, hf, hl, hmb, hmem, hex]
  have hf1 : frame'.base = frame.base := congrArg Prod.fst hf
  have hf2 : frame'.bytes.size = frame.bytes.size := congrArg Prod.snd hf
  have hl1 : lower'.base = lower.base := congrArg Prod.fst hl
  have hl2 : lower'.bytes.size = lower.bytes.size := congrArg Prod.snd hl
  refine ⟨frame', lower', rfl, by rw [hst]; omega, by rw [hst]; exact hss, by omega, ?_, by omega, by omega, ?_, ?_⟩
  · intro k hk'
    rw [hk k hk', hfk k hk', hst]
  · rw [entry_pairwise_shape, hmap, ← entry_pairwise_shape]; exact hpw
  · rw [entry_bound_shape, hmap, ← entry_bound_shape]; exact hbd

theorem entryf_prepared_mbuff (m : Memory) (d e : Nat) :
    Memory.writeRegion (Memory.writeRegion m.mbuff (m.mbuff.base + d) (leBytes m.mem.base 8)) (m.mbuff.base + e)
      (leBytes (m.mem.base + m.mem.bytes.size) 8) = (preparedMem m d e).mbuff := by
  rw [entryf_wr_writeU64 m.mbuff d m.mem.base]
  have h := entryf_wr_writeU64 ⟨m.mbuff.base, Vm.writeU64 m.mbuff.bytes d m.mem.base⟩ e (m.mem.base + m.mem.bytes.size)
  simp only at h
  rw [h]
  simp only [preparedMem, Vm.fixedPrepare]

theorem entryf_prepared_shape (m : Memory) (d e : Nat) : entry_shape (preparedMem m d e).mbuff = entry_shape m.mbuff := by
  rw [← entryf_prepared_mbuff]; simp only [entry_shape_wr]

theorem entryf_prepared_base (m : Memory) (d e : Nat) : (preparedMem m d e).mbuff.base = m.mbuff.base := by
  simp only [preparedMem]
theorem entryf_prepared_size (m : Memory) (d e : Nat) : (preparedMem m d e).mbuff.bytes.size = m.mbuff.bytes.size := by
  have := entryf_prepared_shape m d e
  simp only [entry_shape, Prod.mk.injEq] at this
  exact this.2
theorem entryf_prepared_mem (m : Memory) (d e : Nat) : (preparedMem m d e).mem = m.mem := by simp only [preparedMem]
theorem entryf_prepared_extra (m : Memory) (d e : Nat) : (preparedMem m d e).extra = m.extra := by simp only [preparedMem]
theorem entryf_prepared_stack (m : Memory) (d e : Nat) : (preparedMem m d e).stack = m.stack := by simp only [preparedMem]

section
attribute [local irreducible] preparedMem

/-- the prologue of the fixed-metadata kind: from the entry state to the first arm, the buffer prepared -/
theorem entryf_prologue (c : Cfg) (L : JitAst.Layout) (m : Memory) (d e : Nat) (σ : St) (tgt : Tgt → Option Nat) (l : Nat)
    (hexit : tgt .exit = some L.exitLoc)
    (hcs : checkSeq c.code tgt 0 (JitAst.prologue true true) = some l) (hl : l ≤ c.code.size)
    (hsize : c.codeBase + c.code.size < 2 ^ 63) (hef : EntryFixed c m d e σ) :
    ∃ k σ' retAddr top, stepsN c k σ = some σ' ∧ Rel0 retAddr σ' (entryStateFixed m σ d e) ∧
      topBytes σ' (entryStateFixed m σ d e) = some top ∧ σ'.rip = c.codeBase + l ∧
      LandingPad c L retAddr ∧ (∃ pad, top = savedBytes c σ ++ pad) ∧ entry_lm σ' = entry_lm σ := by
  have he := hef.entry
  obtain ⟨frame, lower, hxm, hfb, hfs, hss, hlb, hls, hb, hmb, hdj⟩ := entry_memrel_split _ _ he.mem
  have hmrel := he.mem
  rw [hxm] at hmrel
  obtain ⟨hmemb, hdfm⟩ := entryf_memrel_extra m frame lower hmrel
  have hrsp := he.rsp
  have hsen := he.sentinel
  generalize hbdef : m.stack.base = b at *
  -- the code
  unfold JitAst.prologue at hcs
  obtain ⟨m2, hcs12, hcs3⟩ := checkSeq_append _ _ _ _ _ _ hcs
  obtain ⟨m1, hcs1, hcs2⟩ := checkSeq_append _ _ _ _ _ _ hcs12
  simp only [not_true_eq_false, if_false] at hcs2
  -- the steps
  obtain ⟨σ6, hst6, hr6, hm6, hp6, hg6, hq6, hl6⟩ := entry_pro_pushes c tgt σ frame _ b m1 hcs1 he.rip hxm hrsp hfb hfs
  generalize hF5 : entry_frame5 frame b (σ.get 5).toNat (σ.get 3).toNat (σ.get 13).toNat (σ.get 14).toNat (σ.get 15).toNat = F5 at hm6
  have hF5s : entry_shape F5 = entry_shape frame := by rw [← hF5]; exact entry_frame5_shape _ _ _ _ _ _ _
  have hF5b : F5.base = b := (congrArg Prod.fst hF5s).trans hfb
  have hF5z : F5.bytes.size = 568 := (congrArg Prod.snd hF5s).trans hfs
  have hdIn := hef.dIn
  have heIn := hef.eIn
  have hmbb : m.mbuff.base < 2 ^ 64 := by omega
  have hF : ∀ a, m.mbuff.base ≤ a → a + 8 ≤ m.mbuff.base + m.mbuff.bytes.size → F5.contains a 8 = false := by
    intro a h1 h2
    simp only [Region.contains, Bool.and_eq_false_iff, decide_eq_false_iff_not]
    unfold disjoint at hdfm
    omega
  obtain ⟨σ7, hst7, hr7, hm7, hg8, hg9, hq7, hl7⟩ := entryf_pro_mid c tgt σ6 m1 m2 F5 m.mbuff _ m.mbuff.base d e hcs2 hr6 hm6
    (by rw [hq6 7 (by decide) (by decide), he.rdi, BitVec.toNat_ofNat]; omega)
    (by rw [hq6 8 (by decide) (by decide), hef.r8, BitVec.toNat_ofNat]; omega)
    (by rw [hq6 9 (by decide) (by decide), hef.r9, BitVec.toNat_ofNat]; omega)
    rfl hmb hdIn heIn hF
  -- the buffer after the two stores is the prepared one
  have hv1 : (σ6.get 2).toNat = m.mem.base := by
    rw [hq6 2 (by decide) (by decide), he.rdx, BitVec.toNat_ofNat]; omega
  have hv2 : (σ6.get 2 + σ6.get 1).toNat = m.mem.base + m.mem.bytes.size := by
    rw [hq6 2 (by decide) (by decide), hq6 1 (by decide) (by decide), he.rdx, hef.rcx, BitVec.toNat_add, BitVec.toNat_ofNat,
      BitVec.toNat_ofNat]
    omega
  have hMB : Memory.writeRegion (Memory.writeRegion m.mbuff (m.mbuff.base + d) (leBytes (σ6.get 2).toNat 8)) (m.mbuff.base + e)
      (leBytes (σ6.get 2 + σ6.get 1).toNat 8) = (preparedMem m d e).mbuff := by
    rw [hv1, hv2]
    exact entryf_prepared_mbuff m d e
  rw [hMB] at hm7
  have hPs : entry_shape (preparedMem m d e).mbuff = entry_shape m.mbuff := entryf_prepared_shape m d e
  have hlowc : lower.contains (b - 8) 8 = true := entry_contains _ _ _ (by omega) (by omega)
  have hpre : ∀ q ∈ F5 :: (preparedMem m d e).mbuff :: m.mem :: m.extra, q.contains (b - 8) 8 = false := by
    intro q hq
    rcases List.mem_cons.mp hq with rfl | hq
    · simp only [Region.contains, Bool.and_eq_false_iff, decide_eq_false_iff_not]
      left; omega
    · rcases List.mem_cons.mp hq with rfl | hq
      · have h0 := entry_not_contains m.mbuff lower _ _ (hdj m.mbuff (by simp)) (by omega) hlowc
        have e1 := entryf_prepared_base m d e
        have e2 := entryf_prepared_size m d e
        simp only [Region.contains, e1, e2] at h0 ⊢
        exact h0
      · exact entry_not_contains q lower _ _ (hdj q (List.mem_cons_of_mem _ (List.mem_cons_of_mem _ hq))) (by omega) hlowc
  have hm7' : σ7.mem = (F5 :: (preparedMem m d e).mbuff :: m.mem :: m.extra) ++ [lower] := by rw [hm7]; simp
  have hp7 : (σ7.get 4).toNat = b + 512 := by rw [hq7 4 (by decide) (by decide)]; exact hp6
  obtain ⟨σ10, aj, rel, hst10, hr10, hm10, hp10, hg10, hq10, haj, hdj4, hlj, hl10⟩ :=
    entry_pro_tail c tgt σ7 _ lower b m2 l L.exitLoc hexit hcs3 (by omega) hr7 hm7' hp7 (by omega) hpre hlowc
  have hm10' : σ10.mem = F5 :: (preparedMem m d e).mbuff :: (preparedMem m d e).mem ::
      ((preparedMem m d e).extra ++ [Memory.writeRegion lower (b - 8) (leBytes (c.codeBase + aj) 8)]) := by
    rw [hm10, entryf_prepared_mem, entryf_prepared_extra]; simp
  -- registers of the final state
  have hreg : ∀ q, q ≠ 4 → q ≠ 5 → q ≠ 8 → q ≠ 9 → q ≠ 10 → σ10.get q = σ.get q := by
    intro q h4 h5 h8 h9 h10
    rw [hq10 q h4 h5, hq7 q h8 h9, hq6 q h4 h10]
  have hr8' : σ10.get 8 = BitVec.ofNat 64 m.mem.base + BitVec.ofNat 64 m.mem.bytes.size := by
    rw [hq10 8 (by decide) (by decide), hg8, hq6 2 (by decide) (by decide), hq6 1 (by decide) (by decide), he.rdx, hef.rcx]
  have hr9' : σ10.get 9 = BitVec.ofNat 64 m.mbuff.base + BitVec.ofNat 64 e := by
    rw [hq10 9 (by decide) (by decide), hg9, hq6 9 (by decide) (by decide), hq6 7 (by decide) (by decide), he.rdi, hef.r9,
      BitVec.add_comm]
  have hrbp : σ10.get 5 = BitVec.ofNat 64 (b + 512) := by
    rw [hg10]
    apply BitVec.eq_of_toNat_eq
    rw [hp7, BitVec.toNat_ofNat]
    omega
  have hr10' : σ10.get 10 = σ.get 2 := by
    rw [hq10 10 (by decide) (by decide), hq7 10 (by decide) (by decide), hg6]
  have hmr : MemRel σ10.mem (preparedMem m d e) := by
    rw [hm10']
    exact entryf_memrel_update m (preparedMem m d e) frame lower F5 _ hmrel hPs (entryf_prepared_mem m d e)
      (entryf_prepared_extra m d e) (entryf_prepared_stack m d e) hF5s (entry_shape_wr _ _ _)
      (fun k hk => by rw [← hF5]; exact entry_frame5_low _ _ _ _ _ _ _ hfb k hk)
  refine ⟨6 + 6 + 3, σ10, c.codeBase + aj, entry_rd F5 (b + 512) 56,
    stepsN_add c _ _ _ _ _ (stepsN_add c _ _ _ _ _ hst6 hst7) hst10, ?_, ?_, hr10, ?_, ?_, by rw [hl10, hl7, hl6]⟩
  · -- Rel0
    refine ⟨?_, hmr, ?_, ?_, ?_, ?_⟩
    rotate_right
    · exact entry_room_after c m σ he (frame :: m.mbuff :: m.mem :: m.extra) _ lower _ (by rw [hxm]; simp) σ10.mem hm10
        (entry_wr_base _ _ _) _ (by show (σ10.get 4).toNat + 8 = _; rw [hp10]; omega)
    · intro k hk
      rw [entryf_state_reg m σ d e k hk, hbdef]
      obtain ⟨v0, v1, v2, v3, v4, v5, v6, v7, v8, v9, v10⟩ := regOf_vals
      have : k = 0 ∨ k = 1 ∨ k = 2 ∨ k = 3 ∨ k = 4 ∨ k = 5 ∨ k = 6 ∨ k = 7 ∨ k = 8 ∨ k = 9 ∨ k = 10 := by omega
      rcases this with rfl | rfl | rfl | rfl | rfl | rfl | rfl | rfl | rfl | rfl | rfl
      · rw [v0]; exact hreg 0 (by decide) (by decide) (by decide) (by decide) (by decide)
      · rw [v1]; exact hreg 7 (by decide) (by decide) (by decide) (by decide) (by decide)
      · rw [v2]; exact hreg 6 (by decide) (by decide) (by decide) (by decide) (by decide)
      · rw [v3]; exact hreg 2 (by decide) (by decide) (by decide) (by decide) (by decide)
      · rw [v4]; exact hr9'
      · rw [v5]; exact hr8'
      · rw [v6]; exact hreg 3 (by decide) (by decide) (by decide) (by decide) (by decide)
      · rw [v7]; exact hreg 13 (by decide) (by decide) (by decide) (by decide) (by decide)
      · rw [v8]; exact hreg 14 (by decide) (by decide) (by decide) (by decide) (by decide)
      · rw [v9]; exact hreg 15 (by decide) (by decide) (by decide) (by decide) (by decide)
      · rw [v10]; exact hrbp
    · rw [hr10', he.rdx, entryf_state_mem, entryf_prepared_mem]
    · show (σ10.get 4).toNat + 8 + 48 * 0 = (entryStateFixed m σ d e).mem.stack.base
      rw [hp10, entryf_state_mem, entryf_prepared_stack, hbdef]; omega
    · show readMem σ10.mem (σ10.get 4).toNat 8 = _
      rw [hp10, hm10]
      rw [entry_read_last _ _ _ _ hpre (by
        rw [entry_contains _ _ _ (by rw [entry_wr_base]; omega) (by rw [entry_wr_base, entry_wr_size]; omega)])]
      rw [entry_rd_wr_same8 _ _ _ (by omega) (by omega)]
  · -- topBytes
    show readMem σ10.mem ((entryStateFixed m σ d e).mem.stack.base + 512) 56 = _
    rw [hm10', entryf_state_mem, entryf_prepared_stack, hbdef]
    exact entry_read_head _ _ _ _ (entry_contains _ _ _ (by omega) (by omega))
  · -- LandingPad
    refine ⟨by omega, by omega, rel, 5, ?_, ?_⟩
    · rw [Nat.add_sub_cancel_left]; exact hdj4
    · rw [Nat.add_sub_cancel_left]; exact hlj
  · -- saved bytes
    refine ⟨entry_rd frame (b + 560) 8, ?_⟩
    have hsent : entry_rd frame (b + 552) 8 = leBytes c.retSentinel.toNat 8 := by
      have h1 := hsen
      rw [hxm, entry_read_head _ _ _ _ (entry_contains _ _ _ (by omega) (by omega))] at h1
      exact Option.some.inj h1
    rw [← hF5, entry_frame5_top _ _ _ _ _ _ _ hfb hfs, hsent]
    simp only [savedBytes, List.append_assoc]

end

end Rbpf.JitSim
