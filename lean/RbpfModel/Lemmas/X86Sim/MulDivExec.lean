/-
  x86-64 simulation, class `mulDivOpcodes`, part 3: running a block of straight-line instructions off a checked code
  buffer, and what each instruction form of the arm does to the machine state.
-/
import RbpfModel.Lemmas.X86Sim.MulDivMem
namespace Rbpf.JitSim
open Rbpf.X86 (Cfg St Out Instr step exec decode fetch readMem writeMem)
open Rbpf.JitAst (AI Tgt checkSeq window)
open Rbpf.Interp (lo32 zx32 sx32)

theorem md_exec_rip (c : Cfg) (σ : St) (x : Instr) (r next : Nat) : exec c { σ with rip := r } x next = exec c σ x next := rfl

/-- `x` is a straight-line instruction taking `σ` to `σ'` (up to `rip`) -/
def md_Step (c : Cfg) (x : Instr) (σ σ' : St) : Prop :=
  (∀ next, exec c σ x next = .next { σ' with rip := next }) ∧ σ'.log = σ.log ∧ σ'.misaligned = σ.misaligned

inductive md_Steps (c : Cfg) : List Instr → St → St → Prop
  | nil (σ : St) : md_Steps c [] σ σ
  | cons {x : Instr} {xs : List Instr} {σ σ1 σ2 : St} : md_Step c x σ σ1 → md_Steps c xs σ1 σ2 → md_Steps c (x :: xs) σ σ2

theorem md_steps_append {c : Cfg} {xs ys : List Instr} {σ σ1 σ2 : St} (h1 : md_Steps c xs σ σ1) (h2 : md_Steps c ys σ1 σ2) :
    md_Steps c (xs ++ ys) σ σ2 := by
  induction h1 with
  | nil σ => exact h2
  | cons hs _ ih => exact .cons hs (ih h2)

/-- straight-line instructions make no external call: the call log and the misalignment counter stay -/
theorem md_steps_log {c : Cfg} {xs : List Instr} {σ σ' : St} (h : md_Steps c xs σ σ') :
    σ'.log = σ.log ∧ σ'.misaligned = σ.misaligned := by
  induction h with
  | nil σ => exact ⟨rfl, rfl⟩
  | cons hs _ ih => exact ⟨ih.1.trans hs.2.1, ih.2.trans hs.2.2⟩

theorem md_steps_one {c : Cfg} {x : Instr} {σ σ1 : St} (h : md_Step c x σ σ1) : md_Steps c [x] σ σ1 := .cons h (.nil _)

theorem md_run_aux (c : Cfg) (tgt : Tgt → Option Nat) (xs : List Instr) (rest : List AI) (a b : Nat) (σ σ' : St)
    (hc : checkSeq c.code tgt a (xs.map AI.i ++ rest) = some b) (hs : md_Steps c xs σ σ') :
    ∃ m, checkSeq c.code tgt m rest = some b ∧
      stepsN c xs.length { σ with rip := c.codeBase + a } = some { σ' with rip := c.codeBase + m } := by
  induction hs generalizing a with
  | nil σ => exact ⟨a, by simpa using hc, rfl⟩
  | @cons x xs σ σ1 σ2 hx _ ih =>
    simp only [List.map_cons, List.cons_append] at hc
    obtain ⟨n, hd, hc'⟩ := checkSeq_i _ _ _ _ _ _ hc
    obtain ⟨m, hm, hst⟩ := ih (a + n) hc'
    refine ⟨m, hm, ?_⟩
    have hstep : step c { σ with rip := c.codeBase + a } = .next { σ1 with rip := c.codeBase + (a + n) } := by
      rw [step_at c _ a n x rfl hd, md_exec_rip, hx.1, Nat.add_assoc]
    simp only [List.length_cons]
    exact stepsN_succ c _ _ _ _ hstep hst

/-- a block of straight-line instructions at `a`: the machine runs it and arrives at its end -/
theorem md_run (c : Cfg) (tgt : Tgt → Option Nat) (xs : List Instr) (rest : List AI) (a b : Nat) (σ σ' : St)
    (hc : checkSeq c.code tgt a (xs.map AI.i ++ rest) = some b) (hrip : σ.rip = c.codeBase + a) (hs : md_Steps c xs σ σ') :
    ∃ m, checkSeq c.code tgt m rest = some b ∧
      stepsN c xs.length σ = some { σ' with rip := c.codeBase + m } := by
  obtain ⟨m, h1, h2⟩ := md_run_aux c tgt xs rest a b σ σ' hc hs
  refine ⟨m, h1, ?_⟩
  have : σ = { σ with rip := c.codeBase + a } := by rw [← hrip]
  rw [this]; exact h2

theorem md_ofNat_mod (v : BitVec 64) : BitVec.ofNat 64 (v.toNat % 2 ^ 64 % 2 ^ 64) = v := by
  apply BitVec.eq_of_toNat_eq
  simp [Nat.mod_eq_of_lt v.isLt]

theorem md_step_movRR (c : Cfg) (σ : St) (s d : Nat) : md_Step c (JitAst.movRR s d) σ (σ.set d (σ.get s)) := by
  refine ⟨?_, rfl, rfl⟩
  intro next
  simp only [JitAst.movRR, exec, X86.alu, X86.trunc, X86.writeSized, if_true, true_or]
  show Out.next (St.set _ d (BitVec.ofNat 64 ((St.get _ s).toNat % 2 ^ 64 % 2 ^ 64))) = _
  rw [md_ofNat_mod]
  rfl

theorem md_step_movabs (c : Cfg) (σ : St) (d : Nat) (v : BitVec 64) : md_Step c (.movabs d v) σ (σ.set d v) := by
  exact ⟨fun next => rfl, rfl, rfl⟩

theorem md_step_movRI (c : Cfg) (σ : St) (d : Nat) (imm : BitVec 32) :
    md_Step c (.aluRI true .mov d imm) σ (σ.set d (sx32 imm)) := by
  refine ⟨?_, rfl, rfl⟩
  intro next
  simp only [exec, X86.alu, X86.writeSized, if_true, true_or]
  show Out.next (St.set _ d (BitVec.ofNat 64 ((imm.signExtend 64).toNat % 2 ^ 64))) = _
  have : BitVec.ofNat 64 ((imm.signExtend 64).toNat % 2 ^ 64) = sx32 imm := by
    apply BitVec.eq_of_toNat_eq
    have := (imm.signExtend 64).isLt
    simp [sx32]
    omega
  rw [this]
  rfl

theorem md_step_loadImm_any (c : Cfg) (σ : St) (d : Nat) (k : Int) : ∃ v, md_Step c (JitAst.loadImm d k) σ (σ.set d v) := by
  unfold JitAst.loadImm
  split
  · exact ⟨_, md_step_movRI c σ d _⟩
  · exact ⟨_, md_step_movabs c σ d _⟩

theorem md_step_loadImm32 (c : Cfg) (σ : St) (d : Nat) (imm : BitVec 32) :
    md_Step c (JitAst.loadImm d imm.toInt) σ (σ.set d (sx32 imm)) := by
  unfold JitAst.loadImm
  have h1 := @BitVec.toInt_lt 32 imm
  have h2 := @BitVec.le_toInt 32 imm
  rw [if_pos (by constructor <;> omega)]
  rw [BitVec.ofInt_toInt]
  exact md_step_movRI c σ d imm

theorem md_step_xor32 (c : Cfg) (σ : St) (d : Nat) : ∃ fl, md_Step c (.aluRR false .xor d d) σ ({ σ with flags := fl }.set d 0) := by
  refine ⟨some (X86.flagsLogic 32 0), ?_⟩
  refine ⟨?_, rfl, rfl⟩
  intro next
  simp only [exec, X86.alu, X86.writeSized, Bool.false_eq_true, if_false, or_true, if_true, Nat.xor_self, Nat.zero_mod]
  rfl

theorem md_step_test (c : Cfg) (σ : St) (w : Bool) (r : Nat) :
    md_Step c (.aluRR w .test r r) σ
      { σ with flags := some (X86.flagsLogic (if w then 64 else 32) (X86.trunc (if w then 64 else 32) (σ.get r))) } := by
  refine ⟨?_, rfl, rfl⟩
  intro next
  simp only [exec, X86.alu, Nat.and_self]
  rfl


def md_mulLo (w : Bool) (a b : BitVec 64) : BitVec 64 := if w then a * b else zx32 (lo32 a * lo32 b)
def md_divQ (w : Bool) (a b : BitVec 64) : BitVec 64 := if w then a / b else zx32 (lo32 a / lo32 b)
def md_divR (w : Bool) (a b : BitVec 64) : BitVec 64 := if w then a % b else zx32 (lo32 a % lo32 b)
def md_nz (w : Bool) (b : BitVec 64) : Prop := if w then b ≠ 0 else lo32 b ≠ 0

theorem md_arith_mul64 (a b : BitVec 64) : BitVec.ofNat 64 (a.toNat % 2 ^ 64 * (b.toNat % 2 ^ 64) % 2 ^ 64 % 2 ^ 64) = a * b := by
  apply BitVec.eq_of_toNat_eq
  simp [BitVec.toNat_mul, Nat.mod_eq_of_lt a.isLt, Nat.mod_eq_of_lt b.isLt]

theorem md_arith_mul32 (a b : BitVec 64) :
    BitVec.ofNat 64 (a.toNat % 2 ^ 32 * (b.toNat % 2 ^ 32) % 2 ^ 32 % 2 ^ 32) = zx32 (lo32 a * lo32 b) := by
  apply BitVec.eq_of_toNat_eq
  simp [zx32, lo32, BitVec.toNat_mul]

theorem md_step_mul (c : Cfg) (σ : St) (w : Bool) :
    ∃ hi, md_Step c (.mul w 1) σ (({ σ with flags := none }.set 0 (md_mulLo w (σ.get 0) (σ.get 1))).set 2 hi) := by
  cases w
  · refine ⟨BitVec.ofNat 64 (X86.trunc 32 (σ.get 0) * X86.trunc 32 (σ.get 1) / 2 ^ 32 % 2 ^ 32), ?_⟩
    refine ⟨?_, rfl, rfl⟩
    intro next
    simp only [exec, X86.trunc, X86.writeSized, X86.RAX, X86.RDX, Bool.false_eq_true, if_false, or_true, if_true, md_mulLo]
    rw [← md_arith_mul32]
    rfl
  · refine ⟨BitVec.ofNat 64 (X86.trunc 64 (σ.get 0) * X86.trunc 64 (σ.get 1) / 2 ^ 64 % 2 ^ 64), ?_⟩
    refine ⟨?_, rfl, rfl⟩
    intro next
    simp only [exec, X86.trunc, X86.writeSized, X86.RAX, X86.RDX, if_true, true_or, md_mulLo]
    rw [← md_arith_mul64]
    rfl

theorem md_get_rip (σ : St) (r k : Nat) : St.get { σ with rip := r } k = σ.get k := rfl

theorem md_arith_div64 (a b : BitVec 64) : BitVec.ofNat 64 (a.toNat % 2 ^ 64 / (b.toNat % 2 ^ 64) % 2 ^ 64) = a / b := by
  apply BitVec.eq_of_toNat_eq
  have := (a / b).isLt
  simp [Nat.mod_eq_of_lt a.isLt, Nat.mod_eq_of_lt b.isLt] at this ⊢
  omega

theorem md_arith_mod64 (a b : BitVec 64) : BitVec.ofNat 64 (a.toNat % 2 ^ 64 % (b.toNat % 2 ^ 64) % 2 ^ 64) = a % b := by
  apply BitVec.eq_of_toNat_eq
  have := (a % b).isLt
  simp [Nat.mod_eq_of_lt a.isLt, Nat.mod_eq_of_lt b.isLt] at this ⊢
  omega

theorem md_arith_div32 (a b : BitVec 64) :
    BitVec.ofNat 64 (a.toNat % 2 ^ 32 / (b.toNat % 2 ^ 32) % 2 ^ 32) = zx32 (lo32 a / lo32 b) := by
  apply BitVec.eq_of_toNat_eq
  have := (lo32 a / lo32 b).isLt
  simp [zx32, lo32] at this ⊢
  rw [Nat.mod_eq_of_lt this]

theorem md_arith_mod32 (a b : BitVec 64) :
    BitVec.ofNat 64 (a.toNat % 2 ^ 32 % (b.toNat % 2 ^ 32) % 2 ^ 32) = zx32 (lo32 a % lo32 b) := by
  apply BitVec.eq_of_toNat_eq
  have := (lo32 a % lo32 b).isLt
  simp [zx32, lo32] at this ⊢
  omega

theorem md_step_div (c : Cfg) (σ : St) (w : Bool) (h2 : σ.get 2 = 0) (hnz : md_nz w (σ.get 1)) :
    md_Step c (.div w 1) σ
      (({ σ with flags := none }.set 0 (md_divQ w (σ.get 0) (σ.get 1))).set 2 (md_divR w (σ.get 0) (σ.get 1))) := by
  have hz : (0 : BitVec 64).toNat = 0 := rfl
  cases w
  · refine ⟨?_, rfl, rfl⟩
    intro next
    have hd : ¬ (σ.get 1).toNat % 2 ^ 32 = 0 := by
      intro h0
      apply hnz
      apply BitVec.eq_of_toNat_eq
      simpa [lo32] using h0
    have hq : ¬ ((0 : BitVec 64).toNat % 2 ^ 32 * 2 ^ 32 + (σ.get 0).toNat % 2 ^ 32) / ((σ.get 1).toNat % 2 ^ 32) ≥ 2 ^ 32 := by
      have := Nat.div_le_self ((σ.get 0).toNat % 2 ^ 32) ((σ.get 1).toNat % 2 ^ 32)
      simp only [hz, Nat.zero_mod, Nat.zero_mul, Nat.zero_add]
      omega
    simp only [exec, X86.trunc, X86.writeSized, X86.RAX, X86.RDX, Bool.false_eq_true, if_false, or_true, if_true, md_divQ, md_divR,
      md_get_rip, h2]
    rw [if_neg hd, if_neg hq]
    simp only [hz, Nat.zero_mod, Nat.zero_mul, Nat.zero_add]
    rw [← md_arith_div32, ← md_arith_mod32]
    rfl
  · refine ⟨?_, rfl, rfl⟩
    intro next
    have hd : ¬ (σ.get 1).toNat % 2 ^ 64 = 0 := by
      intro h0
      apply hnz
      apply BitVec.eq_of_toNat_eq
      have := (σ.get 1).isLt
      simp at h0 ⊢
      omega
    have hq : ¬ ((0 : BitVec 64).toNat % 2 ^ 64 * 2 ^ 64 + (σ.get 0).toNat % 2 ^ 64) / ((σ.get 1).toNat % 2 ^ 64) ≥ 2 ^ 64 := by
      have := Nat.div_le_self ((σ.get 0).toNat % 2 ^ 64) ((σ.get 1).toNat % 2 ^ 64)
      simp only [hz, Nat.zero_mod, Nat.zero_mul, Nat.zero_add]
      omega
    simp only [exec, X86.trunc, X86.writeSized, X86.RAX, X86.RDX, if_true, true_or, md_divQ, md_divR, md_get_rip, h2]
    rw [if_neg hd, if_neg hq]
    simp only [hz, Nat.zero_mod, Nat.zero_mul, Nat.zero_add]
    rw [← md_arith_div64, ← md_arith_mod64]
    rfl

theorem md_push_rip (σ : St) (r : Nat) (v : BitVec 64) :
    X86.push { σ with rip := r } v = (X86.push σ v).map (fun t => { t with rip := r }) := by
  unfold X86.push
  dsimp only [md_get_rip]
  cases writeMem σ.mem (σ.get X86.RSP - 8).toNat (leBytes v.toNat 8) <;> rfl

theorem md_pop_rip (σ : St) (r : Nat) :
    X86.pop { σ with rip := r } = (X86.pop σ).map (fun p => (p.1, { p.2 with rip := r })) := by
  unfold X86.pop
  dsimp only [md_get_rip]
  cases readMem σ.mem (σ.get X86.RSP).toNat 8 <;> rfl

theorem md_step_push (c : Cfg) {pre : List Region} {base size top : Nat} {hi : Nat → BitVec 8} {σ : St} {slots : List Nat} (r : Nat)
    (h : md_NS pre base size top hi σ slots) (hroom : base + 8 * (slots.length + 1) ≤ top) :
    ∃ σ1, md_Step c (.push r) σ σ1 ∧ (∀ k, σ1.get k = (σ.set 4 (σ.get 4 - 8)).get k) ∧
      md_NS pre base size top hi σ1 (slots ++ [(σ.get r).toNat]) := by
  obtain ⟨σ1, hp, hreg, _, _, hlog, hmis, hns⟩ := md_ns_push h hroom (σ.get r)
  refine ⟨σ1, ⟨?_, hlog, hmis⟩, fun k => get_congr _ _ k hreg, hns⟩
  intro next
  simp only [exec, md_get_rip, md_push_rip, hp, Option.map_some]

theorem md_step_pop (c : Cfg) {pre : List Region} {base size top : Nat} {hi : Nat → BitVec 8} {σ : St} {slots : List Nat} {v : BitVec 64} (r : Nat)
    (h : md_NS pre base size top hi σ (slots ++ [v.toNat])) (hr : r ≠ 4) :
    md_Step c (.pop r) σ ((σ.set 4 (σ.get 4 + 8)).set r v) ∧
      md_NS pre base size top hi ((σ.set 4 (σ.get 4 + 8)).set r v) slots := by
  obtain ⟨hp, hns⟩ := md_ns_pop h
  constructor
  · refine ⟨?_, rfl, rfl⟩
    intro next
    simp only [exec, md_pop_rip, hp, Option.map_some]
    rfl
  · exact md_ns_congr hns rfl (get_set_ne _ r 4 v hr)
end Rbpf.JitSim
