/-
  x86-64 simulation of the helper-call arm (`push r10 ; mov rcx, r9 ; mov rax, addr ; call rax ; pop r10`), and the
  lift of the per-class lemmas from `ArmSim` to `ArmSimC`.
-/
import RbpfModel.Model.JitSimC
import RbpfModel.Lemmas.X86Sim.Base
import RbpfModel.Lemmas.X86Sim.MulDivMem
import RbpfModel.Lemmas.X86Sim.MulDivExec
import RbpfModel.Lemmas.X86Sim.CallLift
namespace Rbpf.JitSim
open Rbpf.X86 (Cfg St Out Instr step exec decode fetch readMem writeMem)
open Rbpf.JitAst (AI Tgt checkSeq window)
open Rbpf.Interp (sx32)

/-- every instruction that is not a helper call: `ArmSim` gives `ArmSimC` (no external call on either side) -/
theorem armSimC_of_armSim (clob : Nat → Nat → BitVec 64) (i : Insn) (h : ArmSim i) (hn : ¬ (i.opc = 0x85 ∧ i.src = 0)) :
    ArmSimC clob i :=
  call_armSimC_of_armSim clob i h hn

-- the arm --------------------------------------------------------------------------------------------------------------

theorem call_arm_dst (haddr : Nat → Option Nat) (pc : Nat) (i : Insn) (nx : Option Insn) (r : List AI × Nat)
    (h : JitAst.arm haddr pc i nx = .ok r) : i.dst.toNat < 11 := by
  by_cases hd : i.dst.toNat < 11
  · exact hd
  · unfold JitAst.arm at h
    rw [mapRegister_none _ (by omega)] at h
    cases h

theorem call_arm (haddr : Nat → Option Nat) (pc n : Nat) (i : Insn) (nx : Option Insn) (ais : List AI)
    (h85 : i.opc = 0x85) (hs0 : i.src = 0) (h : JitAst.arm haddr pc i nx = .ok (ais, n)) :
    ∃ addr, haddr i.imm.toNat = some addr ∧ n = 1 ∧
      ais = [.i (.push 10), .i (JitAst.movRR 9 1), .i (JitAst.loadImm 0 (BitVec.ofNat 64 addr).toInt), .i (.callReg 0), .i (.pop 10)] := by
  have hd := call_arm_dst _ _ _ _ _ h
  have hs : i.src.toNat < 11 := by rw [hs0]; decide
  have hopc : i.opc.toNat = 0x85 := by rw [h85]; rfl
  unfold JitAst.arm at h
  rw [mapRegister_eq _ hd, mapRegister_eq _ hs] at h
  simp only [hopc, hs0, if_true] at h
  cases ha : haddr i.imm.toNat with
  | none => rw [ha] at h; cases h
  | some addr =>
    rw [ha] at h
    injection h with h
    injection h with h1 h2
    exact ⟨addr, rfl, h2.symm, h1.symm⟩

-- the eBPF side --------------------------------------------------------------------------------------------------------

theorem call_rd (s : State) (k : Nat) (hk : k < 11) (f : BitVec 64 → Outcome) : Interp.rd s k f = f (s.reg.getD k 0) := by
  unfold Interp.rd
  simp [Vector.getD, hk]

theorem call_clobberRegs_eq (clob : Nat → Nat → BitVec 64) (n : Nat) (reg : Vector (BitVec 64) 11) :
    clobberRegs clob n reg =
      (((((reg.setIfInBounds 1 (clob n 7)).setIfInBounds 2 (clob n 6)).setIfInBounds 3 (clob n 2)).setIfInBounds 4 (clob n 9)).setIfInBounds 5
        (clob n 8)) := rfl

theorem call_callHelper_some (env : Env) (s : State) (imm : BitVec 32) (f : HelperFn) (hf : env.helpers imm.toNat = some f) :
    Interp.callHelper env s imm = .next { s with
        log := s.log ++ [(imm.toNat, [s.reg.getD 1 0, s.reg.getD 2 0, s.reg.getD 3 0, s.reg.getD 4 0, s.reg.getD 5 0])],
        reg := s.reg.setIfInBounds 0 (f (s.reg.getD 1 0) (s.reg.getD 2 0) (s.reg.getD 3 0) (s.reg.getD 4 0) (s.reg.getD 5 0)) } := by
  unfold Interp.callHelper
  simp only [hf]
  rw [call_rd s 1 (by omega), call_rd s 2 (by omega), call_rd s 3 (by omega), call_rd s 4 (by omega), call_rd s 5 (by omega)]
  unfold Interp.wr
  rw [if_pos (show 0 < 11 by omega)]

theorem call_helperC_next (clob : Nat → Nat → BitVec 64) (env : Env) (s s' : State) (imm : BitVec 32)
    (h : callHelperC clob env s imm = .next s') :
    ∃ f, env.helpers imm.toNat = some f ∧
      s' = { s with
        log := s.log ++ [(imm.toNat, [s.reg.getD 1 0, s.reg.getD 2 0, s.reg.getD 3 0, s.reg.getD 4 0, s.reg.getD 5 0])],
        reg := clobberRegs clob s.log.length (s.reg.setIfInBounds 0
          (f (s.reg.getD 1 0) (s.reg.getD 2 0) (s.reg.getD 3 0) (s.reg.getD 4 0) (s.reg.getD 5 0))) } := by
  cases hf : env.helpers imm.toNat with
  | none =>
    unfold callHelperC Interp.callHelper at h
    simp [hf] at h
  | some f =>
    refine ⟨f, rfl, ?_⟩
    unfold callHelperC at h
    rw [call_callHelper_some env s imm f hf] at h
    simp only [Outcome.next.injEq] at h
    exact h.symm

-- the machine side -----------------------------------------------------------------------------------------------------

theorem call_sx32_ofInt (k : Int) (h1 : -2147483648 ≤ k) (h2 : k ≤ 2147483647) : sx32 (BitVec.ofInt 32 k) = BitVec.ofInt 64 k := by
  apply BitVec.eq_of_toInt_eq
  unfold sx32
  rw [BitVec.toInt_signExtend_of_le (by omega), BitVec.toInt_ofInt, BitVec.toInt_ofInt]
  rw [Int.bmod_eq_of_le (by omega) (by omega), Int.bmod_eq_of_le (by omega) (by omega)]

/-- `mov rax, imm64` in whichever of its two encodings -/
theorem call_step_loadImm64 (c : Cfg) (σ : St) (d : Nat) (v : BitVec 64) :
    md_Step c (JitAst.loadImm d v.toInt) σ (σ.set d v) := by
  unfold JitAst.loadImm
  split
  · next h =>
    have := md_step_movRI c σ d (BitVec.ofInt 32 v.toInt)
    rw [call_sx32_ofInt _ h.1 h.2, BitVec.ofInt_toInt] at this
    exact this
  · rw [BitVec.ofInt_toInt]
    exact md_step_movabs c σ d v

/-- the state a `call rax` to a registered function leaves, given the state `σ1` after the push of the return address -/
def call_after (c : Cfg) (σ σ1 : St) (tag : Nat) (ret : BitVec 64) : St :=
  let n := σ.log.length
  let s2 : St := { σ1 with
    reg := σ.reg, flags := none,
    log := σ.log ++ [(tag, [σ.get 7, σ.get 6, σ.get 2, σ.get 1, σ.get 8])],
    misaligned := if (σ.get 4).toNat % 16 = 0 then σ.misaligned else σ.misaligned + 1 }
  ((((((((s2.set 1 (c.clobber n 1)).set 2 (c.clobber n 2)).set 6 (c.clobber n 6)).set 7 (c.clobber n 7)).set 8 (c.clobber n 8)).set 9
    (c.clobber n 9)).set 10 (c.clobber n 10)).set 11 (c.clobber n 11)).set 0 ret

theorem call_after_mem (c : Cfg) (σ σ1 : St) (tag : Nat) (ret : BitVec 64) : (call_after c σ σ1 tag ret).mem = σ1.mem := by
  simp only [call_after, set_mem]
theorem call_after_rip (c : Cfg) (σ σ1 : St) (tag : Nat) (ret : BitVec 64) : (call_after c σ σ1 tag ret).rip = σ1.rip := by
  simp only [call_after, set_rip]
theorem call_after_log (c : Cfg) (σ σ1 : St) (tag : Nat) (ret : BitVec 64) :
    (call_after c σ σ1 tag ret).log = σ.log ++ [(tag, [σ.get 7, σ.get 6, σ.get 2, σ.get 1, σ.get 8])] := by
  simp only [call_after, set_log]
theorem call_after_misaligned (c : Cfg) (σ σ1 : St) (tag : Nat) (ret : BitVec 64) :
    (call_after c σ σ1 tag ret).misaligned = if (σ.get 4).toNat % 16 = 0 then σ.misaligned else σ.misaligned + 1 := by
  simp only [call_after, set_misaligned]

theorem call_after_get (c : Cfg) (σ σ1 : St) (tag : Nat) (ret : BitVec 64) (k : Nat) :
    (call_after c σ σ1 tag ret).get k =
      if k = 0 then ret
      else if k = 1 ∨ k = 2 ∨ k = 6 ∨ k = 7 ∨ k = 8 ∨ k = 9 ∨ k = 10 ∨ k = 11 then c.clobber σ.log.length k
      else σ.get k := by
  unfold call_after
  simp only [get_set]
  have e : ∀ (σ1 : St) r f l m, St.get { σ1 with reg := σ.reg, flags := f, log := l, misaligned := m } r = σ.get r := fun _ _ _ _ _ => rfl
  rw [e]
  by_cases h0 : k = 0
  · subst h0; simp
  by_cases h1 : k = 1
  · subst h1; simp
  by_cases h2 : k = 2
  · subst h2; simp
  by_cases h6 : k = 6
  · subst h6; simp
  by_cases h7 : k = 7
  · subst h7; simp
  by_cases h8 : k = 8
  · subst h8; simp
  by_cases h9 : k = 9
  · subst h9; simp
  by_cases h10 : k = 10
  · subst h10; simp
  by_cases h11 : k = 11
  · subst h11; simp
  have n0 : ¬ 0 = k := fun h => h0 h.symm
  have n1 : ¬ 1 = k := fun h => h1 h.symm
  have n2 : ¬ 2 = k := fun h => h2 h.symm
  have n6 : ¬ 6 = k := fun h => h6 h.symm
  have n7 : ¬ 7 = k := fun h => h7 h.symm
  have n8 : ¬ 8 = k := fun h => h8 h.symm
  have n9 : ¬ 9 = k := fun h => h9 h.symm
  have n10 : ¬ 10 = k := fun h => h10 h.symm
  have n11 : ¬ 11 = k := fun h => h11 h.symm
  simp [h0, h1, h2, h6, h7, h8, h9, h10, h11, n0, n1, n2, n6, n7, n8, n9, n10, n11]

theorem call_bv_sub_add (x : BitVec 64) : x - 8 + 8 = x := BitVec.sub_add_cancel x 8

/-- `call rax` where rax holds the address of a registered function: the return address goes into the next slot of the
    native stack (and is popped again by the callee's `ret`), the call is logged, the caller-saved registers come back
    clobbered -/
theorem call_exec_callReg (c : Cfg) {pre : List Region} {base size top : Nat} {hi : Nat → BitVec 8} {σ : St} {slots : List Nat} (tag : Nat)
    (f : HelperFn) (hns : md_NS pre base size top hi σ slots) (hroom : base + 8 * (slots.length + 1) ≤ top)
    (hext : c.ext (σ.get 0).toNat = some (tag, f)) (next : Nat) :
    ∃ σ1 : St,
      exec c σ (.callReg 0) next = .next (call_after c σ σ1 tag (f (σ.get 7) (σ.get 6) (σ.get 2) (σ.get 1) (σ.get 8))) ∧
      σ1.rip = next ∧
      md_NS pre base size top hi (call_after c σ σ1 tag (f (σ.get 7) (σ.get 6) (σ.get 2) (σ.get 1) (σ.get 8))) slots := by
  have hns' : md_NS pre base size top hi { σ with rip := next } slots := md_ns_congr hns rfl rfl
  obtain ⟨σ1, hp, hreg, hrip1, _, _, _, hns1⟩ := md_ns_push hns' hroom (BitVec.ofNat 64 next)
  refine ⟨σ1, ?_, hrip1, ?_⟩
  · unfold exec
    simp only [md_get_rip, hext, hp, List.foldl, call_after, X86.RCX, X86.RDX, X86.RSI, X86.RDI, X86.RAX, X86.RSP]
    rfl
  · obtain ⟨_, hns2⟩ := md_ns_pop (v := BitVec.ofNat 64 next) hns1
    refine md_ns_congr hns2 (call_after_mem _ _ _ _ _) ?_
    rw [call_after_get, get_set_eq _ 4 _ (by omega)]
    simp only [show ¬ (4 = 0) by omega, if_false, show ¬ (4 = 1 ∨ 4 = 2 ∨ 4 = 6 ∨ 4 = 7 ∨ 4 = 8 ∨ 4 = 9 ∨ 4 = 10 ∨ 4 = 11) by omega]
    rw [get_congr _ σ1 4 hreg, get_set_eq _ 4 _ (by omega), md_get_rip, call_bv_sub_add]
    rfl

theorem call_logRel_length (σ : St) (s : State) (h : LogRel σ s) : σ.log.length = s.log.length := by
  have := congrArg List.length h
  simpa using this

theorem call_getD_set_ne (reg : Vector (BitVec 64) 11) (j k : Nat) (v : BitVec 64) (h : j ≠ k) :
    (reg.setIfInBounds j v).getD k 0 = reg.getD k 0 := by
  simp [Vector.getD, h]

theorem call_getD_set_eq (reg : Vector (BitVec 64) 11) (k : Nat) (v : BitVec 64) (h : k < 11) :
    (reg.setIfInBounds k v).getD k 0 = v := by
  simp [Vector.getD, h]

/-- the helper call -/
theorem armSimC_call (clob : Nat → Nat → BitVec 64) (i : Insn) (h : i.opc = 0x85 ∧ i.src = 0) : ArmSimC clob i := by
  intro c tgt haddr pc n a b retAddr ais σ env s s' hclob hext harm hchk hb hrip hrel hlog hal hpc hex
  obtain ⟨addr, haddr', hn, hais⟩ := call_arm haddr pc n i _ ais h.1 h.2 harm
  subst hn; subst hais
  unfold jitExecC at hex
  rw [if_pos h] at hex
  obtain ⟨f, hf, hs'⟩ := call_helperC_next clob env s s' i.imm hex
  obtain ⟨tag, htag⟩ := hext.1 _ _ _ haddr' hf
  have haddrlt : addr < 2 ^ 64 := hext.2 _ _ haddr'
  have hlen := call_logRel_length σ s hlog
  obtain ⟨e0, e1, e2, e3, e4, e5, e6, e7, e8, e9, e10⟩ := regOf_vals
  -- the native stack
  obtain ⟨pre, base, size, top, hi, hns0, hsize, hexit⟩ := md_ns_of_rel0 retAddr σ s hrel
  have hsp0 : (σ.get 4).toNat + 8 = top := by simpa using hns0.sp
  -- push r10 ; mov rcx, r9 ; mov rax, addr
  obtain ⟨σ1, hst1, hget1, hns1⟩ := md_step_push c 10 hns0 (by simp; omega)
  have hst2 := md_step_movRR c σ1 9 1
  have hst3 := call_step_loadImm64 c (σ1.set 1 (σ1.get 9)) 0 (BitVec.ofNat 64 addr)
  have hns3 : md_NS pre base size top hi ((σ1.set 1 (σ1.get 9)).set 0 (BitVec.ofNat 64 addr)) ([retAddr] ++ [(σ.get 10).toNat]) :=
    md_ns_congr hns1 rfl (by rw [get_set_ne _ 0 4 _ (by omega), get_set_ne _ 1 4 _ (by omega)])
  have hg1 : ∀ k, k ≠ 4 → σ1.get k = σ.get k := fun k hk => by rw [hget1, get_set_ne _ 4 k _ (Ne.symm hk)]
  have hg3 : ∀ k, k ≠ 0 → k ≠ 1 → k ≠ 4 →
      ((σ1.set 1 (σ1.get 9)).set 0 (BitVec.ofNat 64 addr)).get k = σ.get k := fun k k0 k1 k4 => by
    rw [get_set_ne _ 0 k _ (Ne.symm k0), get_set_ne _ 1 k _ (Ne.symm k1), hg1 k k4]
  have hg3_0 : ((σ1.set 1 (σ1.get 9)).set 0 (BitVec.ofNat 64 addr)).get 0 = BitVec.ofNat 64 addr := get_set_eq _ 0 _ (by omega)
  have hg3_1 : ((σ1.set 1 (σ1.get 9)).set 0 (BitVec.ofNat 64 addr)).get 1 = σ.get 9 := by
    rw [get_set_ne _ 0 1 _ (by omega), get_set_eq _ 1 _ (by omega), hg1 9 (by omega)]
  have hsp3 : (((σ1.set 1 (σ1.get 9)).set 0 (BitVec.ofNat 64 addr)).get 4).toNat + 16 = top := by
    simpa using hns3.sp
  obtain ⟨m, hchk', hrun3⟩ := md_run c tgt [.push 10, JitAst.movRR 9 1, JitAst.loadImm 0 (BitVec.ofNat 64 addr).toInt]
    [.i (.callReg 0), .i (.pop 10)] a b σ _ hchk hrip (.cons hst1 (.cons hst2 (.cons hst3 (.nil _))))
  have hlog3 := md_steps_log (.cons hst1 (.cons hst2 (.cons hst3 (.nil _))))
  -- call rax
  obtain ⟨n4, hd4, hchk4⟩ := checkSeq_i _ _ _ _ _ _ hchk'
  generalize hσ3 : ((σ1.set 1 (σ1.get 9)).set 0 (BitVec.ofNat 64 addr)) = σ3 at *
  have hns3' : md_NS pre base size top hi { σ3 with rip := c.codeBase + m } ([retAddr] ++ [(σ.get 10).toNat]) := md_ns_congr hns3 rfl rfl
  have hext3 : c.ext (St.get { σ3 with rip := c.codeBase + m } 0).toNat = some (tag, f) := by
    rw [md_get_rip, hg3_0, BitVec.toNat_ofNat, Nat.mod_eq_of_lt haddrlt]
    exact htag
  obtain ⟨σp, hx4, hripp, hns4⟩ := call_exec_callReg c tag f hns3' (by simp; omega) hext3 (c.codeBase + m + n4)
  simp only [md_get_rip] at hx4 hns4
  generalize hσ4 : call_after c { σ3 with rip := c.codeBase + m } σp tag (f (σ3.get 7) (σ3.get 6) (σ3.get 2) (σ3.get 1) (σ3.get 8)) = σ4 at *
  have hstep4 : step c { σ3 with rip := c.codeBase + m } = .next σ4 := by
    rw [step_at c _ m n4 (.callReg 0) rfl hd4, hx4]
  have hrip4 : σ4.rip = c.codeBase + (m + n4) := by rw [← hσ4, call_after_rip, hripp, Nat.add_assoc]
  have hg4 : ∀ k, σ4.get k = if k = 0 then f (σ3.get 7) (σ3.get 6) (σ3.get 2) (σ3.get 1) (σ3.get 8)
      else if k = 1 ∨ k = 2 ∨ k = 6 ∨ k = 7 ∨ k = 8 ∨ k = 9 ∨ k = 10 ∨ k = 11 then c.clobber σ3.log.length k else σ3.get k := by
    intro k; rw [← hσ4, call_after_get]; rfl
  have hlog4 : σ4.log = σ3.log ++ [(tag, [σ3.get 7, σ3.get 6, σ3.get 2, σ3.get 1, σ3.get 8])] := by rw [← hσ4, call_after_log]; rfl
  have hmis4 : σ4.misaligned = if (σ3.get 4).toNat % 16 = 0 then σ3.misaligned else σ3.misaligned + 1 := by
    rw [← hσ4, call_after_misaligned]; rfl
  -- pop r10
  obtain ⟨hst5, hns5⟩ := md_step_pop c (v := σ.get 10) 10 hns4 (by omega)
  obtain ⟨m', hchk5, hrun5⟩ := md_run c tgt [.pop 10] [] (m + n4) b σ4 _ hchk4 hrip4 (md_steps_one hst5)
  rw [checkSeq_nil] at hchk5
  have hm' : m' = b := by injection hchk5
  subst hm'
  have hlog5 := md_steps_log (md_steps_one hst5)
  generalize hσ5 : (σ4.set 4 (σ4.get 4 + 8)).set 10 (σ.get 10) = σ5 at *
  have hg5 : ∀ k, k ≠ 4 → k ≠ 10 → σ5.get k = σ4.get k := fun k k4 k10 => by
    rw [← hσ5, get_set_ne _ 10 k _ (Ne.symm k10), get_set_ne _ 4 k _ (Ne.symm k4)]
  have hg5_10 : σ5.get 10 = σ.get 10 := by rw [← hσ5]; exact get_set_eq _ 10 _ (by omega)
  -- the arguments
  have hr1 := hrel.regs 1 (by omega); rw [e1] at hr1
  have hr2 := hrel.regs 2 (by omega); rw [e2] at hr2
  have hr3 := hrel.regs 3 (by omega); rw [e3] at hr3
  have hr4 := hrel.regs 4 (by omega); rw [e4] at hr4
  have hr5 := hrel.regs 5 (by omega); rw [e5] at hr5
  have ha1 : σ3.get 7 = s.reg.getD 1 0 := by rw [hg3 7 (by omega) (by omega) (by omega)]; exact hr1
  have ha2 : σ3.get 6 = s.reg.getD 2 0 := by rw [hg3 6 (by omega) (by omega) (by omega)]; exact hr2
  have ha3 : σ3.get 2 = s.reg.getD 3 0 := by rw [hg3 2 (by omega) (by omega) (by omega)]; exact hr3
  have ha4 : σ3.get 1 = s.reg.getD 4 0 := by rw [hg3_1]; exact hr4
  have ha5 : σ3.get 8 = s.reg.getD 5 0 := by rw [hg3 8 (by omega) (by omega) (by omega)]; exact hr5
  rw [ha1, ha2, ha3, ha4, ha5] at hg4 hlog4
  rw [hlog3.1, hlen, hclob] at hg4
  -- assembling
  have hsteps : stepsN c (3 + 1 + 1) σ = some { σ5 with rip := c.codeBase + m' } :=
    stepsN_add c _ _ _ _ _ (stepsN_add c _ _ _ _ _ hrun3 (stepsN_one c _ _ hstep4)) hrun5
  have hmem' : s'.mem = s.mem := by rw [hs']
  have hregs : ∀ k, k < 11 → St.get { σ5 with rip := c.codeBase + m' } (regOf k) = s'.reg.getD k 0 := by
    intro k hk
    rw [md_get_rip, hs', call_clobberRegs_eq]
    have hold : ∀ r, r ≠ 0 → r ≠ 1 → r ≠ 4 → r ≠ 10 → ¬ (r = 1 ∨ r = 2 ∨ r = 6 ∨ r = 7 ∨ r = 8 ∨ r = 9 ∨ r = 10 ∨ r = 11) →
        σ5.get r = σ.get r := fun r q0 q1 q4 q10 qc => by
      rw [hg5 r q4 q10, hg4 r, if_neg q0, if_neg qc, hg3 r q0 q1 q4]
    have hcl : ∀ r, r ≠ 0 → r ≠ 4 → r ≠ 10 → (r = 1 ∨ r = 2 ∨ r = 6 ∨ r = 7 ∨ r = 8 ∨ r = 9 ∨ r = 10 ∨ r = 11) →
        σ5.get r = clob s.log.length r := fun r q0 q4 q10 qc => by
      rw [hg5 r q4 q10, hg4 r, if_neg q0, if_pos qc]
    match k, hk with
    | 0, _ =>
      rw [e0, hg5 0 (by omega) (by omega), hg4 0, if_pos rfl]
      simp only [call_getD_set_ne _ _ 0 _ (show 5 ≠ 0 by omega), call_getD_set_ne _ _ 0 _ (show 4 ≠ 0 by omega),
        call_getD_set_ne _ _ 0 _ (show 3 ≠ 0 by omega), call_getD_set_ne _ _ 0 _ (show 2 ≠ 0 by omega),
        call_getD_set_ne _ _ 0 _ (show 1 ≠ 0 by omega), call_getD_set_eq _ 0 _ (show 0 < 11 by omega)]
    | 1, _ =>
      rw [e1, hcl 7 (by omega) (by omega) (by omega) (by omega)]
      simp only [call_getD_set_ne _ _ 1 _ (show 5 ≠ 1 by omega), call_getD_set_ne _ _ 1 _ (show 4 ≠ 1 by omega),
        call_getD_set_ne _ _ 1 _ (show 3 ≠ 1 by omega), call_getD_set_ne _ _ 1 _ (show 2 ≠ 1 by omega),
        call_getD_set_eq _ 1 _ (show 1 < 11 by omega)]
    | 2, _ =>
      rw [e2, hcl 6 (by omega) (by omega) (by omega) (by omega)]
      simp only [call_getD_set_ne _ _ 2 _ (show 5 ≠ 2 by omega), call_getD_set_ne _ _ 2 _ (show 4 ≠ 2 by omega),
        call_getD_set_ne _ _ 2 _ (show 3 ≠ 2 by omega), call_getD_set_eq _ 2 _ (show 2 < 11 by omega)]
    | 3, _ =>
      rw [e3, hcl 2 (by omega) (by omega) (by omega) (by omega)]
      simp only [call_getD_set_ne _ _ 3 _ (show 5 ≠ 3 by omega), call_getD_set_ne _ _ 3 _ (show 4 ≠ 3 by omega),
        call_getD_set_eq _ 3 _ (show 3 < 11 by omega)]
    | 4, _ =>
      rw [e4, hcl 9 (by omega) (by omega) (by omega) (by omega)]
      simp only [call_getD_set_ne _ _ 4 _ (show 5 ≠ 4 by omega), call_getD_set_eq _ 4 _ (show 4 < 11 by omega)]
    | 5, _ =>
      rw [e5, hcl 8 (by omega) (by omega) (by omega) (by omega)]
      simp only [call_getD_set_eq _ 5 _ (show 5 < 11 by omega)]
    | k + 6, hk6 =>
      have hne : ∀ j, j < 6 → j ≠ k + 6 := fun j hj => by omega
      simp only [call_getD_set_ne _ _ (k + 6) _ (hne 5 (by omega)), call_getD_set_ne _ _ (k + 6) _ (hne 4 (by omega)),
        call_getD_set_ne _ _ (k + 6) _ (hne 3 (by omega)), call_getD_set_ne _ _ (k + 6) _ (hne 2 (by omega)),
        call_getD_set_ne _ _ (k + 6) _ (hne 1 (by omega)), call_getD_set_ne _ _ (k + 6) _ (hne 0 (by omega))]
      rw [← hrel.regs (k + 6) hk6]
      have hk5 : k < 5 := by omega
      match k, hk5 with
      | 0, _ => rw [e6]; exact hold 3 (by omega) (by omega) (by omega) (by omega) (by omega)
      | 1, _ => rw [e7]; exact hold 13 (by omega) (by omega) (by omega) (by omega) (by omega)
      | 2, _ => rw [e8]; exact hold 14 (by omega) (by omega) (by omega) (by omega) (by omega)
      | 3, _ => rw [e9]; exact hold 15 (by omega) (by omega) (by omega) (by omega) (by omega)
      | 4, _ => rw [e10]; exact hold 5 (by omega) (by omega) (by omega) (by omega) (by omega)
  obtain ⟨hrel', htop, hkept⟩ := hexit { σ5 with rip := c.codeBase + m' } s' (md_ns_congr hns5 rfl rfl) hmem' (by rw [hs'])
    hregs (by rw [md_get_rip, hg5_10])
  refine ⟨3 + 1 + 1, _, hsteps, hrel', ?_, htop, ?_, by rw [hmem'], by rw [hs'], hkept, Or.inl ⟨by rw [hs']; exact hpc, rfl⟩⟩
  · -- the logs
    show List.map (·.2) σ5.log = List.map (·.2) s'.log
    rw [hlog5.1, hlog4, hlog3.1, hs']
    simp only [List.map_append, List.map_cons, List.map_nil]
    rw [hlog]
  · -- alignment of the stack at the call
    show σ5.misaligned = σ.misaligned
    rw [hlog5.2, hmis4, hlog3.2, if_pos]
    have := hrel.rsp
    have e : σ.get X86.RSP = σ.get 4 := rfl
    rw [e] at this
    omega

end Rbpf.JitSim
