/-
  Whole-program simulation, part 2: steps, the top-level `exit` and runs, with the per-instruction simulation facts
  (`ArmSim` for every covered opcode) as a hypothesis `hA`.  `Whole.lean` instantiates `hA` with the class lemmas.
-/
import RbpfModel.Lemmas.X86Sim.WholeAux
namespace Rbpf.JitSim
open Rbpf.X86 (Cfg St Out Instr step exec decode fetch readMem writeMem)
open Rbpf.JitAst (AI Tgt checkSeq window)

def whole_coveredOpcodes : List Nat := aluOpcodes ++ mulDivOpcodes ++ jumpOpcodes ++ memOpcodes

def whole_Covered (p : Bytes) : Prop := ∀ x ∈ whole_starts p, x.2.opc.toNat ∈ whole_coveredOpcodes ∨ x.2.opc.toNat = 0x95

/-- `Rel` of `Whole.lean` over `whole_starts` -/
structure whole_Rel (c : Cfg) (p : Bytes) (L : JitAst.Layout) (retAddr : Nat) (top : List (BitVec 8)) (σ : St) (s : State) : Prop where
  rel0 : Rel0 retAddr σ s
  top : topBytes σ s = some top
  start : ∃ i, (s.pc, i) ∈ whole_starts p
  rip : ∃ l, L.pcLocs[s.pc]? = some l ∧ σ.rip = c.codeBase + l
  depth0 : s.frames = []

theorem whole_arm_n (haddr : Nat → Option Nat) (pc : Nat) (i : Insn) (nx : Option Insn) (ais : List AI) (n : Nat)
    (h : JitAst.arm haddr pc i nx = .ok (ais, n)) : n = (if i.opc = 0x18 then 2 else 1) := by
  have h1 := (whole_arm_shape haddr pc i nx ais n h).1
  have h2 := whole_opc_eq i.opc 0x18 (by decide)
  by_cases h18 : i.opc.toNat = 0x18
  · rw [if_pos h18] at h1
    have h3 : i.opc = 0x18 := h2.mpr h18
    rw [if_pos h3]
    exact h1
  · rw [if_neg h18] at h1
    have h3 : ¬ i.opc = 0x18 := fun hh => h18 (h2.mp hh)
    rw [if_neg h3]
    exact h1

/-- a step at an instruction start that does not panic executes the instruction found there -/
theorem whole_jitStep_at (env : Env) (s : State) (i : Insn) (h : (s.pc, i) ∈ whole_starts env.prog) :
    EngineSem.jitStep env s = EngineSem.jitExec env { s with pc := s.pc + 1 } i := by
  obtain ⟨hget, hlt⟩ := whole_starts_mem _ _ _ h
  unfold EngineSem.jitStep
  rw [if_pos hlt, hget]

/-- a taken jump lands on an instruction start -/
theorem whole_tgt_pc (p : Bytes) (L : JitAst.Layout) (pc l : Nat) (h : whole_tgt p L (.pc (pc : Int)) = some l) :
    (∃ j, (pc, j) ∈ whole_starts p) ∧ L.pcLocs[pc]? = some l := by
  simp only [whole_tgt] at h
  split at h
  · next hc =>
    obtain ⟨-, hany⟩ := hc
    rw [Int.toNat_natCast] at h
    refine ⟨?_, h⟩
    rw [List.any_eq_true] at hany
    obtain ⟨⟨k, j⟩, hm, hk⟩ := hany
    simp only [beq_iff_eq] at hk
    have : k = pc := by omega
    subst this
    exact ⟨j, hm⟩
  · simp at h

/-- the top-level `exit` -/
theorem whole_exit_sim (env : Env) (haddr : Nat → Option Nat) (um ud : Bool) (c : Cfg) (L : JitAst.Layout) (retAddr : Nat)
    (top : List (BitVec 8)) (σ : St) (s s' : State) (r0 : BitVec 64)
    (hv : JitAst.validate env.prog haddr um ud c.code L = true)
    (hret : BitVec.ofNat 64 retAddr ≠ c.retSentinel) (hretlt : retAddr < 2 ^ 64)
    (hrel : whole_Rel c env.prog L retAddr top σ s) (hstep : EngineSem.jitStep env s = .done r0 s') :
    ∃ σ', stepsN c 1 σ = some σ' ∧ σ'.rip = retAddr ∧ σ'.get 0 = r0 ∧ MemRel σ'.mem s'.mem ∧
      (σ'.get X86.RSP).toNat = s'.mem.stack.base ∧ topBytes σ' s' = some top ∧
      σ'.log = σ.log ∧ σ'.misaligned = σ.misaligned ∧ s'.log = s.log := by
  obtain ⟨hrel0, htop, ⟨i, hstart⟩, ⟨a, hloc, hrip⟩, hd0⟩ := hrel
  rw [whole_jitStep_at env s i hstart] at hstep
  have h95 := whole_jitExec_done env _ i r0 s' hstep
  rw [whole_jitExec_exit env { s with pc := s.pc + 1 } i h95 hd0] at hstep
  simp only [Outcome.done.injEq] at hstep
  obtain ⟨hr0, hs'⟩ := hstep
  subst hs'
  obtain ⟨ais, n, a', b, harm, hloc', hchk, -⟩ := whole_validate_arm env.prog haddr um ud c.code L hv s.pc i hstart
  rw [hloc] at hloc'
  cases hloc'
  have hais := (whole_arm_shape haddr s.pc i _ ais n harm).2 h95
  subst hais
  obtain ⟨σ', h1, h2, h3, h4, h5, h6, h7⟩ := whole_exit_machine c (whole_tgt env.prog L) retAddr σ s a b hchk hrip hrel0 hd0 hret hretlt
  refine ⟨σ', h1, h2, h3.trans hr0, ?_, h5, ?_, h6, h7, rfl⟩
  · rw [h4]; exact hrel0.mem
  · unfold topBytes at htop ⊢
    rw [h4]; exact htop

/-- a run that returns a value started with a step that is `.done`, or `.next` followed by such a run -/
theorem whole_jitRun_done (env : Env) (s s' : State) (fuel : Nat) (r0 : BitVec 64)
    (h : EngineSem.jitRun env s (fuel + 1) = .done r0 s') :
    EngineSem.jitStep env s = .done r0 s' ∨ ∃ s1, EngineSem.jitStep env s = .next s1 ∧ EngineSem.jitRun env s1 fuel = .done r0 s' := by
  simp only [EngineSem.jitRun] at h
  split at h
  · next s1 h1 => exact Or.inr ⟨s1, h1, h⟩
  · next r s2 h1 =>
    simp only [Interp.Result.done.injEq] at h
    obtain ⟨rfl, rfl⟩ := h
    exact Or.inl h1
  · cases h
  · cases h
  · cases h

/-- a run that returns a value starts where an instruction can be read -/
theorem whole_jitRun_start (env : Env) (s s' : State) (fuel : Nat) (r0 : BitVec 64)
    (h : EngineSem.jitRun env s fuel = .done r0 s') : (getInsn? env.prog s.pc).isSome := by
  cases fuel with
  | zero => simp [EngineSem.jitRun] at h
  | succ fuel =>
    have hne : EngineSem.jitStep env s ≠ .panic := by
      rcases whole_jitRun_done env s s' fuel r0 h with h1 | ⟨s1, h1, -⟩ <;> rw [h1] <;> simp
    unfold EngineSem.jitStep at hne
    split at hne
    · split at hne
      · exact absurd rfl hne
      · next insn hi => rw [hi]; rfl
    · exact absurd rfl hne

section
variable (hA : ∀ i : Insn, i.opc.toNat ∈ whole_coveredOpcodes → ArmSim i)
include hA

/-- one continuing step; the relation holds again if an instruction can be read at the new pc -/
theorem whole_step_sim (env : Env) (haddr : Nat → Option Nat) (um ud : Bool) (c : Cfg) (L : JitAst.Layout) (retAddr : Nat)
    (top : List (BitVec 8)) (σ : St) (s s' : State)
    (hv : JitAst.validate env.prog haddr um ud c.code L = true) (hcov : whole_Covered env.prog)
    (hsize : c.codeBase + c.code.size < 2 ^ 63)
    (hrel : whole_Rel c env.prog L retAddr top σ s) (hstep : EngineSem.jitStep env s = .next s') :
    ∃ k σ', stepsN c k σ = some σ' ∧
      ((getInsn? env.prog s'.pc).isSome → whole_Rel c env.prog L retAddr top σ' s') := by
  obtain ⟨hrel0, htop, ⟨i, hstart⟩, ⟨a, hloc, hrip⟩, hd0⟩ := hrel
  rw [whole_jitStep_at env s i hstart] at hstep
  have hopc : i.opc.toNat ∈ whole_coveredOpcodes := by
    rcases hcov _ hstart with h | h
    · exact h
    · rw [whole_jitExec_exit env { s with pc := s.pc + 1 } i h hd0] at hstep
      cases hstep
  obtain ⟨ais, n, a', b, harm, hloc', hchk, hlocb⟩ := whole_validate_arm env.prog haddr um ud c.code L hv s.pc i hstart
  rw [hloc] at hloc'
  cases hloc'
  have hb : b ≤ c.code.size := whole_locOf_le env.prog haddr um ud c.code L hv _ b hlocb
  obtain ⟨k, σ', hk, hrel0', htop', -, -, -, hfr, -, hdisj⟩ :=
    hA i hopc c (whole_tgt env.prog L) haddr s.pc n a b retAddr ais σ env { s with pc := s.pc + 1 } s' harm hchk (by omega) hrip
      (rel0_pc retAddr σ s _ hrel0) rfl hstep
  refine ⟨k, σ', hk, fun hsome => ?_⟩
  have htop'' : topBytes σ' s' = some top := htop'.trans htop
  have hd0' : s'.frames = [] := hfr.trans hd0
  rcases hdisj with ⟨hpc, hrip'⟩ | ⟨l, htgt, hrip'⟩
  · obtain ⟨j, hj⟩ := Option.isSome_iff_exists.mp hsome
    have hn := whole_arm_n haddr s.pc i _ ais n harm
    have hj' : getInsn? env.prog (s.pc + (if i.opc = 0x18 then 2 else 1)) = some j := by rw [← hn, ← hpc]; exact hj
    have hnext := whole_starts_next env.prog s.pc i j hstart hj'
    rw [← hn, ← hpc] at hnext
    have hlt := (whole_starts_mem _ _ _ hnext).2
    refine ⟨hrel0', htop'', ⟨j, hnext⟩, ⟨b, ?_, hrip'⟩, hd0'⟩
    unfold whole_locOf at hlocb
    rw [← hpc, if_pos hlt] at hlocb
    exact hlocb
  · obtain ⟨hst, hl⟩ := whole_tgt_pc env.prog L s'.pc l htgt
    exact ⟨hrel0', htop'', hst, ⟨l, hl, hrip'⟩, hd0'⟩


/-- runs -/
theorem whole_run_sim (env : Env) (haddr : Nat → Option Nat) (um ud : Bool) (c : Cfg) (L : JitAst.Layout) (retAddr : Nat)
    (top : List (BitVec 8)) (fuel : Nat) (σ : St) (s s' : State) (r0 : BitVec 64)
    (hv : JitAst.validate env.prog haddr um ud c.code L = true) (hcov : whole_Covered env.prog)
    (hsize : c.codeBase + c.code.size < 2 ^ 63)
    (hret : BitVec.ofNat 64 retAddr ≠ c.retSentinel) (hretlt : retAddr < 2 ^ 64)
    (hrel : whole_Rel c env.prog L retAddr top σ s)
    (hrun : EngineSem.jitRun env s fuel = .done r0 s') :
    ∃ k σ', stepsN c k σ = some σ' ∧ σ'.rip = retAddr ∧ σ'.get 0 = r0 ∧ MemRel σ'.mem s'.mem ∧
      (σ'.get X86.RSP).toNat = s'.mem.stack.base ∧ topBytes σ' s' = some top := by
  induction fuel generalizing σ s with
  | zero => simp [EngineSem.jitRun] at hrun
  | succ fuel ih =>
    rcases whole_jitRun_done env s s' fuel r0 hrun with h1 | ⟨s1, h1, h2⟩
    · obtain ⟨σ', hk, h2, h3, h4, h5, h6, -⟩ := whole_exit_sim env haddr um ud c L retAddr top σ s s' r0 hv hret hretlt hrel h1
      exact ⟨1, σ', hk, h2, h3, h4, h5, h6⟩
    · obtain ⟨k1, σ1, hk1, hrel1⟩ := whole_step_sim hA env haddr um ud c L retAddr top σ s s1 hv hcov hsize hrel h1
      have hrel1' := hrel1 (whole_jitRun_start env s1 s' fuel r0 h2)
      obtain ⟨k2, σ2, hk2, rest⟩ := ih σ1 s1 hrel1' h2
      exact ⟨k1 + k2, σ2, stepsN_add c k1 k2 σ σ1 σ2 hk1 hk2, rest⟩

end

end Rbpf.JitSim
