/-
  Soundness of the dynamic taint analysis (`Model/Taint.lean`): non-interference of the accepted runs with the
  registers, stack bytes and post-call argument registers it tags `dirty`.
-/
import RbpfModel.Model.Taint
import RbpfModel.Props.C03x86
namespace Rbpf
open Rbpf.JitSim

theorem taint_clobIndep (env : Env) (m : Memory) (fuel : Nat) (ptrSlots patched : List Nat) (t : Taint.TState)
    (r0 : BitVec 64) (sfin : State)
    (hl : NoLocalCall env.prog) (h7 : NoF7 env.prog)
    (hrun : Taint.run env ptrSlots patched fuel (Taint.init m) = (t, .done r0 sfin)) (hin : t.inClaim = true) :
    ClobIndep env m fuel := by
  sorry

end Rbpf
