/-
  Soundness of the dynamic taint analysis (`Model/Taint.lean`): non-interference of the accepted runs with the
  registers, stack bytes and post-call argument registers it tags `dirty`.
  Parts: `TaintBase.lean` (low-equivalence, memory), `TaintStep.lean` (instruction by instruction), `TaintRun.lean`
  (steps, runs); here the statement the property file uses.
-/
import RbpfModel.Model.Taint
import RbpfModel.Props.C03x86
import RbpfModel.Lemmas.TaintRun
namespace Rbpf
open Rbpf.JitSim
open Taint (Tag TState)

theorem taint_apart_of_disj (r s : Region)
    (h : ∀ a w, 0 < w → s.contains a w = true → r.contains a w = false) : taint_Apart r s := by
  unfold taint_Apart
  by_cases h1 : r.base + r.bytes.size ≤ s.base
  · exact .inl h1
  by_cases h2 : s.base + s.bytes.size ≤ r.base
  · exact .inr (.inl h2)
  by_cases h3 : r.bytes.size = 0
  · exact .inr (.inr (.inl h3))
  by_cases h4 : s.bytes.size = 0
  · exact .inr (.inr (.inr h4))
  exfalso
  rcases Nat.le_total r.base s.base with hle | hle
  · have hc := h s.base 1 (by omega)
      (by simp only [Region.contains, Bool.and_eq_true, decide_eq_true_eq]; omega)
    simp only [Region.contains, Bool.and_eq_false_iff, decide_eq_false_iff_not] at hc
    omega
  · have hc := h r.base 1 (by omega)
      (by simp only [Region.contains, Bool.and_eq_true, decide_eq_true_eq]; omega)
    simp only [Region.contains, Bool.and_eq_false_iff, decide_eq_false_iff_not] at hc
    omega

/-- initially only r1 and r10 carry a tag other than `dirty` -/
theorem taint_init_low (m : Memory) (r : Nat) (h : (Taint.init m).rt.getD r .dirty ≠ .dirty) : r = 1 ∨ r = 10 := by
  have hrt : (Taint.init m).rt = ((Array.replicate 11 Tag.dirty).setIfInBounds 1 .pkt).setIfInBounds 10 .stk := rfl
  rw [hrt, taint_getD_set, taint_getD_set] at h
  by_cases h10 : r = 10
  · exact .inr h10
  by_cases h1 : r = 1
  · exact .inl h1
  rw [if_neg (by omega), if_neg (by omega)] at h
  exfalso
  apply h
  rw [Array.getD_eq_getD_getElem?, Array.getElem?_replicate]
  split <;> rfl

theorem taint_clobIndep (env : Env) (m : Memory) (fuel : Nat) (ptrSlots patched : List Nat) (t : Taint.TState)
    (r0 : BitVec 64) (sfin : State)
    (hl : NoLocalCall env.prog) (h7 : NoF7 env.prog)
    (hdisj : ∀ a w, 0 < w → m.stack.contains a w = true → m.mbuff.contains a w = false ∧ m.mem.contains a w = false)
    (hrun : Taint.run env ptrSlots patched fuel (Taint.init m) = (t, .done r0 sfin)) (hin : t.inClaim = true) :
    ClobIndep env m fuel := by
  intro clob s hpc hfr hmem hlog h1 h10 r0' afin hjit
  have hap : StackApart m :=
    ⟨taint_apart_of_disj _ _ fun a w hw hs => (hdisj a w hw hs).1,
     taint_apart_of_disj _ _ fun a w hw hs => (hdisj a w hw hs).2⟩
  have hA : taint_LowEq (Taint.init m).rt (Taint.init m).st (Taint.init m).s (Interp.init m) :=
    ⟨rfl, rfl, rfl, rfl, fun _ _ => rfl, taint_memEq_refl _ _ hap⟩
  have hB : taint_LowEq (Taint.init m).rt (Taint.init m).st (Taint.init m).s s := by
    refine ⟨hpc, rfl, hfr, hlog, ?_, ?_⟩
    · intro r hr
      rcases taint_init_low m r hr with rfl | rfl
      · exact h1
      · exact h10
    · show taint_MemEq _ m s.mem
      rw [hmem]; exact taint_memEq_refl _ _ hap
  obtain ⟨ua, hua, hfa⟩ := taint_run_sim none env ptrSlots patched hl h7 fuel _ _ t r0 sfin hrun hin rfl hA
  obtain ⟨ub, hub, hfb⟩ := taint_run_sim (some clob) env ptrSlots patched hl h7 fuel _ _ t r0 sfin hrun hin rfl hB
  rw [taint_runB_none] at hua
  rw [taint_runB_some] at hub
  rw [hua] at hjit
  cases hjit
  exact ⟨ub, hub, ⟨hfb.2.1.trans hfa.2.1.symm, hfb.2.2.1.trans hfa.2.2.1.symm, hfb.2.2.2.trans hfa.2.2.2.symm⟩,
    hfb.1.trans hfa.1.symm⟩

end Rbpf
