/-
  Soundness of the dynamic taint analysis, part 2: what `Taint.stepTags` does to the tags, instruction by instruction
  (`taint_tags_*`), and the per-instruction simulation lemmas: if the analysed run executes the instruction and stays
  inside the claim, any low-equivalent run executes it too and stays low-equivalent under the new tags.
-/
import RbpfModel.Lemmas.TaintBase
namespace Rbpf
open Interp Isa
open Taint (Tag TState stepTags)

def taint_otag (rt : Array Tag) : Operand → Tag
  | .reg r => rt.getD r .dirty
  | .imm _ => .clean

def taint_ea (t : TState) (r : Nat) (off : BitVec 16) : Nat := ((t.s.reg[r]?).getD 0 + off.signExtend 64).toNat

def taint_indAddr (t : TState) (src : Nat) (imm : BitVec 32) : Nat :=
  (BitVec.ofNat 64 t.s.mem.mem.base + (t.s.reg[src]?).getD 0 + imm.setWidth 64).toNat

def taint_stkTag (t : TState) (a w : Nat) : Tag :=
  Taint.combine ((List.range w).map fun k => t.st.getD (a - t.s.mem.stack.base + k) .dirty) w

theorem taint_stackRange (t : TState) (a w : Nat) :
    Taint.stackRange t a w = if t.s.mem.stack.contains a w then some (a - t.s.mem.stack.base) else none := by
  simp [Taint.stackRange, Region.contains]

/-! ### the tags after each instruction -/

theorem taint_tags_alu (t : TState) (w : Width) (op : AluOp) (dst : Nat) (src : Operand) (ps : List Nat) :
    (stepTags t (.alu w op dst src) ps).rt =
      t.rt.setIfInBounds dst (Taint.aluTag w op (t.rt.getD dst .dirty) (taint_otag t.rt src)) ∧
    (stepTags t (.alu w op dst src) ps).st = t.st ∧
    (stepTags t (.alu w op dst src) ps).saved = t.saved ∧
    ((stepTags t (.alu w op dst src) ps).inClaim = true →
      t.inClaim = true ∧ ((op = .div ∨ op = .mod) → taint_otag t.rt src = .clean)) := by
  cases src <;> simp only [taint_otag] <;> simp only [stepTags] <;> split
  · exact ⟨rfl, rfl, rfl, fun h => by cases h⟩
  · next hc => exact ⟨rfl, rfl, rfl, fun h => ⟨h, fun hop => Classical.not_not.1 (fun hn => hc ⟨hop, hn⟩)⟩⟩
  · exact ⟨rfl, rfl, rfl, fun h => by cases h⟩
  · exact ⟨rfl, rfl, rfl, fun h => ⟨h, fun _ => trivial⟩⟩

theorem taint_tags_endian (t : TState) (big : Bool) (n dst : Nat) (ps : List Nat) :
    (stepTags t (.endian big n dst) ps).rt =
      t.rt.setIfInBounds dst (if t.rt.getD dst .dirty = .clean then .clean else .dirty) ∧
    (stepTags t (.endian big n dst) ps).st = t.st ∧ (stepTags t (.endian big n dst) ps).saved = t.saved ∧
    (stepTags t (.endian big n dst) ps).inClaim = t.inClaim :=
  ⟨rfl, rfl, rfl, rfl⟩

theorem taint_tags_lddw (t : TState) (dst : Nat) (lo : BitVec 32) (ps : List Nat) :
    (stepTags t (.lddw dst lo) ps).rt = t.rt.setIfInBounds dst .clean ∧
    (stepTags t (.lddw dst lo) ps).st = t.st ∧ (stepTags t (.lddw dst lo) ps).saved = t.saved ∧
    (stepTags t (.lddw dst lo) ps).inClaim = t.inClaim :=
  ⟨rfl, rfl, rfl, rfl⟩

theorem taint_tags_ldabs (t : TState) (w : Nat) (imm : BitVec 32) (ps : List Nat) :
    (stepTags t (.ldabs w imm) ps).rt =
      t.rt.setIfInBounds 0 (if t.s.mem.stack.contains (t.s.mem.mem.base + imm.toNat) w then .dirty else .clean) ∧
    (stepTags t (.ldabs w imm) ps).st = t.st ∧ (stepTags t (.ldabs w imm) ps).saved = t.saved ∧
    ((stepTags t (.ldabs w imm) ps).inClaim = true → t.inClaim = true) := by
  cases hs : t.s.mem.stack.contains (t.s.mem.mem.base + imm.toNat) w <;>
    refine ⟨?_, ?_, ?_, ?_⟩ <;>
    simp only [stepTags, taint_stackRange, hs, Bool.false_eq_true, ↓reduceIte, false_implies, imp_self]

theorem taint_tags_ldind (t : TState) (w src : Nat) (imm : BitVec 32) (ps : List Nat) :
    (stepTags t (.ldind w src imm) ps).rt =
      t.rt.setIfInBounds 0
        (if t.s.mem.stack.contains (taint_indAddr t src imm) w then
          (if t.rt.getD src .dirty = .clean then .dirty
           else if t.s.mem.mem.bytes.size = 0 ∧ t.s.mem.mem.base = 0 ∧ t.rt.getD src .dirty = .stk then
             taint_stkTag t (taint_indAddr t src imm) w
           else .dirty)
         else (if t.rt.getD src .dirty = .clean then .clean else .dirty)) ∧
    (stepTags t (.ldind w src imm) ps).st = t.st ∧ (stepTags t (.ldind w src imm) ps).saved = t.saved ∧
    ((stepTags t (.ldind w src imm) ps).inClaim = true → t.inClaim = true ∧ t.rt.getD src .dirty ≠ .dirty) := by
  unfold taint_indAddr taint_stkTag
  by_cases h1 : t.rt.getD src .dirty = .clean
  · cases hs : t.s.mem.stack.contains (BitVec.ofNat 64 t.s.mem.mem.base + (t.s.reg[src]?).getD 0 + imm.setWidth 64).toNat w <;>
      refine ⟨?_, ?_, ?_, ?_⟩ <;>
      simp only [stepTags, taint_stackRange, hs, h1, Bool.false_eq_true, ↓reduceIte, ne_eq, reduceCtorEq,
        not_false_eq_true, false_implies, and_true, imp_self]
  · by_cases h2 : t.s.mem.mem.bytes.size = 0 ∧ t.s.mem.mem.base = 0 ∧ t.rt.getD src .dirty = .stk
    · have h3 : t.rt.getD src .dirty ≠ .dirty := by rw [h2.2.2]; exact fun h => by cases h
      cases hs : t.s.mem.stack.contains (BitVec.ofNat 64 t.s.mem.mem.base + (t.s.reg[src]?).getD 0 + imm.setWidth 64).toNat w <;>
        refine ⟨?_, ?_, ?_, ?_⟩ <;>
        simp only [stepTags, taint_stackRange, hs, if_neg h1, if_pos h2, Bool.false_eq_true, ↓reduceIte, false_implies] <;>
        exact fun h => ⟨h, h3⟩
    · cases hs : t.s.mem.stack.contains (BitVec.ofNat 64 t.s.mem.mem.base + (t.s.reg[src]?).getD 0 + imm.setWidth 64).toNat w <;>
        refine ⟨?_, ?_, ?_, ?_⟩ <;>
        simp only [stepTags, taint_stackRange, hs, if_neg h1, if_neg h2, Bool.false_eq_true, ↓reduceIte, false_implies]

theorem taint_tags_ldx (t : TState) (w dst src : Nat) (off : BitVec 16) (ps : List Nat) :
    (stepTags t (.ldx w dst src off) ps).rt =
      t.rt.setIfInBounds dst
        (if t.s.mem.stack.contains (taint_ea t src off) w then taint_stkTag t (taint_ea t src off) w
         else if w = 8 ∧ ps.contains (taint_ea t src off) then .pkt else .clean) ∧
    (stepTags t (.ldx w dst src off) ps).st = t.st ∧
    (stepTags t (.ldx w dst src off) ps).saved = t.saved ∧
    ((stepTags t (.ldx w dst src off) ps).inClaim = true → t.inClaim = true ∧ t.rt.getD src .dirty ≠ .dirty) := by
  unfold taint_stkTag taint_ea
  by_cases hc : t.rt.getD src .dirty = .dirty <;>
    cases hs : t.s.mem.stack.contains ((t.s.reg[src]?).getD 0 + off.signExtend 64).toNat w <;>
    refine ⟨?_, ?_, ?_, ?_⟩ <;> simp only [stepTags, taint_stackRange, hc, hs, Bool.false_eq_true, ↓reduceIte] <;>
    first | (intro h; cases h) | exact fun h => ⟨h, hc⟩

theorem taint_tags_st (t : TState) (w dst : Nat) (off : BitVec 16) (imm : BitVec 32) (ps : List Nat) :
    (stepTags t (.st w dst off imm) ps).rt = t.rt ∧
    (stepTags t (.st w dst off imm) ps).st =
      (if t.s.mem.stack.contains (taint_ea t dst off) w then
        Taint.setStack t.st (taint_ea t dst off - t.s.mem.stack.base) w .clean else t.st) ∧
    (stepTags t (.st w dst off imm) ps).saved = t.saved ∧
    ((stepTags t (.st w dst off imm) ps).inClaim = true → t.inClaim = true ∧ t.rt.getD dst .dirty ≠ .dirty) := by
  unfold taint_ea
  by_cases hc : t.rt.getD dst .dirty = .dirty <;>
    cases hs : t.s.mem.stack.contains ((t.s.reg[dst]?).getD 0 + off.signExtend 64).toNat w <;>
    refine ⟨?_, ?_, ?_, ?_⟩ <;> simp only [stepTags, taint_stackRange, hc, hs, Bool.false_eq_true, ↓reduceIte] <;>
    first | (intro h; cases h) | exact fun h => ⟨h, hc⟩

theorem taint_tags_stx (t : TState) (w dst : Nat) (off : BitVec 16) (src : Nat) (ps : List Nat) :
    (stepTags t (.stx w dst off src) ps).rt = t.rt ∧
    (stepTags t (.stx w dst off src) ps).st =
      (if t.s.mem.stack.contains (taint_ea t dst off) w then
        Taint.setStack t.st (taint_ea t dst off - t.s.mem.stack.base) w
          (if w = 8 then t.rt.getD src .dirty else if t.rt.getD src .dirty = .clean then .clean else .dirty)
       else t.st) ∧
    (stepTags t (.stx w dst off src) ps).saved = t.saved ∧
    ((stepTags t (.stx w dst off src) ps).inClaim = true → t.inClaim = true ∧ t.rt.getD dst .dirty ≠ .dirty ∧
      (t.s.mem.stack.contains (taint_ea t dst off) w = false → t.rt.getD src .dirty = .clean)) := by
  unfold taint_ea
  by_cases hc : t.rt.getD dst .dirty = .dirty <;>
    cases hs : t.s.mem.stack.contains ((t.s.reg[dst]?).getD 0 + off.signExtend 64).toNat w <;>
    by_cases hg : t.rt.getD src .dirty = .clean <;>
    refine ⟨?_, ?_, ?_, ?_⟩ <;>
    simp only [stepTags, taint_stackRange, hc, hs, hg, Bool.false_eq_true, ↓reduceIte, ne_eq, not_true_eq_false,
      not_false_eq_true, false_implies, implies_true, true_and, and_true, and_self, reduceCtorEq, imp_self]

theorem taint_tags_xadd (t : TState) (w dst : Nat) (off : BitVec 16) (src : Nat) (ps : List Nat) :
    (stepTags t (.xadd w dst off src) ps).rt = t.rt ∧
    (stepTags t (.xadd w dst off src) ps).st =
      (if t.s.mem.stack.contains (taint_ea t dst off) w then
        Taint.setStack t.st (taint_ea t dst off - t.s.mem.stack.base) w
          (if taint_stkTag t (taint_ea t dst off) w = .clean ∧ t.rt.getD src .dirty = .clean then .clean else .dirty)
       else t.st) ∧
    (stepTags t (.xadd w dst off src) ps).saved = t.saved ∧
    ((stepTags t (.xadd w dst off src) ps).inClaim = true → t.inClaim = true ∧ t.rt.getD dst .dirty ≠ .dirty ∧
      (t.s.mem.stack.contains (taint_ea t dst off) w = false → t.rt.getD src .dirty = .clean)) := by
  unfold taint_ea taint_stkTag
  by_cases hc : t.rt.getD dst .dirty = .dirty <;>
    cases hs : t.s.mem.stack.contains ((t.s.reg[dst]?).getD 0 + off.signExtend 64).toNat w <;>
    by_cases hg : t.rt.getD src .dirty = .clean <;>
    refine ⟨?_, ?_, ?_, ?_⟩ <;>
    simp only [stepTags, taint_stackRange, hc, hs, hg, Bool.false_eq_true, ↓reduceIte, ne_eq, not_true_eq_false,
      not_false_eq_true, false_implies, implies_true, true_and, and_true, and_self, reduceCtorEq, imp_self]

theorem taint_tags_ja (t : TState) (off : BitVec 16) (ps : List Nat) : stepTags t (.ja off) ps = t := rfl

theorem taint_tags_jmp (t : TState) (w : Width) (c : Cond) (dst : Nat) (src : Operand) (off : BitVec 16) (ps : List Nat) :
    (stepTags t (.jmp w c dst src off) ps).rt = t.rt ∧
    (stepTags t (.jmp w c dst src off) ps).st = t.st ∧
    (stepTags t (.jmp w c dst src off) ps).saved = t.saved ∧
    ((stepTags t (.jmp w c dst src off) ps).inClaim = true →
      t.inClaim = true ∧ t.rt.getD dst .dirty = .clean ∧ taint_otag t.rt src = .clean) := by
  cases src <;> simp only [taint_otag] <;> simp only [stepTags] <;> split
  · exact ⟨rfl, rfl, rfl, fun h => by cases h⟩
  · next hc =>
    exact ⟨rfl, rfl, rfl, fun h => ⟨h, Classical.not_not.1 fun h => hc (.inl h), Classical.not_not.1 fun h => hc (.inr h)⟩⟩
  · exact ⟨rfl, rfl, rfl, fun h => by cases h⟩
  · next hc => exact ⟨rfl, rfl, rfl, fun h => ⟨h, Classical.not_not.1 fun h => hc (.inl h), trivial⟩⟩

theorem taint_tags_exit (t : TState) (ps : List Nat) (hs : t.saved = []) (hf : t.s.frames = []) :
    (stepTags t .exit ps).rt = t.rt ∧ (stepTags t .exit ps).st = t.st ∧ (stepTags t .exit ps).saved = [] ∧
    ((stepTags t .exit ps).inClaim = true → t.inClaim = true ∧ t.rt.getD 0 .dirty = .clean) := by
  simp only [stepTags, hs, hf, List.isEmpty_nil, Bool.not_true, Bool.false_eq_true, ↓reduceIte]
  split
  · exact ⟨rfl, rfl, rfl, fun h => by cases h⟩
  · next hc => exact ⟨rfl, rfl, hs, fun h => ⟨h, Classical.not_not.1 hc⟩⟩

theorem taint_range5 : List.range 5 = [0, 1, 2, 3, 4] := by decide

theorem taint_tags_call0 (t : TState) (imm : BitVec 32) (ps : List Nat) :
    (stepTags t (.call 0 imm) ps).rt =
      (((((t.rt.setIfInBounds 0 .clean).setIfInBounds 1 .dirty).setIfInBounds 2 .dirty).setIfInBounds 3 .dirty).setIfInBounds
        4 .dirty).setIfInBounds 5 .dirty ∧
    (stepTags t (.call 0 imm) ps).st = t.st ∧
    (stepTags t (.call 0 imm) ps).saved = t.saved ∧
    ((stepTags t (.call 0 imm) ps).inClaim = true →
      t.inClaim = true ∧ ∀ k, 1 ≤ k → k ≤ 5 → t.rt.getD k .dirty = .clean) := by
  by_cases hc : ((List.range 5).any fun k => decide (t.rt.getD (k + 1) .dirty ≠ .clean)) = true
  · refine ⟨?_, ?_, ?_, ?_⟩ <;> simp only [stepTags, ↓reduceIte, if_pos hc] <;>
      simp only [taint_range5, List.foldl_cons, List.foldl_nil, Bool.false_eq_true, false_implies]
  · refine ⟨?_, ?_, ?_, ?_⟩ <;> simp only [stepTags, ↓reduceIte, if_neg hc] <;>
      simp only [taint_range5, List.foldl_cons, List.foldl_nil]
    intro hin
    refine ⟨hin, fun k h1 h5 => ?_⟩
    apply Classical.not_not.1
    intro hk
    apply hc
    rw [List.any_eq_true]
    exact ⟨k - 1, List.mem_range.2 (by omega), by simp only [decide_eq_true_eq]; rwa [Nat.sub_add_cancel h1]⟩

theorem taint_tags_call_other (t : TState) (k : Nat) (imm : BitVec 32) (ps : List Nat) (h0 : k ≠ 0) (h1 : k ≠ 1) :
    stepTags t (.call k imm) ps = t := by
  simp only [stepTags, if_neg h0, if_neg h1]

theorem taint_tags_tailCall (t : TState) (ps : List Nat) : stepTags t .tailCall ps = t := rfl

/-! ### simulation, instruction by instruction -/

theorem taint_reg_eq {rt st : Array Tag} {a b : State} (h : taint_LowEq rt st a b) {r : Nat} {va vb : BitVec 64}
    (hl : rt.getD r .dirty ≠ .dirty) (ha : a.reg[r]? = some va) (hb : b.reg[r]? = some vb) : vb = va := by
  have := h.regs r hl
  rw [ha, hb] at this
  exact Option.some.inj this

theorem taint_clean_low {g : Tag} (h : g = .clean) : g ≠ .dirty := by
  rw [h]; exact fun h => by cases h

theorem taint_sim_operand {P : State → State → Prop} {rt st : Array Tag} {a b : State} (h : taint_LowEq rt st a b)
    (src : Operand) (ka kb : BitVec 64 → Outcome)
    (hk : ∀ va vb, (taint_otag rt src ≠ .dirty → vb = va) → taint_Sim P (ka va) (kb vb)) :
    taint_Sim P (operand64 a src ka) (operand64 b src kb) := by
  cases src with
  | reg r =>
    show taint_Sim P (rd a r ka) (rd b r kb)
    exact taint_sim_rd _ _ _ _ _ fun va vb ha hb => hk va vb fun hl => taint_reg_eq h hl ha hb
  | imm v => exact hk _ _ fun _ => rfl

theorem taint_aluTag_low (w : Width) (op : AluOp) (ta tb : Tag) (h : Taint.aluTag w op ta tb ≠ .dirty) :
    (op = .mov ∨ ta ≠ .dirty) ∧ (op = .neg ∨ tb ≠ .dirty) := by
  cases w <;> cases op <;> cases ta <;> cases tb <;> revert h <;> decide

theorem taint_aluSem_congr {n : Nat} (op : AluOp) (x y x' y' : BitVec n) (hx : op = .mov ∨ x' = x)
    (hy : op = .neg ∨ y' = y) : aluSem op x' y' = aluSem op x y := by
  rcases hx with rfl | rfl <;> rcases hy with hy | rfl <;> first | rfl | (subst hy; rfl) | cases hy

theorem taint_sim_aluG (Z : BitVec 64 → Prop) [DecidablePred Z] (F : BitVec 64 → BitVec 64 → BitVec 64)
    {rt st : Array Tag} {a b : State} (h : taint_LowEq rt st a b) (dst : Nat) (src : Operand) (g : Tag)
    (hZ : taint_otag rt src ≠ .dirty ∨ ∀ v, ¬ Z v)
    (hgd : g ≠ .dirty → (∃ v, Z v) → rt.getD dst .dirty ≠ .dirty)
    (hF : g ≠ .dirty → ∀ x y x' y', (rt.getD dst .dirty ≠ .dirty → x' = x) → (taint_otag rt src ≠ .dirty → y' = y) →
      F x' y' = F x y) :
    taint_Sim (taint_LowEq (rt.setIfInBounds dst g) st)
      (operand64 a src fun y => if Z y then .next a else rd a dst fun x => wr a dst (F x y))
      (operand64 b src fun y => if Z y then .next b else rd b dst fun x => wr b dst (F x y)) := by
  refine taint_sim_operand h src _ _ fun ya yb hy => ?_
  by_cases hz : Z ya
  · have hzb : Z yb := by
      rcases hZ with hl | hn
      · rw [hy hl]; exact hz
      · exact absurd hz (hn _)
    rw [if_pos hz, if_pos hzb]
    exact taint_sim_next (taint_lowEq_retag h dst g fun hl => h.regs dst (hgd hl ⟨ya, hz⟩))
  · have hzb : ¬ Z yb := by
      rcases hZ with hl | hn
      · rw [hy hl]; exact hz
      · exact hn _
    rw [if_neg hz, if_neg hzb]
    refine taint_sim_rd _ _ _ _ _ fun xa xb hxa hxb => ?_
    refine taint_sim_wr _ _ _ _ _ (taint_lowEq_wr h dst g _ _ fun hl => ?_)
    exact hF hl xa ya xb yb (fun hd => taint_reg_eq h hd hxa hxb) hy

theorem taint_sim_alu (env : Env) (t : TState) (ps : List Nat) (w : Width) (op : AluOp) (dst : Nat) (src : Operand)
    {a b : State} (h : taint_LowEq t.rt t.st a b) (hin : (stepTags t (.alu w op dst src) ps).inClaim = true) :
    taint_Sim (taint_LowEq (stepTags t (.alu w op dst src) ps).rt (stepTags t (.alu w op dst src) ps).st)
      (Isa.exec env a (.alu w op dst src)) (Isa.exec env b (.alu w op dst src)) := by
  obtain ⟨hrt, hst, -, hic⟩ := taint_tags_alu t w op dst src ps
  rw [hrt, hst]
  have hcl := (hic hin).2
  have hlow := taint_aluTag_low w op (t.rt.getD dst .dirty) (taint_otag t.rt src)
  have hmov : AluOp.mod ≠ AluOp.mov := by decide
  cases w with
  | w64 =>
    refine taint_sim_aluG (fun y => op = .mod ∧ y = 0) (fun x y => aluSem op x y) h dst src _ ?_ ?_ ?_
    · by_cases hm : op = .mod
      · exact .inl (taint_clean_low (hcl (.inr hm)))
      · exact .inr fun v hv => hm hv.1
    · rintro hl ⟨v, hv, -⟩
      rcases (hlow hl).1 with hm | hd
      · rw [hv] at hm; exact absurd hm hmov
      · exact hd
    · intro hl x y x' y' hx hy
      exact taint_aluSem_congr op x y x' y' ((hlow hl).1.imp id hx) ((hlow hl).2.imp id hy)
  | w32 =>
    refine taint_sim_aluG (fun y => op = .mod ∧ y.setWidth 32 = 0)
      (fun x y => (aluSem op (x.setWidth 32) (y.setWidth 32)).setWidth 64) h dst src _ ?_ ?_ ?_
    · by_cases hm : op = .mod
      · exact .inl (taint_clean_low (hcl (.inr hm)))
      · exact .inr fun v hv => hm hv.1
    · rintro hl ⟨v, hv, -⟩
      rcases (hlow hl).1 with hm | hd
      · rw [hv] at hm; exact absurd hm hmov
      · exact hd
    · intro hl x y x' y' hx hy
      exact congrArg (BitVec.setWidth 64) (taint_aluSem_congr op _ _ _ _
        ((hlow hl).1.imp id fun hd => by rw [hx hd]) ((hlow hl).2.imp id fun hd => by rw [hy hd]))

theorem taint_sim_endian (env : Env) (t : TState) (ps : List Nat) (big : Bool) (n dst : Nat)
    {a b : State} (h : taint_LowEq t.rt t.st a b) :
    taint_Sim (taint_LowEq (stepTags t (.endian big n dst) ps).rt (stepTags t (.endian big n dst) ps).st)
      (Isa.exec env a (.endian big n dst)) (Isa.exec env b (.endian big n dst)) := by
  obtain ⟨hrt, hst, -, -⟩ := taint_tags_endian t big n dst ps
  rw [hrt, hst]
  simp only [Isa.exec]
  refine taint_sim_rd _ _ _ _ _ fun xa xb hxa hxb => ?_
  refine taint_sim_wr _ _ _ _ _ (taint_lowEq_wr h dst _ _ _ fun hl => ?_)
  have hc : t.rt.getD dst .dirty = .clean := by
    by_cases hc : t.rt.getD dst .dirty = .clean
    · exact hc
    · rw [if_neg hc] at hl; exact absurd rfl hl
  rw [taint_reg_eq h (taint_clean_low hc) hxa hxb]

theorem taint_sim_lddw (env : Env) {rt st : Array Tag} {a b : State} (h : taint_LowEq rt st a b) (dst : Nat)
    (lo : BitVec 32) (g : Tag) :
    taint_Sim (taint_LowEq (rt.setIfInBounds dst g) st) (Isa.exec env a (.lddw dst lo)) (Isa.exec env b (.lddw dst lo)) := by
  simp only [Isa.exec]
  rw [h.pc]
  cases getInsn? env.prog a.pc with
  | none => trivial
  | some nx => exact taint_sim_wr _ _ _ _ _ (taint_lowEq_wr (taint_lowEq_pc h _) dst g _ _ fun _ => rfl)

theorem taint_stkTag_low (t : TState) (a w : Nat) (h : taint_stkTag t a w ≠ .dirty) :
    ∀ k, k < w → t.st.getD (a - t.s.mem.stack.base + k) .dirty ≠ .dirty :=
  fun k hk => taint_combine_low _ _ h _ (List.mem_map.2 ⟨k, List.mem_range.2 hk, rfl⟩)

theorem taint_sim_ldabs (env : Env) (t : TState) (ps : List Nat) (w : Nat) (imm : BitVec 32) {a b : State}
    (hmem : a.mem = t.s.mem) (h : taint_LowEq t.rt t.st a b) :
    taint_Sim (taint_LowEq (stepTags t (.ldabs w imm) ps).rt (stepTags t (.ldabs w imm) ps).st)
      (Isa.exec env a (.ldabs w imm)) (Isa.exec env b (.ldabs w imm)) := by
  obtain ⟨hrt, hst, -, -⟩ := taint_tags_ldabs t w imm ps
  rw [hrt, hst]
  simp only [Isa.exec, pktAbs]
  rw [h.mem.mem]
  by_cases hge : a.mem.mem.base + imm.toNat ≥ 2 ^ 64
  · simp only [if_pos hge]; trivial
  · simp only [if_neg hge]
    refine taint_sim_load env h _ w 0 _ fun hl => .inl ?_
    have : (BitVec.ofNat 64 (a.mem.mem.base + imm.toNat)).toNat = a.mem.mem.base + imm.toNat := by
      simp only [BitVec.toNat_ofNat]; exact Nat.mod_eq_of_lt (by omega)
    rw [this, hmem]
    cases hc : t.s.mem.stack.contains (t.s.mem.mem.base + imm.toNat) w with
    | false => rfl
    | true => simp only [hc, ↓reduceIte] at hl; exact absurd rfl hl

theorem taint_sim_ldind (env : Env) (t : TState) (ps : List Nat) (w src : Nat) (imm : BitVec 32) {a b : State}
    (hreg : a.reg = t.s.reg) (hmem : a.mem = t.s.mem) (h : taint_LowEq t.rt t.st a b)
    (hin : (stepTags t (.ldind w src imm) ps).inClaim = true) :
    taint_Sim (taint_LowEq (stepTags t (.ldind w src imm) ps).rt (stepTags t (.ldind w src imm) ps).st)
      (Isa.exec env a (.ldind w src imm)) (Isa.exec env b (.ldind w src imm)) := by
  obtain ⟨hrt, hst, -, hic⟩ := taint_tags_ldind t w src imm ps
  rw [hrt, hst]
  have hsrc := (hic hin).2
  simp only [Isa.exec]
  refine taint_sim_rd _ _ _ _ _ fun xa xb hxa hxb => ?_
  rw [taint_reg_eq h hsrc hxa hxb, h.mem.mem]
  have haddr : (BitVec.ofNat 64 a.mem.mem.base + xa + imm.setWidth 64).toNat = taint_indAddr t src imm := by
    unfold taint_indAddr; rw [← hreg, ← hmem, hxa]; rfl
  refine taint_sim_load env h _ w 0 _ fun hl => ?_
  rw [haddr, hmem]
  cases hc : t.s.mem.stack.contains (taint_indAddr t src imm) w with
  | false => exact .inl rfl
  | true =>
    right
    simp only [hc, ↓reduceIte] at hl
    have hl' : taint_stkTag t (taint_indAddr t src imm) w ≠ .dirty := by
      split at hl
      · exact absurd rfl hl
      · split at hl
        · exact hl
        · exact absurd rfl hl
    exact taint_stkTag_low t _ w hl'

theorem taint_sim_ldx (env : Env) (t : TState) (ps : List Nat) (w dst src : Nat) (off : BitVec 16) {a b : State}
    (hreg : a.reg = t.s.reg) (hmem : a.mem = t.s.mem) (h : taint_LowEq t.rt t.st a b)
    (hin : (stepTags t (.ldx w dst src off) ps).inClaim = true) :
    taint_Sim (taint_LowEq (stepTags t (.ldx w dst src off) ps).rt (stepTags t (.ldx w dst src off) ps).st)
      (Isa.exec env a (.ldx w dst src off)) (Isa.exec env b (.ldx w dst src off)) := by
  obtain ⟨hrt, hst, -, hic⟩ := taint_tags_ldx t w dst src off ps
  rw [hrt, hst]
  have hsrc := (hic hin).2
  simp only [Isa.exec]
  refine taint_sim_rd _ _ _ _ _ fun xa xb hxa hxb => ?_
  rw [taint_reg_eq h hsrc hxa hxb]
  have haddr : (xa + off.signExtend 64).toNat = taint_ea t src off := by
    unfold taint_ea; rw [← hreg, hxa]; rfl
  refine taint_sim_load env h _ w dst _ fun hl => ?_
  rw [haddr, hmem]
  cases hc : t.s.mem.stack.contains (taint_ea t src off) w with
  | false => exact .inl rfl
  | true =>
    right
    simp only [hc, ↓reduceIte] at hl
    exact taint_stkTag_low t _ w hl

theorem taint_sim_st (env : Env) (t : TState) (ps : List Nat) (w dst : Nat) (off : BitVec 16) (imm : BitVec 32)
    {a b : State} (hreg : a.reg = t.s.reg) (hmem : a.mem = t.s.mem) (h : taint_LowEq t.rt t.st a b) (hw : 0 < w)
    (hin : (stepTags t (.st w dst off imm) ps).inClaim = true) :
    taint_Sim (taint_LowEq (stepTags t (.st w dst off imm) ps).rt (stepTags t (.st w dst off imm) ps).st)
      (Isa.exec env a (.st w dst off imm)) (Isa.exec env b (.st w dst off imm)) := by
  obtain ⟨hrt, hst, -, hic⟩ := taint_tags_st t w dst off imm ps
  rw [hrt, hst]
  have hd := (hic hin).2
  simp only [Isa.exec]
  refine taint_sim_rd _ _ _ _ _ fun da db hda hdb => ?_
  rw [taint_reg_eq h hd hda hdb]
  have haddr : (da + off.signExtend 64).toNat = taint_ea t dst off := by
    unfold taint_ea; rw [← hreg, hda]; rfl
  have := taint_sim_store env h (da + off.signExtend 64) w hw (imm.signExtend 64) (imm.signExtend 64) .clean
    (fun _ => rfl) (fun _ => rfl)
  rw [haddr, hmem] at this
  exact this

theorem taint_sim_stx (env : Env) (t : TState) (ps : List Nat) (w dst : Nat) (off : BitVec 16) (src : Nat)
    {a b : State} (hreg : a.reg = t.s.reg) (hmem : a.mem = t.s.mem) (h : taint_LowEq t.rt t.st a b) (hw : 0 < w)
    (hin : (stepTags t (.stx w dst off src) ps).inClaim = true) :
    taint_Sim (taint_LowEq (stepTags t (.stx w dst off src) ps).rt (stepTags t (.stx w dst off src) ps).st)
      (Isa.exec env a (.stx w dst off src)) (Isa.exec env b (.stx w dst off src)) := by
  obtain ⟨hrt, hst, -, hic⟩ := taint_tags_stx t w dst off src ps
  rw [hrt, hst]
  obtain ⟨-, hd, hcl⟩ := hic hin
  simp only [Isa.exec]
  refine taint_sim_rd _ _ _ _ _ fun da db hda hdb => ?_
  refine taint_sim_rd _ _ _ _ _ fun xa xb hxa hxb => ?_
  rw [taint_reg_eq h hd hda hdb]
  have haddr : (da + off.signExtend 64).toNat = taint_ea t dst off := by
    unfold taint_ea; rw [← hreg, hda]; rfl
  have := taint_sim_store env h (da + off.signExtend 64) w hw xa xb
    (if w = 8 then t.rt.getD src .dirty else if t.rt.getD src .dirty = .clean then .clean else .dirty)
    (fun hl => by
      refine taint_reg_eq h ?_ hxa hxb
      split at hl
      · exact hl
      · split at hl
        · exact taint_clean_low ‹_›
        · exact absurd rfl hl)
    (fun hn => by
      rw [haddr, hmem] at hn
      exact taint_reg_eq h (taint_clean_low (hcl hn)) hxa hxb)
  rw [haddr, hmem] at this
  exact this

theorem taint_sim_xadd_insn (env : Env) (t : TState) (ps : List Nat) (w dst : Nat) (off : BitVec 16) (src : Nat)
    {a b : State} (hreg : a.reg = t.s.reg) (hmem : a.mem = t.s.mem) (h : taint_LowEq t.rt t.st a b) (hw : 0 < w)
    (hin : (stepTags t (.xadd w dst off src) ps).inClaim = true) :
    taint_Sim (taint_LowEq (stepTags t (.xadd w dst off src) ps).rt (stepTags t (.xadd w dst off src) ps).st)
      (Isa.exec env a (.xadd w dst off src)) (Isa.exec env b (.xadd w dst off src)) := by
  obtain ⟨hrt, hst, -, hic⟩ := taint_tags_xadd t w dst off src ps
  rw [hrt, hst]
  obtain ⟨-, hd, hcl⟩ := hic hin
  simp only [Isa.exec]
  refine taint_sim_rd _ _ _ _ _ fun da db hda hdb => ?_
  refine taint_sim_rd _ _ _ _ _ fun xa xb hxa hxb => ?_
  rw [taint_reg_eq h hd hda hdb]
  have haddr : (da + off.signExtend 64).toNat = taint_ea t dst off := by
    unfold taint_ea; rw [← hreg, hda]; rfl
  have := taint_sim_xadd env h (da + off.signExtend 64) w hw (BitVec.ofNat 64 (xa.toNat % 2 ^ (8 * w)))
    (BitVec.ofNat 64 (xb.toNat % 2 ^ (8 * w)))
    (if taint_stkTag t (taint_ea t dst off) w = .clean ∧ t.rt.getD src .dirty = .clean then .clean else .dirty)
    (fun hl => by
      rw [haddr, hmem]
      split at hl
      · next hc =>
        exact ⟨by rw [taint_reg_eq h (taint_clean_low hc.2) hxa hxb], taint_stkTag_low t _ w (taint_clean_low hc.1)⟩
      · exact absurd rfl hl)
    (fun hn => by
      rw [haddr, hmem] at hn
      rw [taint_reg_eq h (taint_clean_low (hcl hn)) hxa hxb])
  rw [haddr, hmem] at this
  exact this

theorem taint_sim_ja (env : Env) {rt st : Array Tag} {a b : State} (h : taint_LowEq rt st a b) (off : BitVec 16) :
    taint_Sim (taint_LowEq rt st) (Isa.exec env a (.ja off)) (Isa.exec env b (.ja off)) := by
  simp only [Isa.exec]
  rw [h.pc]
  exact taint_sim_jumpTo _ _ _ (taint_lowEq_pc h _)

theorem taint_sim_jmp (env : Env) (t : TState) (ps : List Nat) (w : Width) (c : Cond) (dst : Nat) (src : Operand)
    (off : BitVec 16) {a b : State} (h : taint_LowEq t.rt t.st a b)
    (hin : (stepTags t (.jmp w c dst src off) ps).inClaim = true) :
    taint_Sim (taint_LowEq (stepTags t (.jmp w c dst src off) ps).rt (stepTags t (.jmp w c dst src off) ps).st)
      (Isa.exec env a (.jmp w c dst src off)) (Isa.exec env b (.jmp w c dst src off)) := by
  obtain ⟨hrt, hst, -, hic⟩ := taint_tags_jmp t w c dst src off ps
  rw [hrt, hst]
  obtain ⟨-, hd, hs⟩ := hic hin
  cases w <;> simp only [Isa.exec] <;>
  · refine taint_sim_rd _ _ _ _ _ fun xa xb hxa hxb => ?_
    refine taint_sim_operand h src _ _ fun ya yb hy => ?_
    rw [taint_reg_eq h (taint_clean_low hd) hxa hxb, hy (taint_clean_low hs), h.pc]
    split
    · exact taint_sim_jumpTo _ _ _ (taint_lowEq_pc h _)
    · exact taint_sim_next h

theorem taint_sim_exit_insn (env : Env) (t : TState) (ps : List Nat) {a b : State} (hsv : t.saved = [])
    (hfr : t.s.frames = []) (h : taint_LowEq t.rt t.st a b) (hin : (stepTags t .exit ps).inClaim = true) :
    taint_Sim (taint_LowEq (stepTags t .exit ps).rt (stepTags t .exit ps).st)
      (Isa.exec env a .exit) (Isa.exec env b .exit) := by
  obtain ⟨-, -, -, hic⟩ := taint_tags_exit t ps hsv hfr
  simp only [Isa.exec]
  exact taint_sim_exit h (taint_clean_low (hic hin).2)

theorem taint_set_dirty_low (x : Array Tag) (i r : Nat) (h : (x.setIfInBounds i .dirty).getD r .dirty ≠ .dirty) :
    r ≠ i ∧ x.getD r .dirty ≠ .dirty := by
  rw [taint_getD_set] at h
  by_cases hc : i = r ∧ i < x.size
  · rw [if_pos hc] at h; exact absurd rfl h
  · rw [if_neg hc] at h
    refine ⟨fun hri => ?_, h⟩
    subst hri
    have : ¬ r < x.size := fun hlt => hc ⟨rfl, hlt⟩
    exact h (by rw [Array.getD_eq_getD_getElem?, Array.getElem?_eq_none (by omega)]; rfl)

/-- a helper call: same arguments, hence same log entry and same result; whatever the other run then holds in
    r1 … r5 (tagged `dirty`) the runs stay low-equivalent -/
theorem taint_sim_call0 (env : Env) (t : TState) (ps : List Nat) (imm : BitVec 32) {a b : State}
    (h : taint_LowEq t.rt t.st a b) (hin : (stepTags t (.call 0 imm) ps).inClaim = true) :
    taint_Sim (fun a' b' => ∀ regs' : Vector (BitVec 64) 11, (∀ r, r = 0 ∨ 6 ≤ r → regs'[r]? = b'.reg[r]?) →
        taint_LowEq (stepTags t (.call 0 imm) ps).rt (stepTags t (.call 0 imm) ps).st a' { b' with reg := regs' })
      (callHelper env a imm) (callHelper env b imm) := by
  obtain ⟨hrt, hst, -, hic⟩ := taint_tags_call0 t imm ps
  rw [hrt, hst]
  have hcl := (hic hin).2
  refine taint_sim_callHelper env h imm (fun k h1 h5 => taint_clean_low (hcl k h1 h5)) _ fun r hr => ?_
  obtain ⟨n5, hr⟩ := taint_set_dirty_low _ _ _ hr
  obtain ⟨n4, hr⟩ := taint_set_dirty_low _ _ _ hr
  obtain ⟨n3, hr⟩ := taint_set_dirty_low _ _ _ hr
  obtain ⟨n2, hr⟩ := taint_set_dirty_low _ _ _ hr
  obtain ⟨n1, hr⟩ := taint_set_dirty_low _ _ _ hr
  refine ⟨by omega, fun h0 => ?_⟩
  rw [taint_getD_set, if_neg (by omega)] at hr
  exact hr

/-! ### decoding facts -/

theorem taint_decode_call (insn : Insn) (k : Nat) (imm : BitVec 32) (h : decode insn = some (.call k imm)) :
    insn.opc.toNat = 0x85 ∧ k = insn.src.toNat ∧ imm = insn.imm := by
  unfold Isa.decode at h
  dsimp only at h
  repeat' (split at h)
  all_goals first | (cases h; done) | (cases h; exact ⟨‹_›, rfl, rfl⟩)

theorem taint_sizeBytes_pos (n : Nat) : 0 < sizeBytes n := by
  unfold sizeBytes; split <;> decide

/-- stores and atomic adds write at least one byte -/
def taint_WidthOk : Instr → Prop
  | .st w _ _ _ => 0 < w
  | .stx w _ _ _ => 0 < w
  | .xadd w _ _ _ => 0 < w
  | _ => True

theorem taint_decode_width (insn : Insn) (i : Instr) (h : decode insn = some i) : taint_WidthOk i := by
  unfold Isa.decode at h
  dsimp only at h
  repeat' (split at h)
  all_goals first | (cases h; done) | (cases h; first | trivial | exact taint_sizeBytes_pos _ | (show 0 < _; decide))

theorem taint_decode_of_call (insn : Insn) (h : insn.opc = 0x85) :
    decode insn = some (.call insn.src.toNat insn.imm) := by
  obtain ⟨opc, dst, src, off, imm⟩ := insn
  simp only at h; subst h
  simp [Isa.decode]

theorem taint_decode_of_lddw (insn : Insn) (h : insn.opc = 0x18) :
    decode insn = some (.lddw insn.dst.toNat insn.imm) := by
  obtain ⟨opc, dst, src, off, imm⟩ := insn
  simp only at h; subst h
  simp [Isa.decode]

/-! ### every instruction other than a call -/

theorem taint_sim_exec (env : Env) (t : TState) (ps : List Nat) (i : Instr) {a b : State}
    (hreg : a.reg = t.s.reg) (hmem : a.mem = t.s.mem) (hsv : t.saved = []) (hfr : t.s.frames = [])
    (hw : taint_WidthOk i) (hnc : ∀ k imm, i ≠ .call k imm)
    (h : taint_LowEq t.rt t.st a b) (hin : (stepTags t i ps).inClaim = true) :
    taint_Sim (taint_LowEq (stepTags t i ps).rt (stepTags t i ps).st) (Isa.exec env a i) (Isa.exec env b i) := by
  cases i with
  | alu w op dst src => exact taint_sim_alu env t ps w op dst src h hin
  | endian big n dst => exact taint_sim_endian env t ps big n dst h
  | lddw dst lo =>
    obtain ⟨hrt, hst, -, -⟩ := taint_tags_lddw t dst lo ps
    rw [hrt, hst]; exact taint_sim_lddw env h dst lo .clean
  | ldabs w imm => exact taint_sim_ldabs env t ps w imm hmem h
  | ldind w src imm => exact taint_sim_ldind env t ps w src imm hreg hmem h hin
  | ldx w dst src off => exact taint_sim_ldx env t ps w dst src off hreg hmem h hin
  | st w dst off imm => exact taint_sim_st env t ps w dst off imm hreg hmem h hw hin
  | stx w dst off src => exact taint_sim_stx env t ps w dst off src hreg hmem h hw hin
  | xadd w dst off src => exact taint_sim_xadd_insn env t ps w dst off src hreg hmem h hw hin
  | ja off => rw [taint_tags_ja]; exact taint_sim_ja env h off
  | jmp w c dst src off => exact taint_sim_jmp env t ps w c dst src off h hin
  | call k imm => exact absurd rfl (hnc k imm)
  | tailCall => simp only [Isa.exec]; trivial
  | exit => exact taint_sim_exit_insn env t ps hsv hfr h hin

theorem taint_saved_nil (t : TState) (ps : List Nat) (i : Instr) (hsv : t.saved = []) (hfr : t.s.frames = [])
    (hk : ∀ imm, i ≠ .call 1 imm) : (stepTags t i ps).saved = [] := by
  cases i with
  | alu w op dst src => rw [(taint_tags_alu t w op dst src ps).2.2.1, hsv]
  | endian big n dst => rw [(taint_tags_endian t big n dst ps).2.2.1, hsv]
  | lddw dst lo => rw [(taint_tags_lddw t dst lo ps).2.2.1, hsv]
  | ldabs w imm => rw [(taint_tags_ldabs t w imm ps).2.2.1, hsv]
  | ldind w src imm => rw [(taint_tags_ldind t w src imm ps).2.2.1, hsv]
  | ldx w dst src off => rw [(taint_tags_ldx t w dst src off ps).2.2.1, hsv]
  | st w dst off imm => rw [(taint_tags_st t w dst off imm ps).2.2.1, hsv]
  | stx w dst off src => rw [(taint_tags_stx t w dst off src ps).2.2.1, hsv]
  | xadd w dst off src => rw [(taint_tags_xadd t w dst off src ps).2.2.1, hsv]
  | ja off => rw [taint_tags_ja, hsv]
  | jmp w c dst src off => rw [(taint_tags_jmp t w c dst src off ps).2.2.1, hsv]
  | call k imm =>
    by_cases h0 : k = 0
    · subst h0; rw [(taint_tags_call0 t imm ps).2.2.1, hsv]
    · by_cases h1 : k = 1
      · subst h1; exact absurd rfl (hk imm)
      · rw [taint_tags_call_other t k imm ps h0 h1, hsv]
  | tailCall => rw [taint_tags_tailCall, hsv]
  | exit => exact (taint_tags_exit t ps hsv hfr).2.2.1

/-- `inClaim` is never set back to `true` -/
theorem taint_stepTags_mono (t : TState) (ps : List Nat) (i : Instr) (hsv : t.saved = []) (hfr : t.s.frames = [])
    (hk : ∀ imm, i ≠ .call 1 imm) (h : (stepTags t i ps).inClaim = true) : t.inClaim = true := by
  cases i with
  | alu w op dst src => exact ((taint_tags_alu t w op dst src ps).2.2.2 h).1
  | endian big n dst => rw [(taint_tags_endian t big n dst ps).2.2.2] at h; exact h
  | lddw dst lo => rw [(taint_tags_lddw t dst lo ps).2.2.2] at h; exact h
  | ldabs w imm => exact (taint_tags_ldabs t w imm ps).2.2.2 h
  | ldind w src imm => exact ((taint_tags_ldind t w src imm ps).2.2.2 h).1
  | ldx w dst src off => exact ((taint_tags_ldx t w dst src off ps).2.2.2 h).1
  | st w dst off imm => exact ((taint_tags_st t w dst off imm ps).2.2.2 h).1
  | stx w dst off src => exact ((taint_tags_stx t w dst off src ps).2.2.2 h).1
  | xadd w dst off src => exact ((taint_tags_xadd t w dst off src ps).2.2.2 h).1
  | ja off => rw [taint_tags_ja] at h; exact h
  | jmp w c dst src off => exact ((taint_tags_jmp t w c dst src off ps).2.2.2 h).1
  | call k imm =>
    by_cases h0 : k = 0
    · subst h0; exact ((taint_tags_call0 t imm ps).2.2.2 h).1
    · by_cases h1 : k = 1
      · subst h1; exact absurd rfl (hk imm)
      · rw [taint_tags_call_other t k imm ps h0 h1] at h; exact h
  | tailCall => rw [taint_tags_tailCall] at h; exact h
  | exit => exact ((taint_tags_exit t ps hsv hfr).2.2.2 h).1

end Rbpf
