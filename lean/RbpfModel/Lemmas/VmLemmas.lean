/-
  Helper lemmas for C09 / C10: little-endian 64-bit slot writes/reads on byte buffers, and the
  API state machine's history unfolding.
-/
import RbpfModel.Model.Vm
namespace Rbpf
open Vm

namespace VmL

theorem runOps_nil (w : World) (s : VmState) : (runOps w s []).1 = s := rfl

theorem runOps_cons (w : World) (s : VmState) (o : Op) (rest : List Op) :
    (runOps w s (o :: rest)).1 = (runOps w (step w s o).1 rest).1 := rfl

-- little-endian slots ----------------------------------------------------------------------------

/-- generic fold of `n` consecutive byte stores starting at `off` -/
def storeN (f : Nat → BitVec 8) (off n : Nat) (buf : Bytes) : Bytes :=
  (List.range n).foldl (fun b k => b.setIfInBounds (off + k) (f k)) buf

theorem size_storeN (f : Nat → BitVec 8) (off n : Nat) (buf : Bytes) : (storeN f off n buf).size = buf.size := by
  induction n with
  | zero => simp [storeN]
  | succ n ih =>
    unfold storeN at ih ⊢
    rw [List.range_succ, List.foldl_append, List.foldl_cons, List.foldl_nil, Array.size_setIfInBounds, ih]

theorem getElem?_storeN (f : Nat → BitVec 8) (off n : Nat) (buf : Bytes) (i : Nat) :
    (storeN f off n buf)[i]? =
      if off ≤ i ∧ i < off + n ∧ i < buf.size then some (f (i - off)) else buf[i]? := by
  induction n with
  | zero =>
    have : ¬ (off ≤ i ∧ i < off + 0 ∧ i < buf.size) := by omega
    rw [if_neg this]
    rfl
  | succ n ih =>
    have hsz := size_storeN f off n buf
    unfold storeN at ih hsz ⊢
    rw [List.range_succ, List.foldl_append, List.foldl_cons, List.foldl_nil, Array.getElem?_setIfInBounds, ih, hsz]
    by_cases h1 : off + n = i
    · subst h1
      by_cases h2 : off + n < buf.size
      · have : off ≤ off + n ∧ off + n < off + (n + 1) ∧ off + n < buf.size := by omega
        rw [if_pos h2, if_pos this, Nat.add_sub_cancel_left]
        simp
      · have : ¬ (off ≤ off + n ∧ off + n < off + (n + 1) ∧ off + n < buf.size) := by omega
        have h3 : buf[off + n]? = none := by
          apply Array.getElem?_eq_none; omega
        rw [if_neg h2, if_neg this, h3]
        simp
    · rw [if_neg h1]
      by_cases h2 : off ≤ i ∧ i < off + n ∧ i < buf.size
      · have : off ≤ i ∧ i < off + (n + 1) ∧ i < buf.size := by omega
        rw [if_pos h2, if_pos this]
      · have : ¬ (off ≤ i ∧ i < off + (n + 1) ∧ i < buf.size) := by omega
        rw [if_neg h2, if_neg this]

theorem writeU64_eq_storeN (buf : Bytes) (off v : Nat) :
    writeU64 buf off v = storeN (fun k => BitVec.ofNat 8 (v >>> (8 * k))) off 8 buf := rfl

theorem size_writeU64 (buf : Bytes) (off v : Nat) : (writeU64 buf off v).size = buf.size := by
  rw [writeU64_eq_storeN, size_storeN]

theorem getElem?_writeU64 (buf : Bytes) (off v i : Nat) :
    (writeU64 buf off v)[i]? =
      if off ≤ i ∧ i < off + 8 ∧ i < buf.size then some (BitVec.ofNat 8 (v >>> (8 * (i - off)))) else buf[i]? := by
  rw [writeU64_eq_storeN, getElem?_storeN]

/-- bytes outside the slot are untouched -/
theorem getD_writeU64_out (buf : Bytes) (off v i : Nat) (h : ¬ (off ≤ i ∧ i < off + 8)) :
    (writeU64 buf off v).getD i 0 = buf.getD i 0 := by
  have : ¬ (off ≤ i ∧ i < off + 8 ∧ i < buf.size) := by omega
  rw [Array.getD_eq_getD_getElem?, Array.getD_eq_getD_getElem?, getElem?_writeU64, if_neg this]

/-- bytes inside the slot -/
theorem getD_writeU64_in (buf : Bytes) (off v j : Nat) (hj : j < 8) (hsz : off + 8 ≤ buf.size) :
    (writeU64 buf off v).getD (off + j) 0 = BitVec.ofNat 8 (v >>> (8 * j)) := by
  have : off ≤ off + j ∧ off + j < off + 8 ∧ off + j < buf.size := by omega
  rw [Array.getD_eq_getD_getElem?, getElem?_writeU64, if_pos this, Nat.add_sub_cancel_left]
  rfl

/-- generic little-endian style sum `Σ_{k<n} g k` in the shape `readU64` uses -/
def sumN (g : Nat → Nat) (n : Nat) : Nat := (List.range n).foldl (fun acc k => acc + g k) 0

theorem sumN_succ (g : Nat → Nat) (n : Nat) : sumN g (n + 1) = sumN g n + g n := by
  unfold sumN
  rw [List.range_succ, List.foldl_append, List.foldl_cons, List.foldl_nil]

theorem sumN_congr (g g' : Nat → Nat) (n : Nat) (h : ∀ k, k < n → g k = g' k) : sumN g n = sumN g' n := by
  induction n with
  | zero => rfl
  | succ n ih =>
    rw [sumN_succ, sumN_succ, ih (fun k hk => h k (by omega)), h n (by omega)]

theorem readU64_eq_sumN (buf : Bytes) (off : Nat) :
    readU64 buf off = sumN (fun k => (buf.getD (off + k) 0).toNat * 256 ^ k) 8 := by
  unfold readU64 sumN
  rfl

/-- the value read depends only on the eight bytes of the slot -/
theorem readU64_congr (a b : Bytes) (off : Nat) (h : ∀ j, j < 8 → a.getD (off + j) 0 = b.getD (off + j) 0) :
    readU64 a off = readU64 b off := by
  rw [readU64_eq_sumN, readU64_eq_sumN]
  apply sumN_congr
  intro k hk
  rw [h k hk]

/-- Σ_{k<n} ((v >>> 8k) mod 256)·256^k = v mod 256^n -/
theorem sumN_le_bytes (v n : Nat) : sumN (fun k => (v >>> (8 * k)) % 256 * 256 ^ k) n = v % 256 ^ n := by
  induction n with
  | zero => simp [sumN, Nat.mod_one]
  | succ n ih =>
    rw [sumN_succ, ih, Nat.mod_pow_succ, Nat.shiftRight_eq_div_pow, Nat.pow_mul, Nat.mul_comm]

theorem pow256_8 : (256 : Nat) ^ 8 = 2 ^ 64 := by decide

/-- write then read the same slot -/
theorem readU64_writeU64 (buf : Bytes) (off v : Nat) (hsz : off + 8 ≤ buf.size) (hv : v < 2 ^ 64) :
    readU64 (writeU64 buf off v) off = v := by
  rw [readU64_eq_sumN, sumN_congr _ (fun k => (v >>> (8 * k)) % 256 * 256 ^ k) 8, sumN_le_bytes, pow256_8,
    Nat.mod_eq_of_lt hv]
  intro k hk
  rw [getD_writeU64_in buf off v k hk hsz, BitVec.toNat_ofNat]

/-- a write to a disjoint slot does not change what is read -/
theorem readU64_writeU64_disjoint (buf : Bytes) (off off' v : Nat) (h : off + 8 ≤ off' ∨ off' + 8 ≤ off) :
    readU64 (writeU64 buf off' v) off = readU64 buf off := by
  apply readU64_congr
  intro j hj
  apply getD_writeU64_out
  omega

theorem fixedBufLen_ge (d e : Nat) : d + 8 ≤ fixedBufLen d e ∧ e + 8 ≤ fixedBufLen d e := by
  unfold fixedBufLen; split <;> omega

theorem size_fixedPrepare (buf : Bytes) (d e b l : Nat) : (fixedPrepare buf d e b l).size = buf.size := by
  rw [fixedPrepare, size_writeU64, size_writeU64]

end VmL
end Rbpf
