/-
  Helper lemmas for C13: the mnemonic table of the assembler model against the specification's literal
  table, `encode`/`mkInsn` against `denote`, digit strings, and the parser against the spellings.
-/
import RbpfModel.Model.Asm
import RbpfModel.Model.AsmSpec
namespace Rbpf
open Asm AsmSpec
def typeOf : AsmSpec.Shape → Asm.InstType
  | .aluBin => .aluBinary | .aluUn => .aluUnary | .loadImm => .loadImm | .loadAbs => .loadAbs
  | .loadInd => .loadInd | .loadReg => .loadReg | .storeImm => .storeImm | .storeReg => .storeReg
  | .ja => .jumpUnconditional | .jcc => .jumpConditional | .call => .call | .callx => .callx
  | .endian bits => .endian (bits : Int) | .noOp => .noOperand

-- mnemonic table ---------------------------------------------------------------------------------------

set_option maxRecDepth 100000 in
theorem table_sub_map : ∀ r ∈ AsmSpec.table, Asm.lookup r.1.toList = some (typeOf r.2.1, r.2.2) := by
  decide +kernel

set_option maxRecDepth 100000 in
theorem map_sub_table : ∀ e ∈ Asm.instructionMap,
    (AsmSpec.find e.1.toList).map (fun (sh, opc) => (typeOf sh, opc)) = some e.2 := by
  decide +kernel

theorem lookup_eq_find (name : List Char) :
    Asm.lookup name = (AsmSpec.find name).map (fun (sh, opc) => (typeOf sh, opc)) := by
  cases h : AsmSpec.find name with
  | some v =>
    unfold AsmSpec.find at h
    rw [Option.map_eq_some_iff] at h
    obtain ⟨r, hr, rfl⟩ := h
    have hm := List.mem_of_find?_eq_some hr
    have hp := List.find?_some hr
    simp only [beq_iff_eq] at hp
    rw [← hp, table_sub_map r hm]; rfl
  | none =>
    cases h' : Asm.lookup name with
    | none => rfl
    | some w =>
      exfalso
      unfold Asm.lookup at h'
      rw [Option.map_eq_some_iff] at h'
      obtain ⟨e, he, rfl⟩ := h'
      have hm := List.mem_of_find?_eq_some he
      have hp := List.find?_some he
      simp only [beq_iff_eq] at hp
      have := map_sub_table e hm
      rw [hp, h] at this
      simp at this

-- encode ---------------------------------------------------------------------------------------------

/-- what the parser produces: register numbers in [0, 2^63), integers and memory offsets in [-2^63, 2^63).
    (The non-negativity of register numbers matters: `insn()` checks `dst < 0 || src >= 16`, i.e. it never
    rejects a negative source register; the parser cannot produce one.) -/
def OperandI64 : Operand → Prop
  | .register n => 0 ≤ n ∧ n < 2 ^ 63
  | .integer v => imm64Ok v
  | .memory r off => (0 ≤ r ∧ r < 2 ^ 63) ∧ imm64Ok off

theorem mkInsn_eq (opc : Nat) (d s o v : Int) (hs : 0 ≤ s) :
    mkInsn opc d s o v = if regOk d ∧ regOk s ∧ offOk o ∧ immOk v then some (mk opc d s o v) else none := by
  unfold mkInsn regOk offOk immOk mk
  by_cases h1 : 0 ≤ d ∧ d < 16 <;> by_cases h2 : s < 16 <;> by_cases h3 : -32768 ≤ o ∧ o < 32768 <;>
    by_cases h4 : -2147483648 ≤ v ∧ v < 2147483648 <;> simp [h1, h2, h3, h4, hs] <;> omega

/-- the assembler's second `lddw` slot and the per-instruction outcome -/
def secondSlot (t : InstType) (ops : List Operand) : Outcome (List Insn) :=
  match t, ops with
  | .loadImm, [_, .integer imm] =>
    match mkInsn 0 0 0 0 (high32s imm) with
    | some y => Outcome.ok [y]
    | none => .panic
  | _, _ => .ok []

theorem secondSlot_ne_err (t : InstType) (ops : List Operand) : secondSlot t ops ≠ .err := by
  unfold secondSlot
  split
  · split <;> simp
  · simp

def asmOne (sh : Shape) (opc : Nat) (ops : List Operand) : Outcome (List Insn) :=
  match encode (typeOf sh) opc ops with
  | none => .err
  | some x =>
    match secondSlot (typeOf sh) ops with
    | .ok ys => .ok (x :: ys)
    | .panic => .panic
    | .err => .err

def denoteShape (sh : Shape) (opc : Nat) (ops : List Operand) : Option (List Insn) :=
    match sh, ops with
    | .aluBin, [.register d, .register s] => if regOk d ∧ regOk s then some [mk (opc + 8) d s 0 0] else none
    | .aluBin, [.register d, .integer v] => if regOk d ∧ immOk v then some [mk opc d 0 0 v] else none
    | .aluUn, [.register d] => if regOk d then some [mk opc d 0 0 0] else none
    | .loadImm, [.register d, .integer v] =>
        if regOk d ∧ imm64Ok v then some [mk opc d 0 0 (v % 2 ^ 32), mk 0 0 0 0 (v / 2 ^ 32)] else none
    | .loadAbs, [.integer v] => if immOk v then some [mk opc 0 0 0 v] else none
    | .loadInd, [.register s, .integer v] => if regOk s ∧ immOk v then some [mk opc 0 s 0 v] else none
    | .loadReg, [.register d, .memory s o] => if regOk d ∧ regOk s ∧ offOk o then some [mk opc d s o 0] else none
    | .storeImm, [.memory d o, .integer v] => if regOk d ∧ offOk o ∧ immOk v then some [mk opc d 0 o v] else none
    | .storeReg, [.memory d o, .register s] => if regOk d ∧ regOk s ∧ offOk o then some [mk opc d s o 0] else none
    | .ja, [.integer o] => if offOk o then some [mk opc 0 0 o 0] else none
    | .jcc, [.register d, .register s, .integer o] => if regOk d ∧ regOk s ∧ offOk o then some [mk (opc + 8) d s o 0] else none
    | .jcc, [.register d, .integer v, .integer o] => if regOk d ∧ immOk v ∧ offOk o then some [mk opc d 0 o v] else none
    | .call, [.integer v] => if immOk v then some [mk opc 0 0 0 v] else none
    | .callx, [.integer v] => if immOk v then some [mk opc 0 1 0 v] else none
    | .endian bits, [.register d] => if regOk d then some [mk opc d 0 0 bits] else none
    | .noOp, [] => some [mk opc 0 0 0 0]
    | _, _ => none

theorem denote_eq (i : Instruction) : denote i = match find i.name with
    | none => none | some (sh, opc) => denoteShape sh opc i.operands := rfl

theorem regOk_zero : regOk 0 := by decide
theorem regOk_one : regOk 1 := by decide
theorem offOk_zero : offOk 0 := by decide
theorem immOk_zero : immOk 0 := by decide

theorem immOk_low32s (v : Int) : immOk (low32s v) := by
  unfold immOk low32s
  have h1 := BitVec.toInt_lt (x := BitVec.ofInt 32 v)
  have h2 := BitVec.le_toInt (x := BitVec.ofInt 32 v)
  omega

theorem mk_low32s (opc : Nat) (d s o v : Int) : mk opc d s o (low32s v) = mk opc d s o (v % 2 ^ 32) := by
  unfold mk low32s
  congr 1
  rw [BitVec.ofInt_toInt]
  apply BitVec.eq_of_toNat_eq
  simp [BitVec.toNat_ofInt]

theorem immOk_high32s (v : Int) (h : imm64Ok v) : immOk (high32s v) := by
  unfold immOk high32s; unfold imm64Ok at h
  simp only [Int.reducePow] at h ⊢; omega


set_option hygiene false in
macro "enc_cases" : tactic => `(tactic| (
  rcases ops with _ | ⟨o1, _ | ⟨o2, _ | ⟨o3, _ | ⟨o4, r⟩⟩⟩⟩ <;> (try cases o1) <;> (try cases o2) <;> (try cases o3) <;>
    simp [asmOne, secondSlot, encode, typeOf, OperandI64, denoteShape] at h ⊢))
macro "enc_close" : tactic => `(tactic| (
  rw [mkInsn_eq _ _ _ _ _ (by omega)]
  have := regOk_zero; have := regOk_one; have := offOk_zero; have := immOk_zero
  grind))

theorem asmOne_aluBin (opc : Nat) (hopc : opc ||| 8 = opc + 8) (ops : List Operand) (h : ∀ o ∈ ops, OperandI64 o) :
    asmOne .aluBin opc ops = match denoteShape .aluBin opc ops with | some xs => Outcome.ok xs | none => .err := by
  enc_cases
  all_goals enc_close

theorem asmOne_aluUn (opc : Nat) (ops : List Operand) (h : ∀ o ∈ ops, OperandI64 o) :
    asmOne .aluUn opc ops = match denoteShape .aluUn opc ops with | some xs => Outcome.ok xs | none => .err := by
  enc_cases
  all_goals enc_close

theorem asmOne_loadImm (opc : Nat) (ops : List Operand) (h : ∀ o ∈ ops, OperandI64 o) :
    asmOne .loadImm opc ops = match denoteShape .loadImm opc ops with | some xs => Outcome.ok xs | none => .err := by
  enc_cases
  rename_i n v
  rw [mkInsn_eq _ _ _ _ _ (by omega), mkInsn_eq _ _ _ _ _ (by omega)]
  have h1 := immOk_low32s v
  have h2 := immOk_high32s v h.2
  have h3 : high32s v = v / 4294967296 := rfl
  have h4 := mk_low32s opc n 0 0 v
  simp only [Int.reducePow] at h4
  by_cases h5 : regOk n <;> simp [regOk_zero, offOk_zero, h1, h2, h.2, h5, h4, ← h3]

theorem asmOne_endian (bits opc : Nat) (hb : bits < 2 ^ 31) (ops : List Operand) (h : ∀ o ∈ ops, OperandI64 o) :
    asmOne (.endian bits) opc ops = match denoteShape (.endian bits) opc ops with | some xs => Outcome.ok xs | none => .err := by
  enc_cases
  have : immOk (bits : Int) := by unfold immOk; omega
  all_goals enc_close

theorem asmOne_loadAbs (opc : Nat) (ops : List Operand) (h : ∀ o ∈ ops, OperandI64 o) :
    asmOne .loadAbs opc ops = match denoteShape .loadAbs opc ops with | some xs => Outcome.ok xs | none => .err := by
  enc_cases
  all_goals enc_close

theorem asmOne_loadInd (opc : Nat) (ops : List Operand) (h : ∀ o ∈ ops, OperandI64 o) :
    asmOne .loadInd opc ops = match denoteShape .loadInd opc ops with | some xs => Outcome.ok xs | none => .err := by
  enc_cases
  all_goals enc_close

theorem asmOne_loadReg (opc : Nat) (ops : List Operand) (h : ∀ o ∈ ops, OperandI64 o) :
    asmOne .loadReg opc ops = match denoteShape .loadReg opc ops with | some xs => Outcome.ok xs | none => .err := by
  enc_cases
  all_goals enc_close

theorem asmOne_storeImm (opc : Nat) (ops : List Operand) (h : ∀ o ∈ ops, OperandI64 o) :
    asmOne .storeImm opc ops = match denoteShape .storeImm opc ops with | some xs => Outcome.ok xs | none => .err := by
  enc_cases
  all_goals enc_close

theorem asmOne_storeReg (opc : Nat) (ops : List Operand) (h : ∀ o ∈ ops, OperandI64 o) :
    asmOne .storeReg opc ops = match denoteShape .storeReg opc ops with | some xs => Outcome.ok xs | none => .err := by
  enc_cases
  all_goals enc_close

theorem asmOne_ja (opc : Nat) (ops : List Operand) (h : ∀ o ∈ ops, OperandI64 o) :
    asmOne .ja opc ops = match denoteShape .ja opc ops with | some xs => Outcome.ok xs | none => .err := by
  enc_cases
  all_goals enc_close

theorem asmOne_jcc (opc : Nat) (hopc : opc ||| 8 = opc + 8) (ops : List Operand) (h : ∀ o ∈ ops, OperandI64 o) :
    asmOne .jcc opc ops = match denoteShape .jcc opc ops with | some xs => Outcome.ok xs | none => .err := by
  enc_cases
  all_goals enc_close

theorem asmOne_call (opc : Nat) (ops : List Operand) (h : ∀ o ∈ ops, OperandI64 o) :
    asmOne .call opc ops = match denoteShape .call opc ops with | some xs => Outcome.ok xs | none => .err := by
  enc_cases
  all_goals enc_close

theorem asmOne_callx (opc : Nat) (ops : List Operand) (h : ∀ o ∈ ops, OperandI64 o) :
    asmOne .callx opc ops = match denoteShape .callx opc ops with | some xs => Outcome.ok xs | none => .err := by
  enc_cases
  all_goals enc_close

theorem asmOne_noOp (opc : Nat) (ops : List Operand) (h : ∀ o ∈ ops, OperandI64 o) :
    asmOne .noOp opc ops = match denoteShape .noOp opc ops with | some xs => Outcome.ok xs | none => .err := by
  enc_cases
  all_goals enc_close

theorem asmOne_eq (sh : Shape) (opc : Nat) (ops : List Operand) (h : ∀ o ∈ ops, OperandI64 o)
    (hopc : sh = .aluBin ∨ sh = .jcc → opc ||| 8 = opc + 8) (hb : ∀ b, sh = .endian b → b < 2 ^ 31) :
    asmOne sh opc ops = match denoteShape sh opc ops with | some xs => Outcome.ok xs | none => .err := by
  cases sh
  case aluBin => exact asmOne_aluBin opc (hopc (.inl rfl)) ops h
  case jcc => exact asmOne_jcc opc (hopc (.inr rfl)) ops h
  case aluUn => exact asmOne_aluUn opc ops h
  case loadImm => exact asmOne_loadImm opc ops h
  case loadAbs => exact asmOne_loadAbs opc ops h
  case loadInd => exact asmOne_loadInd opc ops h
  case loadReg => exact asmOne_loadReg opc ops h
  case storeImm => exact asmOne_storeImm opc ops h
  case storeReg => exact asmOne_storeReg opc ops h
  case ja => exact asmOne_ja opc ops h
  case call => exact asmOne_call opc ops h
  case callx => exact asmOne_callx opc ops h
  case noOp => exact asmOne_noOp opc ops h
  case endian b => exact asmOne_endian b opc (hb b rfl) ops h

set_option maxRecDepth 100000 in
theorem table_opc_bit3 : ∀ r ∈ AsmSpec.table, r.2.1 = .aluBin ∨ r.2.1 = .jcc → r.2.2 ||| 8 = r.2.2 + 8 := by
  decide +kernel

def endianBits : Shape → Nat | .endian b => b | _ => 0
set_option maxRecDepth 100000 in
theorem table_endian_bits : ∀ r ∈ AsmSpec.table, endianBits r.2.1 < 2 ^ 31 := by
  decide +kernel

theorem find_endian_bits {name sh opc} (h : AsmSpec.find name = some (sh, opc)) :
    ∀ b, sh = .endian b → b < 2 ^ 31 := by
  unfold AsmSpec.find at h
  rw [Option.map_eq_some_iff] at h
  obtain ⟨r, hr, h2⟩ := h
  have := table_endian_bits r (List.mem_of_find?_eq_some hr)
  rw [h2] at this
  intro b hb; subst hb; exact this

theorem find_opc_bit3 {name sh opc} (h : AsmSpec.find name = some (sh, opc)) :
    sh = .aluBin ∨ sh = .jcc → opc ||| 8 = opc + 8 := by
  unfold AsmSpec.find at h
  rw [Option.map_eq_some_iff] at h
  obtain ⟨r, hr, h2⟩ := h
  have := table_opc_bit3 r (List.mem_of_find?_eq_some hr)
  rw [h2] at this; exact this



theorem assembleInternal_cons (i : Instruction) (rest : List Instruction) :
    assembleInternal (i :: rest) =
      match AsmSpec.find i.name with
      | none => .err
      | some (sh, opc) =>
        match asmOne sh opc i.operands, assembleInternal rest with
        | .ok xs, .ok zs => .ok (xs ++ zs)
        | .panic, _ => .panic
        | .err, _ => .err
        | .ok _, .panic => .panic
        | .ok _, .err => .err := by
  rw [assembleInternal, lookup_eq_find]
  cases AsmSpec.find i.name with
  | none => rfl
  | some v =>
    obtain ⟨sh, opc⟩ := v
    simp only [Option.map_some, asmOne]
    cases encode (typeOf sh) opc i.operands with
    | none => rfl
    | some x =>
      show (match secondSlot (typeOf sh) i.operands, assembleInternal rest with
        | .ok ys, .ok zs => Outcome.ok (x :: ys ++ zs)
        | .panic, _ => .panic
        | _, .panic => .panic
        | _, _ => .err) = _
      have hne := secondSlot_ne_err (typeOf sh) i.operands
      cases hs : secondSlot (typeOf sh) i.operands <;> cases assembleInternal rest <;>
        first | rfl | exact absurd hs hne

/-- `assemble_internal` against `denoteAll`, for operand lists the parser can produce -/
theorem assembleInternal_eq (is : List Instruction) (hi : ∀ i ∈ is, ∀ o ∈ i.operands, OperandI64 o) :
    assembleInternal is = (match denoteAll is with | some xs => .ok xs | none => .err) := by
  induction is with
  | nil => rfl
  | cons i rest ih =>
    have ih := ih (fun j hj => hi j (List.mem_cons_of_mem _ hj))
    rw [assembleInternal_cons, denoteAll, denote_eq, ih]
    cases hf : AsmSpec.find i.name with
    | none => rfl
    | some v =>
      obtain ⟨sh, opc⟩ := v
      simp only
      rw [asmOne_eq sh opc i.operands (hi i List.mem_cons_self) (find_opc_bit3 hf) (find_endian_bits hf)]
      cases denoteShape sh opc i.operands <;> cases denoteAll rest <;> rfl

-- characters and digit strings -------------------------------------------------------------------------

theorem decDigitChar_spec : ∀ n < 10, isDigit (Char.ofNat (48 + n)) = true ∧ digitVal (Char.ofNat (48 + n)) = n := by
  decide

theorem hexDigitChar_spec : ∀ u : Bool, ∀ n < 16,
    isHexDigit (hexDigitChar u n) = true ∧ hexVal (hexDigitChar u n) = n := by
  decide

theorem isDigit_zero : isDigit '0' = true := by decide
theorem digitVal_zero : digitVal '0' = 0 := by decide
theorem hexVal_zero : hexVal '0' = 0 := by decide
theorem isHexDigit_of_isDigit {c : Char} (h : isDigit c = true) : isHexDigit c = true := by
  simp [isHexDigit, h]

theorem decValue_append_single (ds : List Char) (c : Char) :
    decValue (ds ++ [c]) = decValue ds * 10 + digitVal c := by
  simp [decValue, List.foldl_append]

theorem hexValue_append_single (ds : List Char) (c : Char) :
    hexValue (ds ++ [c]) = hexValue ds * 16 + hexVal c := by
  simp [hexValue, List.foldl_append]

theorem decDigits_ne_nil (n : Nat) : decDigits n ≠ [] := by
  rw [decDigits]; split <;> simp

theorem hexDigits_ne_nil (u : Bool) (n : Nat) : hexDigits u n ≠ [] := by
  rw [hexDigits]; split <;> simp

theorem decDigits_isDigit (n : Nat) : ∀ c ∈ decDigits n, isDigit c = true := by
  induction n using Nat.strongRecOn with
  | _ n ih =>
    rw [decDigits]
    split
    · intro c hc; simp at hc; subst hc; exact (decDigitChar_spec n (by omega)).1
    · intro c hc
      rw [List.mem_append] at hc
      rcases hc with hc | hc
      · exact ih (n / 10) (by omega) c hc
      · simp at hc; subst hc; exact (decDigitChar_spec (n % 10) (by omega)).1

theorem hexDigits_isHexDigit (u : Bool) (n : Nat) : ∀ c ∈ hexDigits u n, isHexDigit c = true := by
  induction n using Nat.strongRecOn with
  | _ n ih =>
    rw [hexDigits]
    split
    · intro c hc; simp at hc; subst hc; exact (hexDigitChar_spec u n (by omega)).1
    · intro c hc
      rw [List.mem_append] at hc
      rcases hc with hc | hc
      · exact ih (n / 16) (by omega) c hc
      · simp at hc; subst hc; exact (hexDigitChar_spec u (n % 16) (by omega)).1

theorem decValue_decDigits (n : Nat) : decValue (decDigits n) = n := by
  induction n using Nat.strongRecOn with
  | _ n ih =>
    rw [decDigits]
    split
    · simp [decValue, (decDigitChar_spec n (by omega)).2]
    · rw [decValue_append_single, ih (n / 10) (by omega), (decDigitChar_spec (n % 10) (by omega)).2]; omega

theorem hexValue_hexDigits (u : Bool) (n : Nat) : hexValue (hexDigits u n) = n := by
  induction n using Nat.strongRecOn with
  | _ n ih =>
    rw [hexDigits]
    split
    · simp [hexValue, (hexDigitChar_spec u n (by omega)).2]
    · rw [hexValue_append_single, ih (n / 16) (by omega), (hexDigitChar_spec u (n % 16) (by omega)).2]; omega

theorem decValue_zeros_append (z : Nat) (ds : List Char) : decValue (List.replicate z '0' ++ ds) = decValue ds := by
  induction z with
  | zero => rfl
  | succ z ih =>
    rw [List.replicate_succ, List.cons_append]
    unfold decValue at ih ⊢
    rw [List.foldl_cons]; simpa [digitVal_zero] using ih

theorem hexValue_zeros_append (z : Nat) (ds : List Char) : hexValue (List.replicate z '0' ++ ds) = hexValue ds := by
  induction z with
  | zero => rfl
  | succ z ih =>
    rw [List.replicate_succ, List.cons_append]
    unfold hexValue at ih ⊢
    rw [List.foldl_cons]; simpa [hexVal_zero] using ih

-- `List.span` ------------------------------------------------------------------------------------------

theorem span_loop_eq {α} (p : α → Bool) (as acc : List α) :
    List.span.loop p as acc = (acc.reverse ++ as.takeWhile p, as.dropWhile p) := by
  induction as generalizing acc with
  | nil => simp [List.span.loop]
  | cons a as ih =>
    rw [List.span.loop]
    cases h : p a <;> simp [h, ih]

theorem span_eq {α} (p : α → Bool) (as : List α) : as.span p = (as.takeWhile p, as.dropWhile p) := by
  simp [List.span, span_loop_eq]

/-- the text `rest` does not begin with a character satisfying `p` -/
def NoHead (p : Char → Bool) (rest : List Char) : Prop := ∀ c, rest.head? = some c → p c = false

theorem takeWhile_noHead {p rest} (h : NoHead p rest) : rest.takeWhile p = [] := by
  cases rest with
  | nil => rfl
  | cons c t => simp [h c rfl]

theorem dropWhile_noHead {p rest} (h : NoHead p rest) : rest.dropWhile p = rest := by
  cases rest with
  | nil => rfl
  | cons c t => simp [h c rfl]

theorem span_append {p : Char → Bool} {ds rest : List Char} (hd : ∀ c ∈ ds, p c = true) (hr : NoHead p rest) :
    (ds ++ rest).span p = (ds, rest) := by
  rw [span_eq, List.takeWhile_append_of_pos hd, List.dropWhile_append_of_pos hd, takeWhile_noHead hr, dropWhile_noHead hr]
  simp

theorem span1_append {p : Char → Bool} {ds rest : List Char} (hne : ds ≠ []) (hd : ∀ c ∈ ds, p c = true)
    (hr : NoHead p rest) : span1 p (ds ++ rest) = some (ds, rest) := by
  unfold span1; rw [span_append hd hr]
  cases ds with
  | nil => exact absurd rfl hne
  | cons => rfl

theorem span1_noHead {p : Char → Bool} {rest : List Char} (hr : NoHead p rest) : span1 p rest = none := by
  have := span_append (ds := []) (p := p) (by simp) hr
  unfold span1; simp only [List.nil_append] at this; rw [this]

theorem skipSpaces_append (cc : CharClass) {ws rest : List Char} (hw : ∀ c ∈ ws, cc.isWs c = true)
    (hr : NoHead cc.isWs rest) : skipSpaces cc (ws ++ rest) = rest := by
  unfold skipSpaces; rw [List.dropWhile_append_of_pos hw, dropWhile_noHead hr]

-- character classes ------------------------------------------------------------------------------------

/-- ASCII letter -/
def isLetter (c : Char) : Bool := ('a' ≤ c && c ≤ 'z') || ('A' ≤ c && c ≤ 'Z')

/-- what C13/C16 need of the two Unicode-aware character classes (all true of Rust's `char::is_whitespace`,
    `is_alphanumeric`, `is_alphabetic`): ASCII letters are alphabetic and alphanumeric; ASCII digits are alphanumeric
    and not alphabetic; a whitespace character is not alphanumeric and is none of `, [ ] + -`; newline and blank
    are whitespace -/
structure SaneClasses (cc : CharClass) : Prop where
  letter : ∀ c, isLetter c = true → cc.isAlpha c = true ∧ cc.isAlnum c = true
  digit : ∀ c, isDigit c = true → cc.isAlnum c = true ∧ cc.isAlpha c = false
  ws : ∀ c, cc.isWs c = true → cc.isAlnum c = false ∧ c ≠ ',' ∧ c ≠ '[' ∧ c ≠ ']' ∧ c ≠ '+' ∧ c ≠ '-'
  nl : cc.isWs '\n' = true
  sp : cc.isWs ' ' = true

theorem isHexDigit_cases {c : Char} (h : isHexDigit c = true) : isDigit c = true ∨ isLetter c = true := by
  simp only [isHexDigit, isLetter, isDigit, Bool.or_eq_true, Bool.and_eq_true, decide_eq_true_eq, Char.le_def] at *
  have : 'f'.val ≤ 'z'.val := by decide
  have : 'F'.val ≤ 'Z'.val := by decide
  rcases h with (h | h) | h
  · exact .inl h
  · exact .inr (.inl ⟨h.1, UInt32.le_trans h.2 ‹_›⟩)
  · exact .inr (.inr ⟨h.1, UInt32.le_trans h.2 ‹_›⟩)

/-- the characters that may follow an operand: `,` `]` `+` `-`, whitespace, or the end of the text -/
def Stop (cc : CharClass) (rest : List Char) : Prop :=
  ∀ c, rest.head? = some c → c = ',' ∨ c = ']' ∨ c = '+' ∨ c = '-' ∨ cc.isWs c = true

theorem ws_not_hex {cc} (hcc : SaneClasses cc) {c : Char} (h : cc.isWs c = true) : isHexDigit c = false := by
  cases hh : isHexDigit c with
  | false => rfl
  | true =>
    have h1 := (hcc.ws c h).1
    rcases isHexDigit_cases hh with hd | hl
    · rw [(hcc.digit c hd).1] at h1; cases h1
    · rw [(hcc.letter c hl).2] at h1; cases h1

theorem ws_not_digit {cc} (hcc : SaneClasses cc) {c : Char} (h : cc.isWs c = true) : isDigit c = false := by
  cases hh : isDigit c with
  | false => rfl
  | true => have := ws_not_hex hcc h; rw [isHexDigit_of_isDigit hh] at this; cases this

theorem ws_not_letter {cc} (hcc : SaneClasses cc) {c : Char} (h : cc.isWs c = true) : isLetter c = false := by
  cases hh : isLetter c with
  | false => rfl
  | true => have h1 := (hcc.ws c h).1; rw [(hcc.letter c hh).2] at h1; cases h1

theorem stop_char {cc} (hcc : SaneClasses cc) {c : Char}
    (h : c = ',' ∨ c = ']' ∨ c = '+' ∨ c = '-' ∨ cc.isWs c = true) :
    isDigit c = false ∧ isHexDigit c = false ∧ c ≠ 'x' := by
  rcases h with h | h | h | h | h
  · subst h; decide
  · subst h; decide
  · subst h; decide
  · subst h; decide
  · refine ⟨ws_not_digit hcc h, ws_not_hex hcc h, ?_⟩
    intro hx; subst hx
    have := ws_not_letter hcc h
    exact absurd this (by decide)

theorem Stop.noDigit {cc} (hcc : SaneClasses cc) {rest} (h : Stop cc rest) : NoHead isDigit rest :=
  fun c hc => (stop_char hcc (h c hc)).1
theorem Stop.noHex {cc} (hcc : SaneClasses cc) {rest} (h : Stop cc rest) : NoHead isHexDigit rest :=
  fun c hc => (stop_char hcc (h c hc)).2.1

theorem stop_nil (cc) : Stop cc [] := fun c h => by simp at h
theorem stop_cons {cc c rest} (h : c = ',' ∨ c = ']' ∨ c = '+' ∨ c = '-' ∨ cc.isWs c = true) : Stop cc (c :: rest) :=
  fun c' h' => by simp at h'; subst h'; exact h

-- numbers ----------------------------------------------------------------------------------------------

/-- the decimal branch of `unsignedNumber` -/
def decNumber (s : List Char) : PR (Nat × Bool) :=
  match span1 isDigit s with
  | some (ds, rest) => if decValue ds < 2 ^ 64 then .ok (decValue ds, false) rest else .errCommit
  | none => .errEmpty

theorem unsignedNumber_dec (s : List Char) (h : ∀ t, s ≠ '0' :: 'x' :: t) : unsignedNumber s = decNumber s := by
  unfold unsignedNumber decNumber
  split
  · exact absurd rfl (h _)
  · rfl

theorem unsignedNumber_decText {cc} (hcc : SaneClasses cc) {ds rest : List Char} (hne : ds ≠ [])
    (hd : ∀ c ∈ ds, isDigit c = true) (hr : Stop cc rest) (hv : decValue ds < 2 ^ 64) :
    unsignedNumber (ds ++ rest) = .ok (decValue ds, false) rest := by
  rw [unsignedNumber_dec]
  · unfold decNumber; rw [span1_append hne hd (hr.noDigit hcc)]; simp [hv]
  · intro t ht
    rcases ds with _ | ⟨d, _ | ⟨d2, ds⟩⟩
    · exact hne rfl
    · cases rest with
      | nil => simp at ht
      | cons c rest =>
        simp at ht
        exact (stop_char hcc (hr c rfl)).2.2 ht.2.1
    · simp at ht
      have := hd d2 (by simp)
      rw [ht.2.1] at this; revert this; decide

theorem unsignedNumber_hexText {cc} (hcc : SaneClasses cc) {ds rest : List Char} (hne : ds ≠ [])
    (hd : ∀ c ∈ ds, isHexDigit c = true) (hr : Stop cc rest) (hv : hexValue ds < 2 ^ 64) :
    unsignedNumber ('0' :: 'x' :: (ds ++ rest)) = .ok (hexValue ds, true) rest := by
  unfold unsignedNumber
  simp only [span1_append hne hd (hr.noHex hcc), hv, if_true]

/-- how a numeric literal is written: sign (`-`, explicit `+`, none), radix, case of hex digits, leading zeros,
    magnitude -/
structure NumSpelling where
  neg : Bool
  plus : Bool
  hex : Bool
  upper : Bool
  zeros : Nat
  mag : Nat

def NumSpelling.body (sp : NumSpelling) : List Char :=
  if sp.hex then '0' :: 'x' :: (List.replicate sp.zeros '0' ++ hexDigits sp.upper sp.mag)
  else List.replicate sp.zeros '0' ++ decDigits sp.mag

def NumSpelling.text (sp : NumSpelling) : List Char :=
  if sp.neg then '-' :: sp.body else if sp.plus then '+' :: sp.body else sp.body

theorem replicate_zero_isDigit (z : Nat) : ∀ c ∈ List.replicate z '0', isDigit c = true := by
  intro c hc; rw [List.mem_replicate] at hc; rw [hc.2]; decide

theorem NumSpelling.body_head (sp : NumSpelling) : ∃ d t, sp.body = d :: t ∧ isDigit d = true := by
  unfold NumSpelling.body
  split
  · exact ⟨_, _, rfl, by decide⟩
  · have hall : ∀ c ∈ List.replicate sp.zeros '0' ++ decDigits sp.mag, isDigit c = true := by
      intro c hc; rw [List.mem_append] at hc
      rcases hc with hc | hc
      · exact replicate_zero_isDigit _ c hc
      · exact decDigits_isDigit _ c hc
    cases hb : List.replicate sp.zeros '0' ++ decDigits sp.mag with
    | nil => simp [decDigits_ne_nil] at hb
    | cons d t => exact ⟨d, t, rfl, hall d (by rw [hb]; simp)⟩

theorem unsignedNumber_body {cc} (hcc : SaneClasses cc) (sp : NumSpelling) (hm : sp.mag < 2 ^ 64) {rest}
    (hr : Stop cc rest) : unsignedNumber (sp.body ++ rest) = .ok (sp.mag, sp.hex) rest := by
  unfold NumSpelling.body
  cases hh : sp.hex with
  | true =>
    simp only [if_true, List.cons_append]
    have hv := hexValue_zeros_append sp.zeros (hexDigits sp.upper sp.mag)
    rw [hexValue_hexDigits] at hv
    rw [unsignedNumber_hexText hcc (by simp [hexDigits_ne_nil]) _ hr (by rw [hv]; exact hm), hv]
    intro c hc; rw [List.mem_append] at hc
    rcases hc with hc | hc
    · exact isHexDigit_of_isDigit (replicate_zero_isDigit _ c hc)
    · exact hexDigits_isHexDigit _ _ c hc
  | false =>
    simp only [Bool.false_eq_true, if_false]
    have hv := decValue_zeros_append sp.zeros (decDigits sp.mag)
    rw [decValue_decDigits] at hv
    rw [unsignedNumber_decText hcc (by simp [decDigits_ne_nil]) _ hr (by rw [hv]; exact hm), hv]
    intro c hc; rw [List.mem_append] at hc
    rcases hc with hc | hc
    · exact replicate_zero_isDigit _ c hc
    · exact decDigits_isDigit _ c hc

/-- the continuation of `integer` after the optional sign -/
def integerFin (neg consumedSign : Bool) (t : List Char) : PR Int :=
  match unsignedNumber t with
  | .ok (m, isHex) rest =>
    match applySign neg m isHex with
    | some v => .ok v rest
    | none => .errCommit
  | .errEmpty => if consumedSign then .errCommit else .errEmpty
  | .errCommit => .errCommit
  | .panic => .panic

theorem integer_eq (s : List Char) : integer s =
    match s with
    | '-' :: t => integerFin true true t
    | '+' :: t => integerFin false true t
    | _ => integerFin false false s := rfl

theorem integer_unsigned (s : List Char) (h1 : ∀ t, s ≠ '-' :: t) (h2 : ∀ t, s ≠ '+' :: t) :
    integer s = integerFin false false s := by
  rw [integer_eq]
  split
  · exact absurd rfl (h1 _)
  · exact absurd rfl (h2 _)
  · rfl

theorem integer_text {cc} (hcc : SaneClasses cc) (sp : NumSpelling) (hm : sp.mag < 2 ^ 64) {rest}
    (hr : Stop cc rest) {v : Int} (hv : applySign sp.neg sp.mag sp.hex = some v) :
    integer (sp.text ++ rest) = .ok v rest := by
  have hu := unsignedNumber_body hcc sp hm hr
  unfold NumSpelling.text
  cases hn : sp.neg with
  | true =>
    simp only [if_true, List.cons_append, integer_eq, integerFin, hu]
    rw [hn] at hv; simp only [hv]
  | false =>
    rw [hn] at hv
    cases hp : sp.plus with
    | true =>
      simp only [Bool.false_eq_true, if_false, if_true, List.cons_append, integer_eq, integerFin, hu]
      simp only [hv]
    | false =>
      simp only [Bool.false_eq_true, if_false]
      obtain ⟨d, t, hb, hd⟩ := sp.body_head
      rw [integer_unsigned, integerFin, hu]
      · simp only [hv]
      · intro t' ht; rw [hb] at ht; simp at ht; rw [ht.1] at hd; revert hd; decide
      · intro t' ht; rw [hb] at ht; simp at ht; rw [ht.1] at hd; revert hd; decide

-- operands ---------------------------------------------------------------------------------------------

theorem register_text {cc} (hcc : SaneClasses cc) (r : Nat) (hr : r < 2 ^ 63) {rest : List Char}
    (hs : NoHead isDigit rest) : register cc ('r' :: (decDigits r ++ rest)) = .ok (r : Int) rest := by
  have hd := decDigits_isDigit r
  cases hb : decDigits r with
  | nil => exact absurd hb (decDigits_ne_nil r)
  | cons d t =>
    have hdd : isDigit d = true := hd d (by rw [hb]; simp)
    have hsp : span1 isDigit (d :: t ++ rest) = some (d :: t, rest) :=
      span1_append (by simp) (by rw [← hb]; exact hd) hs
    have hv : decValue (d :: t) = r := by rw [← hb]; exact decValue_decDigits r
    simp only [register, List.cons_append, (hcc.digit d hdd).2, Bool.false_eq_true, if_false]
    rw [List.cons_append] at hsp
    simp only [hsp, hv, hr, if_true]

theorem register_errEmpty_of_ne {cc} (s : List Char) (h : ∀ t, s ≠ 'r' :: t) : register cc s = .errEmpty := by
  unfold register
  split
  · exact absurd rfl (h _)
  · rfl

theorem register_errEmpty_of_alpha {cc} (c : Char) (t : List Char) (h : cc.isAlpha c = true) :
    register cc ('r' :: c :: t) = .errEmpty := by
  simp [register, h]

/-- a text that starts no operand: empty, or beginning with an ASCII letter which, if it is `r`, is followed by
    another ASCII letter (a mnemonic such as `rsh`) -/
def NameStart (s : List Char) : Prop :=
  ∃ c t, s = c :: t ∧ isLetter c = true ∧ (c = 'r' → ∃ c2 t2, t = c2 :: t2 ∧ isLetter c2 = true)

theorem letter_not_digit {c : Char} (h : isLetter c = true) : isDigit c = false := by
  cases hd : isDigit c with
  | false => rfl
  | true =>
    exfalso
    simp only [isLetter, isDigit, Bool.or_eq_true, Bool.and_eq_true, decide_eq_true_eq, Char.le_def] at h hd
    have h1 : '9'.val < 'a'.val := by decide
    have h2 : '9'.val < 'A'.val := by decide
    rcases h with h | h
    · exact absurd (UInt32.lt_of_lt_of_le (UInt32.lt_of_le_of_lt hd.2 h1) h.1) (UInt32.lt_irrefl _)
    · exact absurd (UInt32.lt_of_lt_of_le (UInt32.lt_of_le_of_lt hd.2 h2) h.1) (UInt32.lt_irrefl _)

theorem integerFin_errEmpty (s : List Char) (h : NoHead isDigit s) : integerFin false false s = .errEmpty := by
  have h0 : ∀ t, s ≠ '0' :: 'x' :: t := by
    intro t ht; subst ht; have := h '0' rfl; revert this; decide
  simp [integerFin, unsignedNumber_dec s h0, decNumber, span1_noHead h]

theorem integer_errEmpty (s : List Char) (h : NoHead isDigit s) (h1 : ∀ t, s ≠ '-' :: t) (h2 : ∀ t, s ≠ '+' :: t) :
    integer s = .errEmpty := by
  rw [integer_unsigned s h1 h2, integerFin_errEmpty s h]

theorem memory_errEmpty {cc} (s : List Char) (h : ∀ t, s ≠ '[' :: t) : memory cc s = .errEmpty := by
  unfold memory
  split
  · exact absurd rfl (h _)
  · rfl

theorem operand_errEmpty_nil {cc} : operand cc [] = .errEmpty := by
  simp [operand, register, integer_eq, integerFin, unsignedNumber, span1, List.span, List.span.loop, memory]

theorem operand_errEmpty {cc} (hcc : SaneClasses cc) {s : List Char} (h : s = [] ∨ NameStart s) :
    operand cc s = .errEmpty := by
  rcases h with h | ⟨c, t, hs, hl, hr⟩
  · subst h; exact operand_errEmpty_nil
  · subst hs
    have hreg : register cc (c :: t) = .errEmpty := by
      by_cases hc : c = 'r'
      · obtain ⟨c2, t2, ht, hl2⟩ := hr hc
        subst hc ht
        exact register_errEmpty_of_alpha _ _ (hcc.letter c2 hl2).1
      · exact register_errEmpty_of_ne _ (by intro t' ht; simp at ht; exact hc ht.1)
    have hint : integer (c :: t) = .errEmpty := by
      apply integer_errEmpty
      · intro c' hc'; simp at hc'; subst hc'; exact letter_not_digit hl
      · intro t' ht; simp at ht; rw [ht.1] at hl; revert hl; decide
      · intro t' ht; simp at ht; rw [ht.1] at hl; revert hl; decide
    have hmem : memory cc (c :: t) = .errEmpty := by
      apply memory_errEmpty
      intro t' ht; simp at ht; rw [ht.1] at hl; revert hl; decide
    simp [operand, hreg, hint, hmem]

/-- `t` is a spelling of the operand `o`: `rN` (decimal), a numeric literal, `[rN]`, `[rN±literal]` -/
inductive OperandText : List Char → Operand → Prop
  | reg (r : Nat) (h : r < 2 ^ 63) : OperandText ('r' :: decDigits r) (.register r)
  | int (sp : NumSpelling) (v : Int) (hm : sp.mag < 2 ^ 64) (hv : applySign sp.neg sp.mag sp.hex = some v) :
      OperandText sp.text (.integer v)
  | mem0 (r : Nat) (h : r < 2 ^ 63) : OperandText ('[' :: 'r' :: (decDigits r ++ [']'])) (.memory r 0)
  | mem (r : Nat) (h : r < 2 ^ 63) (sp : NumSpelling) (off : Int) (hm : sp.mag < 2 ^ 64)
      (hv : applySign sp.neg sp.mag sp.hex = some off) (hs : sp.neg = true ∨ sp.plus = true) :
      OperandText ('[' :: 'r' :: (decDigits r ++ (sp.text ++ [']']))) (.memory r off)

theorem NumSpelling.text_head (sp : NumSpelling) :
    ∃ d t, sp.text = d :: t ∧ (d = '-' ∨ d = '+' ∨ isDigit d = true) ∧ (sp.neg = true ∨ sp.plus = true → d = '-' ∨ d = '+') := by
  unfold NumSpelling.text
  cases sp.neg with
  | true => exact ⟨_, _, rfl, .inl rfl, fun _ => .inl rfl⟩
  | false =>
    cases sp.plus with
    | true => exact ⟨_, _, rfl, .inr (.inl rfl), fun _ => .inr rfl⟩
    | false =>
      obtain ⟨d, t, hb, hd⟩ := sp.body_head
      exact ⟨d, t, by simpa using hb, .inr (.inr hd), fun h => by simp at h⟩

theorem operand_text {cc} (hcc : SaneClasses cc) {t : List Char} {o : Operand} (ht : OperandText t o)
    {rest : List Char} (hr : Stop cc rest) : operand cc (t ++ rest) = .ok o rest := by
  cases ht with
  | reg r h =>
    simp only [List.cons_append, operand, register_text hcc r h (hr.noDigit hcc)]
  | int sp v hm hv =>
    obtain ⟨d, t, htx, hd, -⟩ := sp.text_head
    have hreg : register cc (sp.text ++ rest) = .errEmpty := by
      apply register_errEmpty_of_ne
      intro t' ht'; rw [htx] at ht'; simp at ht'
      rcases hd with hd | hd | hd <;> (rw [ht'.1] at hd; revert hd; decide)
    simp only [operand, hreg, integer_text hcc sp hm hr hv]
  | mem0 r h =>
    have hreg : register cc ('[' :: 'r' :: (decDigits r ++ [']']) ++ rest) = .errEmpty :=
      register_errEmpty_of_ne _ (by intro t' ht'; simp at ht')
    have hint : integer ('[' :: 'r' :: (decDigits r ++ [']']) ++ rest) = .errEmpty := by
      apply integer_errEmpty
      · intro c hc; simp at hc; subst hc; decide
      · intro t' ht'; simp at ht'
      · intro t' ht'; simp at ht'
    have hr2 : register cc ('r' :: (decDigits r ++ ']' :: rest)) = .ok (r : Int) (']' :: rest) :=
      register_text hcc r h (by intro c hc; simp at hc; subst hc; decide)
    have hi2 : integer (']' :: rest) = .errEmpty := by
      apply integer_errEmpty
      · intro c hc; simp at hc; subst hc; decide
      · intro t' ht'; simp at ht'
      · intro t' ht'; simp at ht'
    simp only [operand, hreg, hint]
    simp only [List.cons_append, List.append_assoc, List.nil_append, memory, hr2, hi2]
  | mem r h sp off hm hv hs =>
    have hreg : register cc ('[' :: 'r' :: (decDigits r ++ (sp.text ++ [']'])) ++ rest) = .errEmpty :=
      register_errEmpty_of_ne _ (by intro t' ht'; simp at ht')
    have hint : integer ('[' :: 'r' :: (decDigits r ++ (sp.text ++ [']'])) ++ rest) = .errEmpty := by
      apply integer_errEmpty
      · intro c hc; simp at hc; subst hc; decide
      · intro t' ht'; simp at ht'
      · intro t' ht'; simp at ht'
    obtain ⟨d, t, htx, -, hd⟩ := sp.text_head
    have hr2 : register cc ('r' :: (decDigits r ++ (sp.text ++ ']' :: rest))) = .ok (r : Int) (sp.text ++ ']' :: rest) := by
      apply register_text hcc r h
      intro c hc; rw [htx] at hc; simp at hc; subst hc
      rcases hd hs with hd | hd <;> (rw [hd]; decide)
    have hi2 : integer (sp.text ++ ']' :: rest) = .ok off (']' :: rest) :=
      integer_text hcc sp hm (stop_cons (.inr (.inl rfl))) hv
    simp only [operand, hreg, hint]
    simp only [List.cons_append, List.append_assoc, List.nil_append, memory, hr2, hi2]

/-- an operand text begins with none of the whitespace characters -/
theorem OperandText.noWs {cc} (hcc : SaneClasses cc) {t o} (ht : OperandText t o) (rest : List Char) :
    NoHead cc.isWs (t ++ rest) := by
  intro c hc
  cases hw : cc.isWs c with
  | false => rfl
  | true =>
    exfalso
    have hws := hcc.ws c hw
    cases ht with
    | reg r h =>
      simp at hc; subst hc
      exact absurd (ws_not_letter hcc hw) (by decide)
    | int sp v hm hv =>
      obtain ⟨d, t, htx, hd, -⟩ := sp.text_head
      rw [htx] at hc; simp at hc; subst hc
      rcases hd with hd | hd | hd
      · exact hws.2.2.2.2.2 hd
      · exact hws.2.2.2.2.1 hd
      · rw [ws_not_digit hcc hw] at hd; cases hd
    | mem0 r h => simp at hc; exact hws.2.2.1 hc.symm
    | mem r h sp off hm hv hs => simp at hc; exact hws.2.2.1 hc.symm

-- operand lists, instructions, programs ----------------------------------------------------------------

/-- the operand texts after the first: each preceded by a comma and the whitespace `ws` -/
def tailText (ws : List Char) : List (List Char × Operand) → List Char
  | [] => []
  | (t, _) :: rest => ',' :: (ws ++ (t ++ tailText ws rest))

/-- an operand list: the texts separated by a comma and the whitespace `ws` -/
def opsText (ws : List Char) : List (List Char × Operand) → List Char
  | [] => []
  | (t, _) :: rest => t ++ tailText ws rest

theorem length_tailText (ws : List Char) (ops : List (List Char × Operand)) :
    ops.length ≤ (tailText ws ops).length := by
  induction ops with
  | nil => simp [tailText]
  | cons p ops ih => obtain ⟨t, o⟩ := p; simp [tailText]; omega

/-- the text after an operand list: empty or beginning with whitespace -/
def End (cc : CharClass) (rest : List Char) : Prop := ∀ c, rest.head? = some c → cc.isWs c = true

theorem End.stop {cc rest} (h : End cc rest) : Stop cc rest :=
  fun c hc => .inr (.inr (.inr (.inr (h c hc))))

theorem End.noComma {cc} (hcc : SaneClasses cc) {rest} (h : End cc rest) : ∀ t, rest ≠ ',' :: t := by
  intro t ht; subst ht
  exact (hcc.ws ',' (h ',' rfl)).2.1 rfl

theorem operandsTail_text {cc} (hcc : SaneClasses cc) {ws : List Char} (hws : ∀ c ∈ ws, cc.isWs c = true)
    (ops : List (List Char × Operand)) (hops : ∀ p ∈ ops, OperandText p.1 p.2) {rest : List Char}
    (hr : End cc rest) (fuel : Nat) (hf : ops.length ≤ fuel) (acc : List Operand) :
    operandsTail cc fuel (tailText ws ops ++ rest) acc = .ok (acc.reverse ++ ops.map (·.2)) rest := by
  induction ops generalizing fuel acc with
  | nil =>
    simp only [tailText, List.nil_append, List.map_nil, List.append_nil]
    cases fuel with
    | zero => rfl
    | succ f =>
      unfold operandsTail
      split
      · exact absurd rfl (hr.noComma hcc _)
      · rfl
  | cons p ops ih =>
    obtain ⟨t, o⟩ := p
    cases fuel with
    | zero => simp at hf
    | succ f =>
      have hto : OperandText t o := hops (t, o) (by simp)
      have hstop : Stop cc (tailText ws ops ++ rest) := by
        cases ops with
        | nil => simpa [tailText] using hr.stop
        | cons q ops => obtain ⟨t', o'⟩ := q; exact stop_cons (.inl rfl)
      have hsk : skipSpaces cc (ws ++ (t ++ (tailText ws ops ++ rest))) = t ++ (tailText ws ops ++ rest) :=
        skipSpaces_append cc hws (hto.noWs hcc _)
      simp only [tailText, List.cons_append, List.append_assoc, operandsTail, hsk, operand_text hcc hto hstop]
      rw [ih (fun p hp => hops p (List.mem_cons_of_mem _ hp)) f (by simpa using hf)]
      simp

theorem operands_text {cc} (hcc : SaneClasses cc) {ws : List Char} (hws : ∀ c ∈ ws, cc.isWs c = true)
    (ops : List (List Char × Operand)) (hne : ops ≠ []) (hops : ∀ p ∈ ops, OperandText p.1 p.2) {rest : List Char}
    (hr : End cc rest) : operands cc (opsText ws ops ++ rest) = .ok (ops.map (·.2)) rest := by
  cases ops with
  | nil => exact absurd rfl hne
  | cons p ops =>
    obtain ⟨t, o⟩ := p
    have hto : OperandText t o := hops (t, o) (by simp)
    have hstop : Stop cc (tailText ws ops ++ rest) := by
      cases ops with
      | nil => simpa [tailText] using hr.stop
      | cons q ops => obtain ⟨t', o'⟩ := q; exact stop_cons (.inl rfl)
    simp only [opsText, List.append_assoc, operands, operand_text hcc hto hstop]
    rw [operandsTail_text hcc hws ops (fun p hp => hops p (List.mem_cons_of_mem _ hp)) hr]
    · simp
    · have := length_tailText ws ops; simp; omega

theorem operands_none {cc} (hcc : SaneClasses cc) {s : List Char} (h : s = [] ∨ NameStart s) :
    operands cc s = .ok [] s := by
  simp only [operands, operand_errEmpty hcc h]

/-- one instruction of a program text: mnemonic, whitespace after it, the operand texts with the operands they
    spell, the whitespace after each comma, and the whitespace that follows the instruction -/
structure InsnText where
  name : List Char
  afterName : List Char
  afterComma : List Char
  ops : List (List Char × Operand)
  sep : List Char

def InsnText.text (x : InsnText) : List Char :=
  x.name ++ (x.afterName ++ (opsText x.afterComma x.ops ++ x.sep))

def InsnText.instr (x : InsnText) : Instruction := { name := x.name, operands := x.ops.map (·.2) }

/-- a mnemonic-like word: ASCII letters and digits, beginning with a letter, and not of the form `r<non-letter>…` -/
structure NameOk (name : List Char) : Prop where
  chars : ∀ c ∈ name, isLetter c = true ∨ isDigit c = true
  start : NameStart name

structure InsnTextOk (cc : CharClass) (x : InsnText) : Prop where
  name : NameOk x.name
  afterName : ∀ c ∈ x.afterName, cc.isWs c = true
  afterComma : ∀ c ∈ x.afterComma, cc.isWs c = true
  sep : ∀ c ∈ x.sep, cc.isWs c = true
  gap : x.ops ≠ [] → x.afterName ≠ []
  ops : ∀ p ∈ x.ops, OperandText p.1 p.2

theorem NameStart.append {s : List Char} (h : NameStart s) (more : List Char) : NameStart (s ++ more) := by
  obtain ⟨c, t, hs, hl, hr⟩ := h
  refine ⟨c, t ++ more, by rw [hs]; rfl, hl, fun hc => ?_⟩
  obtain ⟨c2, t2, ht, hl2⟩ := hr hc
  exact ⟨c2, t2 ++ more, by rw [ht]; rfl, hl2⟩

theorem NameStart.noWs {cc} (hcc : SaneClasses cc) {s : List Char} (h : s = [] ∨ NameStart s) : NoHead cc.isWs s := by
  intro c hc
  rcases h with h | ⟨c', t, hs, hl, -⟩
  · subst h; simp at hc
  · subst hs; simp at hc; subst hc
    cases hw : cc.isWs c' with
    | false => rfl
    | true => rw [ws_not_letter hcc hw] at hl; cases hl

theorem end_ws_append {cc} {ws next : List Char} (hws : ∀ c ∈ ws, cc.isWs c = true) (h : ws = [] → next = []) :
    End cc (ws ++ next) := by
  intro c hc
  cases ws with
  | nil => rw [h rfl] at hc; simp at hc
  | cons w ws => simp at hc; subst hc; exact hws _ (by simp)

theorem End.noAlnum {cc} (hcc : SaneClasses cc) {rest} (h : End cc rest) : NoHead cc.isAlnum rest :=
  fun c hc => (hcc.ws c (h c hc)).1

theorem instruction_text {cc} (hcc : SaneClasses cc) (x : InsnText) (hx : InsnTextOk cc x) (next : List Char)
    (hn : next = [] ∨ (x.sep ≠ [] ∧ NameStart next)) :
    instruction cc (x.text ++ next) = .ok x.instr next := by
  have hnext : next = [] ∨ NameStart next := hn.imp id (·.2)
  have hsepnext : x.sep = [] → next = [] := by
    intro hs; rcases hn with h | h
    · exact h
    · exact absurd hs h.1
  have hname_ne : x.name ≠ [] := by
    obtain ⟨c, t, hs, -, -⟩ := hx.name.start; rw [hs]; simp
  have hname_alnum : ∀ c ∈ x.name, cc.isAlnum c = true := by
    intro c hc
    rcases hx.name.chars c hc with h | h
    · exact (hcc.letter c h).2
    · exact (hcc.digit c h).1
  have hsk2 : skipSpaces cc (x.sep ++ next) = next := skipSpaces_append cc hx.sep (NameStart.noWs hcc hnext)
  unfold InsnText.text InsnText.instr
  by_cases hops : x.ops = []
  · -- no operands: the whitespace runs up to the next mnemonic
    have hR : End cc ((x.afterName ++ x.sep) ++ next) :=
      end_ws_append (by intro c hc; rw [List.mem_append] at hc; exact hc.elim (hx.afterName c) (hx.sep c))
        (by intro h; simp at h; exact hsepnext h.2)
    have hid : ident cc (x.name ++ ((x.afterName ++ x.sep) ++ next)) = .ok x.name ((x.afterName ++ x.sep) ++ next) := by
      simp only [ident, span1_append hname_ne hname_alnum (hR.noAlnum hcc)]
    have hsk : skipSpaces cc ((x.afterName ++ x.sep) ++ next) = next :=
      skipSpaces_append cc (by intro c hc; rw [List.mem_append] at hc; exact hc.elim (hx.afterName c) (hx.sep c))
        (NameStart.noWs hcc hnext)
    have hsk3 : skipSpaces cc next = next := by
      have := skipSpaces_append cc (ws := []) (by simp) (NameStart.noWs hcc hnext); simpa using this
    simp only [hops, opsText, List.nil_append, List.map_nil, List.append_assoc] at hid ⊢
    simp only [instruction, hid]
    rw [← List.append_assoc, hsk]
    simp only [operands_none hcc hnext, hsk3]
  · have han := hx.gap hops
    have hR : End cc (x.afterName ++ (opsText x.afterComma x.ops ++ (x.sep ++ next))) :=
      end_ws_append hx.afterName (fun h => absurd h han)
    have hid : ident cc (x.name ++ (x.afterName ++ (opsText x.afterComma x.ops ++ (x.sep ++ next)))) =
        .ok x.name (x.afterName ++ (opsText x.afterComma x.ops ++ (x.sep ++ next))) := by
      simp only [ident, span1_append hname_ne hname_alnum (hR.noAlnum hcc)]
    have hnw : NoHead cc.isWs (opsText x.afterComma x.ops ++ (x.sep ++ next)) := by
      cases hb : x.ops with
      | nil => exact absurd hb hops
      | cons p ops =>
        obtain ⟨t, o⟩ := p
        simp only [opsText, List.append_assoc]
        exact (hx.ops (t, o) (by rw [hb]; simp)).noWs hcc _
    have hsk : skipSpaces cc (x.afterName ++ (opsText x.afterComma x.ops ++ (x.sep ++ next))) =
        opsText x.afterComma x.ops ++ (x.sep ++ next) := skipSpaces_append cc hx.afterName hnw
    have hop := operands_text hcc hx.afterComma x.ops hops hx.ops (end_ws_append hx.sep hsepnext)
    simp only [List.append_assoc]
    simp only [instruction, hid, hsk, hop, hsk2]

def progText : List InsnText → List Char
  | [] => []
  | x :: rest => x.text ++ progText rest

/-- every instruction text is well-formed, and is followed by whitespace unless it ends the whole text -/
def ProgOk (cc : CharClass) : List InsnText → List Char → Prop
  | [], _ => True
  | x :: rest, tail => InsnTextOk cc x ∧ (x.sep ≠ [] ∨ (rest = [] ∧ tail = [])) ∧ ProgOk cc rest tail

theorem progText_start {cc} {xs : List InsnText} {tail : List Char} (hx : ProgOk cc xs tail)
    (ht : tail = [] ∨ NameStart tail) : progText xs ++ tail = [] ∨ NameStart (progText xs ++ tail) := by
  cases xs with
  | nil => simpa [progText] using ht
  | cons x rest =>
    right
    simp only [progText, InsnText.text, List.append_assoc]
    exact hx.1.name.start.append _

theorem parseLoop_progText {cc} (hcc : SaneClasses cc) (xs : List InsnText) (tail : List Char)
    (ht : tail = [] ∨ NameStart tail) (hx : ProgOk cc xs tail) (fuel : Nat) (acc : List Instruction) :
    parseLoop cc (fuel + xs.length) (progText xs ++ tail) acc =
      parseLoop cc fuel tail ((xs.map (·.instr)).reverse ++ acc) := by
  induction xs generalizing acc with
  | nil => simp [progText]
  | cons x rest ih =>
    have hnext := progText_start hx.2.2 ht
    have hn : progText rest ++ tail = [] ∨ (x.sep ≠ [] ∧ NameStart (progText rest ++ tail)) := by
      rcases hx.2.1 with h | ⟨h1, h2⟩
      · rcases hnext with h' | h'
        · exact .inl h'
        · exact .inr ⟨h, h'⟩
      · subst h1 h2; left; rfl
    have hstep := instruction_text hcc x hx.1 _ hn
    simp only [progText, List.length_cons, ← Nat.add_assoc, List.append_assoc, parseLoop, hstep]
    rw [ih hx.2.2]
    simp

theorem length_progText {cc} {xs : List InsnText} {tail} (hx : ProgOk cc xs tail) : xs.length ≤ (progText xs).length := by
  induction xs with
  | nil => simp
  | cons x rest ih =>
    have := ih hx.2.2
    obtain ⟨c, t, hs, -, -⟩ := hx.1.name.start
    simp [progText, InsnText.text, hs]; omega

theorem parseLoop_nil {cc} (fuel : Nat) (acc : List Instruction) :
    parseLoop cc (fuel + 1) [] acc = .ok acc.reverse := by
  simp [parseLoop, instruction, ident, span1, List.span, List.span.loop]

/-- the parser on a well-formed program text -/
theorem parse_progText {cc} (hcc : SaneClasses cc) (lead : List Char) (hl : ∀ c ∈ lead, cc.isWs c = true)
    (xs : List InsnText) (hx : ProgOk cc xs []) :
    parse cc (lead ++ progText xs) = .ok (xs.map (·.instr)) := by
  have hst := progText_start hx (.inl rfl)
  simp only [List.append_nil] at hst
  have hsk : skipSpaces cc (lead ++ progText xs) = progText xs := skipSpaces_append cc hl (NameStart.noWs hcc hst)
  have hlen := length_progText hx
  unfold parse
  simp only [hsk]
  have hf : (progText xs).length + 1 = ((progText xs).length - xs.length + 1) + xs.length := by omega
  have := parseLoop_progText hcc xs [] (.inl rfl) hx ((progText xs).length - xs.length + 1) []
  rw [List.append_nil] at this
  rw [hf, this, parseLoop_nil]
  simp

-- the specification's spellings (`AsmSpec.render*`) as program texts ------------------------------------

theorem wrapI64_eq (v : Int) : wrapI64 v = u64ToI64 (v % 2 ^ 64).toNat := rfl

theorem applySign_natAbs (v : Int) (h : imm64Ok v) (hex : Bool) :
    applySign (decide (v < 0)) v.natAbs hex = some v := by
  unfold imm64Ok at h
  simp only [Int.reducePow, Int.reduceNeg] at h
  unfold applySign
  cases hex with
  | true =>
    simp only [if_true, Option.some.injEq, wrapI64_eq, u64ToI64]
    by_cases hv : v < 0
    · simp only [hv, decide_true, if_true, Nat.reducePow, Int.reducePow]
      split <;> split <;> omega
    · simp only [hv, decide_false, Bool.false_eq_true, if_false, Nat.reducePow, Int.reducePow]
      split <;> split <;> omega
  | false =>
    by_cases hv : v < 0
    · simp [hv]; omega
    · simp [hv]; omega

/-- the `NumSpelling` of `renderInt st v` -/
def spellingOf (st : IntStyle) (v : Int) : NumSpelling :=
  { neg := decide (v < 0), plus := st.plus, hex := st.hex, upper := st.upper, zeros := st.zeros, mag := v.natAbs }

theorem renderInt_eq (st : IntStyle) (v : Int) : renderInt st v = (spellingOf st v).text := by
  unfold renderInt NumSpelling.text NumSpelling.body spellingOf
  by_cases hv : v < 0 <;> simp [hv]

theorem natAbs_lt_of_imm64Ok {v : Int} (h : imm64Ok v) : v.natAbs < 2 ^ 64 := by
  unfold imm64Ok at h; simp only [Int.reducePow, Int.reduceNeg] at h; simp only [Nat.reducePow]; omega

theorem renderOperand_text (st : IntStyle) (omitZero : Bool) (o : Operand) (ho : OperandI64 o) :
    OperandText (renderOperand st omitZero o) o := by
  cases o with
  | register r =>
    obtain ⟨h0, h1⟩ := ho
    have hr : ((r.natAbs : Nat) : Int) = r := by omega
    have := OperandText.reg r.natAbs (by simp only [Int.reducePow] at h1; simp only [Nat.reducePow]; omega)
    rw [hr] at this
    exact this
  | integer v =>
    have ho : imm64Ok v := ho
    simp only [renderOperand, renderInt_eq]
    exact OperandText.int _ v (natAbs_lt_of_imm64Ok ho) (applySign_natAbs v ho _)
  | memory r off =>
    obtain ⟨⟨h0, h1⟩, ho⟩ := ho
    have hr : ((r.natAbs : Nat) : Int) = r := by omega
    have hlt : r.natAbs < 2 ^ 63 := by simp only [Int.reducePow] at h1; simp only [Nat.reducePow]; omega
    simp only [renderOperand, renderMem, renderReg]
    split
    · rename_i hz
      have := OperandText.mem0 r.natAbs hlt
      rw [hr, ← hz.1] at this
      simpa using this
    · have := OperandText.mem r.natAbs hlt (spellingOf { st with plus := true } off) off
        (natAbs_lt_of_imm64Ok ho) (applySign_natAbs off ho _) (.inr rfl)
      rw [hr, ← renderInt_eq] at this
      simpa using this

/-- the operand texts of `renderOperands`, paired with the operands -/
def opTexts (l : Layout) : List Operand → List IntStyle → List (List Char × Operand)
  | [], _ => []
  | o :: rest, sts => (renderOperand (sts.headD {}) l.omitZero o, o) :: opTexts l rest sts.tail

theorem renderOperands_eq (l : Layout) (ops : List Operand) (sts : List IntStyle) :
    renderOperands l ops sts = opsText l.afterComma (opTexts l ops sts) := by
  induction ops generalizing sts with
  | nil => rfl
  | cons o rest ih =>
    cases rest with
    | nil => simp [renderOperands, opTexts, opsText, tailText]
    | cons o2 r =>
      rw [renderOperands.eq_3 _ _ _ _ (by simp), ih]
      simp [opTexts, opsText, tailText]

theorem opTexts_snd (l : Layout) (ops : List Operand) (sts : List IntStyle) :
    (opTexts l ops sts).map (·.2) = ops := by
  induction ops generalizing sts with
  | nil => rfl
  | cons o rest ih => simp [opTexts, ih]

theorem opTexts_ok (l : Layout) (ops : List Operand) (sts : List IntStyle) (h : ∀ o ∈ ops, OperandI64 o) :
    ∀ p ∈ opTexts l ops sts, OperandText p.1 p.2 := by
  induction ops generalizing sts with
  | nil => intro p hp; simp [opTexts] at hp
  | cons o rest ih =>
    intro p hp
    simp only [opTexts, List.mem_cons] at hp
    rcases hp with hp | hp
    · subst hp; exact renderOperand_text _ _ o (h o (by simp))
    · exact ih _ (fun o ho => h o (List.mem_cons_of_mem _ ho)) p hp

def toInsnText (e : Instruction × Layout × List Char) : InsnText :=
  { name := e.1.name, afterName := e.2.1.afterName, afterComma := e.2.1.afterComma,
    ops := opTexts e.2.1 e.1.operands e.2.1.styles, sep := e.2.2 }

theorem toInsnText_instr (e : Instruction × Layout × List Char) : (toInsnText e).instr = e.1 := by
  obtain ⟨⟨n, ops⟩, l, sep⟩ := e
  simp [toInsnText, InsnText.instr, opTexts_snd]

theorem renderProg_eq (lead : List Char) (prog : List (Instruction × Layout × List Char)) :
    renderProg lead prog = lead ++ progText (prog.map toInsnText) := by
  induction prog generalizing lead with
  | nil => simp [renderProg, progText]
  | cons e rest ih =>
    obtain ⟨i, l, sep⟩ := e
    rw [renderProg, ih []]
    simp [progText, InsnText.text, toInsnText, renderInsn, renderOperands_eq]

/-- Bool check of `NameOk` -/
def nameOkB (name : List Char) : Bool :=
  name.all (fun c => isLetter c || isDigit c) &&
  match name with
  | c :: t => isLetter c && (c != 'r' || match t with | c2 :: _ => isLetter c2 | [] => false)
  | [] => false

theorem nameOk_of_nameOkB {name : List Char} (h : nameOkB name = true) : NameOk name := by
  unfold nameOkB at h
  rw [Bool.and_eq_true] at h
  obtain ⟨h1, h2⟩ := h
  constructor
  · intro c hc
    have := List.all_eq_true.mp h1 c hc
    simpa using this
  · cases name with
    | nil => simp at h2
    | cons c t =>
      simp only [Bool.and_eq_true, Bool.or_eq_true, bne_iff_ne, ne_eq] at h2
      refine ⟨c, t, rfl, h2.1, fun hc => ?_⟩
      rcases h2.2 with h | h
      · exact absurd hc h
      · cases t with
        | nil => simp at h
        | cons c2 t2 => exact ⟨c2, t2, rfl, h⟩

set_option maxRecDepth 100000 in
theorem table_nameOkB : ∀ r ∈ AsmSpec.table, nameOkB r.1.toList = true := by decide +kernel

/-- every documented mnemonic is a well-formed name -/
theorem nameOk_of_table {name : List Char} (h : ∃ r ∈ AsmSpec.table, r.1.toList = name) : NameOk name := by
  obtain ⟨r, hr, rfl⟩ := h
  exact nameOk_of_nameOkB (table_nameOkB r hr)

/-- one instruction of a rendered program is laid out as the grammar allows: the mnemonic is a word of ASCII
    letters and digits that begins with a letter and is not `r<non-letter>…` (true of every documented mnemonic,
    `nameOk_of_table`); `afterName`, `afterComma` and the separator consist of whitespace; `afterName` is
    non-empty when operands follow; register numbers lie in [0, 2^63), integers and memory offsets in
    [-2^63, 2^63).  `styles` (radix, case, leading zeros, explicit `+`) and `omitZero` are arbitrary. -/
structure InsnLaidOut (cc : CharClass) (i : Instruction) (l : Layout) (sep : List Char) : Prop where
  name : NameOk i.name
  afterName : ∀ c ∈ l.afterName, cc.isWs c = true
  afterComma : ∀ c ∈ l.afterComma, cc.isWs c = true
  sep : ∀ c ∈ sep, cc.isWs c = true
  gap : i.operands ≠ [] → l.afterName ≠ []
  ops : ∀ o ∈ i.operands, OperandI64 o

/-- every instruction is laid out well, and the separator after an instruction is non-empty whenever another
    instruction follows -/
def WellLaidOut (cc : CharClass) : List (Instruction × Layout × List Char) → Prop
  | [] => True
  | (i, l, sep) :: rest => InsnLaidOut cc i l sep ∧ (sep ≠ [] ∨ rest = []) ∧ WellLaidOut cc rest

theorem insnTextOk_of_laidOut {cc} {i l sep} (h : InsnLaidOut cc i l sep) : InsnTextOk cc (toInsnText (i, l, sep)) := by
  refine ⟨h.name, h.afterName, h.afterComma, h.sep, ?_, opTexts_ok _ _ _ h.ops⟩
  intro hne
  apply h.gap
  intro hops
  apply hne
  simp [toInsnText, hops, opTexts]

theorem progOk_of_wellLaidOut {cc} {prog : List (Instruction × Layout × List Char)} (h : WellLaidOut cc prog) :
    ProgOk cc (prog.map toInsnText) [] := by
  induction prog with
  | nil => trivial
  | cons e rest ih =>
    obtain ⟨i, l, sep⟩ := e
    refine ⟨insnTextOk_of_laidOut h.1, ?_, ih h.2.2⟩
    rcases h.2.1 with h' | h'
    · exact .inl h'
    · right; simp [h']

theorem wellLaidOut_operands {cc} {prog : List (Instruction × Layout × List Char)} (h : WellLaidOut cc prog) :
    ∀ i ∈ prog.map (·.1), ∀ o ∈ i.operands, OperandI64 o := by
  induction prog with
  | nil => intro i hi; simp at hi
  | cons e rest ih =>
    obtain ⟨i, l, sep⟩ := e
    intro j hj
    simp only [List.map_cons, List.mem_cons] at hj
    rcases hj with hj | hj
    · subst hj; exact h.1.ops
    · exact ih h.2.2 j hj

theorem parse_renderProg {cc} (hcc : SaneClasses cc) (lead : List Char)
    (prog : List (Instruction × Layout × List Char)) (hl : ∀ c ∈ lead, cc.isWs c = true)
    (hw : WellLaidOut cc prog) : parse cc (renderProg lead prog) = .ok (prog.map (·.1)) := by
  rw [renderProg_eq, parse_progText hcc lead hl _ (progOk_of_wellLaidOut hw)]
  simp [toInsnText_instr]

-- a witness for `SaneClasses` ----------------------------------------------------------------------------------

/-- the ASCII restriction of the three character classes -/
def asciiClasses : CharClass :=
  { isWs := fun c => c == ' ' || c == '\n' || c == '\t' || c == '\r'
    isAlnum := fun c => isLetter c || isDigit c
    isAlpha := isLetter }

theorem saneClasses_ascii : SaneClasses asciiClasses := by
  refine ⟨fun c h => ⟨h, by simp [asciiClasses, h]⟩, fun c h => ⟨by simp [asciiClasses, h], ?_⟩, ?_, by decide, by decide⟩
  · cases hl : isLetter c with
    | false => exact hl
    | true => rw [letter_not_digit hl] at h; cases h
  · intro c h
    simp only [asciiClasses, Bool.or_eq_true, beq_iff_eq] at h
    rcases h with ((h | h) | h) | h <;> subst h <;> decide


end Rbpf

