/-
  Helper lemmas for C13: the mnemonic table of the assembler model against the specification's literal
  table, `encode`/`mkInsn` against `denote`, digit strings, and the parser against the spellings.
-/
import RbpfModel.Model.Asm
import RbpfModel.Model.AsmSpec
namespace Rbpf
open Asm AsmSpec
def typeOf : AsmSpec.Shape → Asm.InstType
  | .aluBin => .aluBinary | .aluUn => .aluUnary | .loadImm => .loadImm | .loadAbs => .loadAbs
  | .loadInd => .loadInd | .loadReg => .loadReg | .storeImm => .storeImm | .storeReg => .storeReg
  | .ja => .jumpUnconditional | .jcc => .jumpConditional | .call => .call | .callx => .callx
  | .endian bits => .endian (bits : Int) | .noOp => .noOperand

-- mnemonic table ---------------------------------------------------------------------------------------

set_option maxRecDepth 100000 in
theorem table_sub_map : ∀ r ∈ AsmSpec.table, Asm.lookup r.1.toList = some (typeOf r.2.1, r.2.2) := by
  decide +kernel

set_option maxRecDepth 100000 in
theorem map_sub_table : ∀ e ∈ Asm.instructionMap,
    (AsmSpec.find e.1.toList).map (fun (sh, opc) => (typeOf sh, opc)) = some e.2 := by
  decide +kernel

theorem lookup_eq_find (name : List Char) :
    Asm.lookup name = (AsmSpec.find name).map (fun (sh, opc) => (typeOf sh, opc)) := by
  cases h : AsmSpec.find name with
  | some v =>
    unfold AsmSpec.find at h
    rw [Option.map_eq_some_iff] at h
    obtain ⟨r, hr, rfl⟩ := h
    have hm := List.mem_of_find?_eq_some hr
    have hp := List.find?_some hr
    simp only [beq_iff_eq] at hp
    rw [← hp, table_sub_map r hm]; rfl
  | none =>
    cases h' : Asm.lookup name with
    | none => rfl
    | some w =>
      exfalso
      unfold Asm.lookup at h'
      rw [Option.map_eq_some_iff] at h'
      obtain ⟨e, he, rfl⟩ := h'
      have hm := List.mem_of_find?_eq_some he
      have hp := List.find?_some he
      simp only [beq_iff_eq] at hp
      have := map_sub_table e hm
      rw [hp, h] at this
      simp at this

-- encode ---------------------------------------------------------------------------------------------

/-- what the parser produces: register numbers in [0, 2^63), integers and memory offsets in [-2^63, 2^63).
    (The non-negativity of register numbers matters: `insn()` checks `dst < 0 || src >= 16`, i.e. it never
    rejects a negative source register; the parser cannot produce one.) -/
def OperandI64 : Operand → Prop
  | .register n => 0 ≤ n ∧ n < 2 ^ 63
  | .integer v => imm64Ok v
  | .memory r off => (0 ≤ r ∧ r < 2 ^ 63) ∧ imm64Ok off

theorem mkInsn_eq (opc : Nat) (d s o v : Int) (hs : 0 ≤ s) :
    mkInsn opc d s o v = if regOk d ∧ regOk s ∧ offOk o ∧ immOk v then some (mk opc d s o v) else none := by
  unfold mkInsn regOk offOk immOk mk
  by_cases h1 : 0 ≤ d ∧ d < 16 <;> by_cases h2 : s < 16 <;> by_cases h3 : -32768 ≤ o ∧ o < 32768 <;>
    by_cases h4 : -2147483648 ≤ v ∧ v < 2147483648 <;> simp [h1, h2, h3, h4, hs] <;> omega

/-- the assembler's second `lddw` slot and the per-instruction outcome -/
def secondSlot (t : InstType) (ops : List Operand) : Outcome (List Insn) :=
  match t, ops with
  | .loadImm, [_, .integer imm] =>
    match mkInsn 0 0 0 0 (high32s imm) with
    | some y => Outcome.ok [y]
    | none => .panic
  | _, _ => .ok []

theorem secondSlot_ne_err (t : InstType) (ops : List Operand) : secondSlot t ops ≠ .err := by
  unfold secondSlot
  split
  · split <;> simp
  · simp

def asmOne (sh : Shape) (opc : Nat) (ops : List Operand) : Outcome (List Insn) :=
  match encode (typeOf sh) opc ops with
  | none => .err
  | some x =>
    match secondSlot (typeOf sh) ops with
    | .ok ys => .ok (x :: ys)
    | .panic => .panic
    | .err => .err

def denoteShape (sh : Shape) (opc : Nat) (ops : List Operand) : Option (List Insn) :=
    match sh, ops with
    | .aluBin, [.register d, .register s] => if regOk d ∧ regOk s then some [mk (opc + 8) d s 0 0] else none
    | .aluBin, [.register d, .integer v] => if regOk d ∧ immOk v then some [mk opc d 0 0 v] else none
    | .aluUn, [.register d] => if regOk d then some [mk opc d 0 0 0] else none
    | .loadImm, [.register d, .integer v] =>
        if regOk d ∧ imm64Ok v then some [mk opc d 0 0 (v % 2 ^ 32), mk 0 0 0 0 (v / 2 ^ 32)] else none
    | .loadAbs, [.integer v] => if immOk v then some [mk opc 0 0 0 v] else none
    | .loadInd, [.register s, .integer v] => if regOk s ∧ immOk v then some [mk opc 0 s 0 v] else none
    | .loadReg, [.register d, .memory s o] => if regOk d ∧ regOk s ∧ offOk o then some [mk opc d s o 0] else none
    | .storeImm, [.memory d o, .integer v] => if regOk d ∧ offOk o ∧ immOk v then some [mk opc d 0 o v] else none
    | .storeReg, [.memory d o, .register s] => if regOk d ∧ regOk s ∧ offOk o then some [mk opc d s o 0] else none
    | .ja, [.integer o] => if offOk o then some [mk opc 0 0 o 0] else none
    | .jcc, [.register d, .register s, .integer o] => if regOk d ∧ regOk s ∧ offOk o then some [mk (opc + 8) d s o 0] else none
    | .jcc, [.register d, .integer v, .integer o] => if regOk d ∧ immOk v ∧ offOk o then some [mk opc d 0 o v] else none
    | .call, [.integer v] => if immOk v then some [mk opc 0 0 0 v] else none
    | .callx, [.integer v] => if immOk v then some [mk opc 0 1 0 v] else none
    | .endian bits, [.register d] => if regOk d then some [mk opc d 0 0 bits] else none
    | .noOp, [] => some [mk opc 0 0 0 0]
    | _, _ => none

theorem denote_eq (i : Instruction) : denote i = match find i.name with
    | none => none | some (sh, opc) => denoteShape sh opc i.operands := rfl

theorem regOk_zero : regOk 0 := by decide
theorem regOk_one : regOk 1 := by decide
theorem offOk_zero : offOk 0 := by decide
theorem immOk_zero : immOk 0 := by decide

theorem immOk_low32s (v : Int) : immOk (low32s v) := by
  unfold immOk low32s
  have h1 := BitVec.toInt_lt (x := BitVec.ofInt 32 v)
  have h2 := BitVec.le_toInt (x := BitVec.ofInt 32 v)
  omega

theorem mk_low32s (opc : Nat) (d s o v : Int) : mk opc d s o (low32s v) = mk opc d s o (v % 2 ^ 32) := by
  unfold mk low32s
  congr 1
  rw [BitVec.ofInt_toInt]
  apply BitVec.eq_of_toNat_eq
  simp [BitVec.toNat_ofInt]

theorem immOk_high32s (v : Int) (h : imm64Ok v) : immOk (high32s v) := by
  unfold immOk high32s; unfold imm64Ok at h
  simp only [Int.reducePow] at h ⊢; omega


set_option hygiene false in
macro "enc_cases" : tactic => `(tactic| (
  rcases ops with _ | ⟨o1, _ | ⟨o2, _ | ⟨o3, _ | ⟨o4, r⟩⟩⟩⟩ <;> (try cases o1) <;> (try cases o2) <;> (try cases o3) <;>
    simp [asmOne, secondSlot, encode, typeOf, OperandI64, denoteShape] at h ⊢))
macro "enc_close" : tactic => `(tactic| (
  rw [mkInsn_eq _ _ _ _ _ (by omega)]
  have := regOk_zero; have := regOk_one; have := offOk_zero; have := immOk_zero
  grind))

theorem asmOne_aluBin (opc : Nat) (hopc : opc ||| 8 = opc + 8) (ops : List Operand) (h : ∀ o ∈ ops, OperandI64 o) :
    asmOne .aluBin opc ops = match denoteShape .aluBin opc ops with | some xs => Outcome.ok xs | none => .err := by
  enc_cases
  all_goals enc_close

theorem asmOne_aluUn (opc : Nat) (ops : List Operand) (h : ∀ o ∈ ops, OperandI64 o) :
    asmOne .aluUn opc ops = match denoteShape .aluUn opc ops with | some xs => Outcome.ok xs | none => .err := by
  enc_cases
  all_goals enc_close

theorem asmOne_loadImm (opc : Nat) (ops : List Operand) (h : ∀ o ∈ ops, OperandI64 o) :
    asmOne .loadImm opc ops = match denoteShape .loadImm opc ops with | some xs => Outcome.ok xs | none => .err := by
  enc_cases
  rename_i n v
  rw [mkInsn_eq _ _ _ _ _ (by omega), mkInsn_eq _ _ _ _ _ (by omega)]
  have h1 := immOk_low32s v
  have h2 := immOk_high32s v h.2
  have h3 : high32s v = v / 4294967296 := rfl
  have h4 := mk_low32s opc n 0 0 v
  simp only [Int.reducePow] at h4
  by_cases h5 : regOk n <;> simp [regOk_zero, offOk_zero, h1, h2, h.2, h5, h4, ← h3]

theorem asmOne_endian (bits opc : Nat) (hb : bits < 2 ^ 31) (ops : List Operand) (h : ∀ o ∈ ops, OperandI64 o) :
    asmOne (.endian bits) opc ops = match denoteShape (.endian bits) opc ops with | some xs => Outcome.ok xs | none => .err := by
  enc_cases
  have : immOk (bits : Int) := by unfold immOk; omega
  all_goals enc_close

theorem asmOne_loadAbs (opc : Nat) (ops : List Operand) (h : ∀ o ∈ ops, OperandI64 o) :
    asmOne .loadAbs opc ops = match denoteShape .loadAbs opc ops with | some xs => Outcome.ok xs | none => .err := by
  enc_cases
  all_goals enc_close

theorem asmOne_loadInd (opc : Nat) (ops : List Operand) (h : ∀ o ∈ ops, OperandI64 o) :
    asmOne .loadInd opc ops = match denoteShape .loadInd opc ops with | some xs => Outcome.ok xs | none => .err := by
  enc_cases
  all_goals enc_close

theorem asmOne_loadReg (opc : Nat) (ops : List Operand) (h : ∀ o ∈ ops, OperandI64 o) :
    asmOne .loadReg opc ops = match denoteShape .loadReg opc ops with | some xs => Outcome.ok xs | none => .err := by
  enc_cases
  all_goals enc_close

theorem asmOne_storeImm (opc : Nat) (ops : List Operand) (h : ∀ o ∈ ops, OperandI64 o) :
    asmOne .storeImm opc ops = match denoteShape .storeImm opc ops with | some xs => Outcome.ok xs | none => .err := by
  enc_cases
  all_goals enc_close

theorem asmOne_storeReg (opc : Nat) (ops : List Operand) (h : ∀ o ∈ ops, OperandI64 o) :
    asmOne .storeReg opc ops = match denoteShape .storeReg opc ops with | some xs => Outcome.ok xs | none => .err := by
  enc_cases
  all_goals enc_close

theorem asmOne_ja (opc : Nat) (ops : List Operand) (h : ∀ o ∈ ops, OperandI64 o) :
    asmOne .ja opc ops = match denoteShape .ja opc ops with | some xs => Outcome.ok xs | none => .err := by
  enc_cases
  all_goals enc_close

theorem asmOne_jcc (opc : Nat) (hopc : opc ||| 8 = opc + 8) (ops : List Operand) (h : ∀ o ∈ ops, OperandI64 o) :
    asmOne .jcc opc ops = match denoteShape .jcc opc ops with | some xs => Outcome.ok xs | none => .err := by
  enc_cases
  all_goals enc_close

theorem asmOne_call (opc : Nat) (ops : List Operand) (h : ∀ o ∈ ops, OperandI64 o) :
    asmOne .call opc ops = match denoteShape .call opc ops with | some xs => Outcome.ok xs | none => .err := by
  enc_cases
  all_goals enc_close

theorem asmOne_callx (opc : Nat) (ops : List Operand) (h : ∀ o ∈ ops, OperandI64 o) :
    asmOne .callx opc ops = match denoteShape .callx opc ops with | some xs => Outcome.ok xs | none => .err := by
  enc_cases
  all_goals enc_close

theorem asmOne_noOp (opc : Nat) (ops : List Operand) (h : ∀ o ∈ ops, OperandI64 o) :
    asmOne .noOp opc ops = match denoteShape .noOp opc ops with | some xs => Outcome.ok xs | none => .err := by
  enc_cases
  all_goals enc_close

theorem asmOne_eq (sh : Shape) (opc : Nat) (ops : List Operand) (h : ∀ o ∈ ops, OperandI64 o)
    (hopc : sh = .aluBin ∨ sh = .jcc → opc ||| 8 = opc + 8) (hb : ∀ b, sh = .endian b → b < 2 ^ 31) :
    asmOne sh opc ops = match denoteShape sh opc ops with | some xs => Outcome.ok xs | none => .err := by
  cases sh
  case aluBin => exact asmOne_aluBin opc (hopc (.inl rfl)) ops h
  case jcc => exact asmOne_jcc opc (hopc (.inr rfl)) ops h
  case aluUn => exact asmOne_aluUn opc ops h
  case loadImm => exact asmOne_loadImm opc ops h
  case loadAbs => exact asmOne_loadAbs opc ops h
  case loadInd => exact asmOne_loadInd opc ops h
  case loadReg => exact asmOne_loadReg opc ops h
  case storeImm => exact asmOne_storeImm opc ops h
  case storeReg => exact asmOne_storeReg opc ops h
  case ja => exact asmOne_ja opc ops h
  case call => exact asmOne_call opc ops h
  case callx => exact asmOne_callx opc ops h
  case noOp => exact asmOne_noOp opc ops h
  case endian b => exact asmOne_endian b opc (hb b rfl) ops h

set_option maxRecDepth 100000 in
theorem table_opc_bit3 : ∀ r ∈ AsmSpec.table, r.2.1 = .aluBin ∨ r.2.1 = .jcc → r.2.2 ||| 8 = r.2.2 + 8 := by
  decide +kernel

def endianBits : Shape → Nat | .endian b => b | _ => 0
set_option maxRecDepth 100000 in
theorem table_endian_bits : ∀ r ∈ AsmSpec.table, endianBits r.2.1 < 2 ^ 31 := by
  decide +kernel

theorem find_endian_bits {name sh opc} (h : AsmSpec.find name = some (sh, opc)) :
    ∀ b, sh = .endian b → b < 2 ^ 31 := by
  unfold AsmSpec.find at h
  rw [Option.map_eq_some_iff] at h
  obtain ⟨r, hr, h2⟩ := h
  have := table_endian_bits r (List.mem_of_find?_eq_some hr)
  rw [h2] at this
  intro b hb; subst hb; exact this

theorem find_opc_bit3 {name sh opc} (h : AsmSpec.find name = some (sh, opc)) :
    sh = .aluBin ∨ sh = .jcc → opc ||| 8 = opc + 8 := by
  unfold AsmSpec.find at h
  rw [Option.map_eq_some_iff] at h
  obtain ⟨r, hr, h2⟩ := h
  have := table_opc_bit3 r (List.mem_of_find?_eq_some hr)
  rw [h2] at this; exact this



theorem assembleInternal_cons (i : Instruction) (rest : List Instruction) :
    assembleInternal (i :: rest) =
      match AsmSpec.find i.name with
      | none => .err
      | some (sh, opc) =>
        match asmOne sh opc i.operands, assembleInternal rest with
        | .ok xs, .ok zs => .ok (xs ++ zs)
        | .panic, _ => .panic
        | .err, _ => .err
        | .ok _, .panic => .panic
        | .ok _, .err => .err := by
  rw [assembleInternal, lookup_eq_find]
  cases AsmSpec.find i.name with
  | none => rfl
  | some v =>
    obtain ⟨sh, opc⟩ := v
    simp only [Option.map_some, asmOne]
    cases encode (typeOf sh) opc i.operands with
    | none => rfl
    | some x =>
      show (match secondSlot (typeOf sh) i.operands, assembleInternal rest with
        | .ok ys, .ok zs => Outcome.ok (x :: ys ++ zs)
        | .panic, _ => .panic
        | _, .panic => .panic
        | _, _ => .err) = _
      have hne := secondSlot_ne_err (typeOf sh) i.operands
      cases hs : secondSlot (typeOf sh) i.operands <;> cases assembleInternal rest <;>
        first | rfl | exact absurd hs hne

/-- `assemble_internal` against `denoteAll`, for operand lists the parser can produce -/
theorem assembleInternal_eq (is : List Instruction) (hi : ∀ i ∈ is, ∀ o ∈ i.operands, OperandI64 o) :
    assembleInternal is = (match denoteAll is with | some xs => .ok xs | none => .err) := by
  induction is with
  | nil => rfl
  | cons i rest ih =>
    have ih := ih (fun j hj => hi j (List.mem_cons_of_mem _ hj))
    rw [assembleInternal_cons, denoteAll, denote_eq, ih]
    cases hf : AsmSpec.find i.name with
    | none => rfl
    | some v =>
      obtain ⟨sh, opc⟩ := v
      simp only
      rw [asmOne_eq sh opc i.operands (hi i List.mem_cons_self) (find_opc_bit3 hf) (find_endian_bits hf)]
      cases denoteShape sh opc i.operands <;> cases denoteAll rest <;> rfl

-- characters and digit strings -------------------------------------------------------------------------

theorem decDigitChar_spec : ∀ n < 10, isDigit (Char.ofNat (48 + n)) = true ∧ digitVal (Char.ofNat (48 + n)) = n := by
  decide

theorem hexDigitChar_spec : ∀ u : Bool, ∀ n < 16,
    isHexDigit (hexDigitChar u n) = true ∧ hexVal (hexDigitChar u n) = n := by
  decide

theorem isDigit_zero : isDigit '0' = true := by decide
theorem digitVal_zero : digitVal '0' = 0 := by decide
theorem hexVal_zero : hexVal '0' = 0 := by decide
theorem isHexDigit_of_isDigit {c : Char} (h : isDigit c = true) : isHexDigit c = true := by
  simp [isHexDigit, h]

theorem decValue_append_single (ds : List Char) (c : Char) :
    decValue (ds ++ [c]) = decValue ds * 10 + digitVal c := by
  simp [decValue, List.foldl_append]

theorem hexValue_append_single (ds : List Char) (c : Char) :
    hexValue (ds ++ [c]) = hexValue ds * 16 + hexVal c := by
  simp [hexValue, List.foldl_append]

theorem decDigits_ne_nil (n : Nat) : decDigits n ≠ [] := by
  rw [decDigits]; split <;> simp

theorem hexDigits_ne_nil (u : Bool) (n : Nat) : hexDigits u n ≠ [] := by
  rw [hexDigits]; split <;> simp

theorem decDigits_isDigit (n : Nat) : ∀ c ∈ decDigits n, isDigit c = true := by
  induction n using Nat.strongRecOn with
  | _ n ih =>
    rw [decDigits]
    split
    · intro c hc; simp at hc; subst hc; exact (decDigitChar_spec n (by omega)).1
    · intro c hc
      rw [List.mem_append] at hc
      rcases hc with hc | hc
      · exact ih (n / 10) (by omega) c hc
      · simp at hc; subst hc; exact (decDigitChar_spec (n % 10) (by omega)).1

theorem hexDigits_isHexDigit (u : Bool) (n : Nat) : ∀ c ∈ hexDigits u n, isHexDigit c = true := by
  induction n using Nat.strongRecOn with
  | _ n ih =>
    rw [hexDigits]
    split
    · intro c hc; simp at hc; subst hc; exact (hexDigitChar_spec u n (by omega)).1
    · intro c hc
      rw [List.mem_append] at hc
      rcases hc with hc | hc
      · exact ih (n / 16) (by omega) c hc
      · simp at hc; subst hc; exact (hexDigitChar_spec u (n % 16) (by omega)).1

theorem decValue_decDigits (n : Nat) : decValue (decDigits n) = n := by
  induction n using Nat.strongRecOn with
  | _ n ih =>
    rw [decDigits]
    split
    · simp [decValue, (decDigitChar_spec n (by omega)).2]
    · rw [decValue_append_single, ih (n / 10) (by omega), (decDigitChar_spec (n % 10) (by omega)).2]; omega

theorem hexValue_hexDigits (u : Bool) (n : Nat) : hexValue (hexDigits u n) = n := by
  induction n using Nat.strongRecOn with
  | _ n ih =>
    rw [hexDigits]
    split
    · simp [hexValue, (hexDigitChar_spec u n (by omega)).2]
    · rw [hexValue_append_single, ih (n / 16) (by omega), (hexDigitChar_spec u (n % 16) (by omega)).2]; omega

theorem decValue_zeros_append (z : Nat) (ds : List Char) : decValue (List.replicate z '0' ++ ds) = decValue ds := by
  induction z with
  | zero => rfl
  | succ z ih =>
    rw [List.replicate_succ, List.cons_append]
    unfold decValue at ih ⊢
    rw [List.foldl_cons]; simpa [digitVal_zero] using ih

theorem hexValue_zeros_append (z : Nat) (ds : List Char) : hexValue (List.replicate z '0' ++ ds) = hexValue ds := by
  induction z with
  | zero => rfl
  | succ z ih =>
    rw [List.replicate_succ, List.cons_append]
    unfold hexValue at ih ⊢
    rw [List.foldl_cons]; simpa [hexVal_zero] using ih

-- `List.span` ------------------------------------------------------------------------------------------

theorem span_loop_eq {α} (p : α → Bool) (as acc : List α) :
    List.span.loop p as acc = (acc.reverse ++ as.takeWhile p, as.dropWhile p) := by
  induction as generalizing acc with
  | nil => simp [List.span.loop]
  | cons a as ih =>
    rw [List.span.loop]
    cases h : p a <;> simp [h, ih]

theorem span_eq {α} (p : α → Bool) (as : List α) : as.span p = (as.takeWhile p, as.dropWhile p) := by
  simp [List.span, span_loop_eq]

/-- the text `rest` does not begin with a character satisfying `p` -/
def NoHead (p : Char → Bool) (rest : List Char) : Prop := ∀ c, rest.head? = some c → p c = false

theorem takeWhile_noHead {p rest} (h : NoHead p rest) : rest.takeWhile p = [] := by
  cases rest with
  | nil => rfl
  | cons c t => simp [h c rfl]

theorem dropWhile_noHead {p rest} (h : NoHead p rest) : rest.dropWhile p = rest := by
  cases rest with
  | nil => rfl
  | cons c t => simp [h c rfl]

theorem span_append {p : Char → Bool} {ds rest : List Char} (hd : ∀ c ∈ ds, p c = true) (hr : NoHead p rest) :
    (ds ++ rest).span p = (ds, rest) := by
  rw [span_eq, List.takeWhile_append_of_pos hd, List.dropWhile_append_of_pos hd, takeWhile_noHead hr, dropWhile_noHead hr]
  simp

theorem span1_append {p : Char → Bool} {ds rest : List Char} (hne : ds ≠ []) (hd : ∀ c ∈ ds, p c = true)
    (hr : NoHead p rest) : span1 p (ds ++ rest) = some (ds, rest) := by
  unfold span1; rw [span_append hd hr]
  cases ds with
  | nil => exact absurd rfl hne
  | cons => rfl

theorem span1_noHead {p : Char → Bool} {rest : List Char} (hr : NoHead p rest) : span1 p rest = none := by
  have := span_append (ds := []) (p := p) (by simp) hr
  unfold span1; simp only [List.nil_append] at this; rw [this]

theorem skipSpaces_append (cc : CharClass) {ws rest : List Char} (hw : ∀ c ∈ ws, cc.isWs c = true)
    (hr : NoHead cc.isWs rest) : skipSpaces cc (ws ++ rest) = rest := by
  unfold skipSpaces; rw [List.dropWhile_append_of_pos hw, dropWhile_noHead hr]

end Rbpf
