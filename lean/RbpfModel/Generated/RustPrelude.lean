/- hand-written prelude of the generated files: the few Rust library functions the translated arms use -/
namespace Rbpf.Generated

/-- `u16::swap_bytes` (what `to_be` is on a little-endian host) -/
def bswap16 (x : BitVec 16) : BitVec 16 := (x <<< 8) ||| (x >>> 8)
/-- `u32::swap_bytes` -/
def bswap32 (x : BitVec 32) : BitVec 32 :=
  (x <<< 24) ||| ((x &&& 0xff00) <<< 8) ||| ((x >>> 8) &&& 0xff00) ||| (x >>> 24)
/-- `u64::swap_bytes` -/
def bswap64 (x : BitVec 64) : BitVec 64 :=
  (x <<< 56) ||| ((x &&& 0xff00) <<< 40) ||| ((x &&& 0xff0000) <<< 24) ||| ((x &&& 0xff000000) <<< 8) |||
  ((x >>> 8) &&& 0xff000000) ||| ((x >>> 24) &&& 0xff0000) ||| ((x >>> 40) &&& 0xff00) ||| (x >>> 56)

end Rbpf.Generated
