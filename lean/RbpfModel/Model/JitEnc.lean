/-
  Vocabulary tying the byte-level emitter model (`JitEmit`) to the instruction-level description (`JitAst`):
  `Enc ais bs holes` says the byte list `bs` is an encoding of the instruction list `ais` — every layout-independent
  instruction by a block that `X86.decode` reads back as that instruction whatever follows it, every symbolic jump
  by its opcode bytes followed by a four-byte field (a "hole", listed with its offset and target) whose content the
  encoding does not constrain: `resolve_jumps` fills it in later.
  Definitions only; the lemmas are in `Lemmas/X86Enc/*.lean`.
-/
import RbpfModel.Model.X86
import RbpfModel.Model.JitAst
import RbpfModel.Model.JitEmit
namespace Rbpf.JitEnc
open Rbpf.X86 (Instr Cc decode ccOf)
open Rbpf.JitAst (AI Tgt)

/-- the target a symbolic jump is recorded with in `Em.jumps` -/
def tgtInt : Tgt → Int
  | .pc t => t
  | .exit => JitEmit.targetPcExit

def shift (k : Nat) (h : Nat × Tgt) : Nat × Tgt := (h.1 + k, h.2)

inductive Enc : List AI → List Nat → List (Nat × Tgt) → Prop
  | nil : Enc [] [] []
  | i (x : Instr) (b1 : List Nat) (ais : List AI) (bs : List Nat) (holes : List (Nat × Tgt)) :
      (∀ tail, decode (b1 ++ tail) = some (x, b1.length)) → (∀ v ∈ b1, v < 256) → Enc ais bs holes →
      Enc (.i x :: ais) (b1 ++ bs) (holes.map (shift b1.length))
  | jcc (cc : Cc) (ccb : Nat) (t : Tgt) (h0 h1 h2 h3 : Nat) (ais : List AI) (bs : List Nat) (holes : List (Nat × Tgt)) :
      ccOf ccb = some cc → h0 < 256 → h1 < 256 → h2 < 256 → h3 < 256 → Enc ais bs holes →
      Enc (.jcc cc t :: ais) ([0x0f, ccb, h0, h1, h2, h3] ++ bs) ((2, t) :: holes.map (shift 6))
  | jmp (t : Tgt) (h0 h1 h2 h3 : Nat) (ais : List AI) (bs : List Nat) (holes : List (Nat × Tgt)) :
      h0 < 256 → h1 < 256 → h2 < 256 → h3 < 256 → Enc ais bs holes →
      Enc (.jmp t :: ais) ([0xe9, h0, h1, h2, h3] ++ bs) ((1, t) :: holes.map (shift 5))
  | call (t : Tgt) (h0 h1 h2 h3 : Nat) (ais : List AI) (bs : List Nat) (holes : List (Nat × Tgt)) :
      h0 < 256 → h1 < 256 → h2 < 256 → h3 < 256 → Enc ais bs holes →
      Enc (.call t :: ais) ([0xe8, h0, h1, h2, h3] ++ bs) ((1, t) :: holes.map (shift 5))

/-- what an emitter step does to the emitter state: appends the bytes `bs` and records their holes at absolute offsets -/
def Appends (e e' : JitEmit.Em) (bs : List Nat) (holes : List (Nat × Tgt)) : Prop :=
  e'.code = e.code ++ (bs.map UInt8.ofNat).toArray ∧
  e'.jumps = e.jumps ++ (holes.map fun h => (e.code.size + h.1, tgtInt h.2)).toArray ∧
  e'.pcLocs = e.pcLocs ∧ e'.exitAnchor = e.exitAnchor

end Rbpf.JitEnc
