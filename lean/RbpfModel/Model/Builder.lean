/-
  Model of `src/insn_builder.rs`: the opcode byte each builder struct computes
  (`opt_code_byte`) and the byte layout of `IntoBytes for &I` (`into_bytes`).
-/
import RbpfModel.Model.Insn
namespace Rbpf.Builder

inductive Source | imm | reg            deriving DecidableEq, Repr
inductive Arch   | x64 | x32            deriving DecidableEq, Repr
inductive OpBits | add | sub | mul | div | bitOr | bitAnd | lShift | rShift | negate | mod | bitXor | mov | signRShift
  deriving DecidableEq, Repr
inductive Endian | little | big         deriving DecidableEq, Repr
inductive MemSize | byte | halfWord | word | doubleWord deriving DecidableEq, Repr
inductive Addressing | imm | abs | ind | mem deriving DecidableEq, Repr
inductive Cond | abs | equals | greater | greaterEquals | lower | lowerEquals | bitAnd | notEquals
  | greaterSigned | greaterEqualsSigned | lowerSigned | lowerEqualsSigned
  deriving DecidableEq, Repr

/-- the discriminants the Rust enums are declared with (`X = BPF_… as isize`) -/
def Source.bits : Source → BitVec 8 | .imm => 0x00 | .reg => 0x08
def Arch.bits : Arch → BitVec 8 | .x64 => 0x07 | .x32 => 0x04
def OpBits.bits : OpBits → BitVec 8
  | .add => 0x00 | .sub => 0x10 | .mul => 0x20 | .div => 0x30 | .bitOr => 0x40 | .bitAnd => 0x50
  | .lShift => 0x60 | .rShift => 0x70 | .negate => 0x80 | .mod => 0x90 | .bitXor => 0xa0
  | .mov => 0xb0 | .signRShift => 0xc0
def Endian.bits : Endian → BitVec 8 | .little => 0xd4 | .big => 0xdc
def MemSize.bits : MemSize → BitVec 8 | .byte => 0x10 | .halfWord => 0x08 | .word => 0x00 | .doubleWord => 0x18
def Addressing.bits : Addressing → BitVec 8 | .imm => 0x00 | .abs => 0x20 | .ind => 0x40 | .mem => 0x60
def Cond.bits : Cond → BitVec 8
  | .abs => 0x00 | .equals => 0x10 | .greater => 0x20 | .greaterEquals => 0x30 | .lower => 0xa0
  | .lowerEquals => 0xb0 | .bitAnd => 0x40 | .notEquals => 0x50 | .greaterSigned => 0x60
  | .greaterEqualsSigned => 0x70 | .lowerSigned => 0xc0 | .lowerEqualsSigned => 0xd0

/-- one constructor per builder struct as the public `BpfCode` methods create them -/
inductive Kind
  | move (s : Source) (a : Arch) (op : OpBits)     -- add/sub/…/mov/negate (negate passes Source::Imm)
  | swap (e : Endian)
  | load (a : Addressing) (m : MemSize) (source : BitVec 8)   -- load/load_abs/load_ind (BPF_LD), load_x (BPF_LDX)
  | store (m : MemSize) (source : BitVec 8)            -- store: BPF_IMM, store_x: BPF_MEM|BPF_STX
  | jump (c : Cond) (s : Source)
  | call
  | exit
  deriving DecidableEq, Repr

/-- `opt_code_byte` of each struct -/
def Kind.optCode : Kind → BitVec 8
  | .move s a op => op.bits ||| s.bits ||| a.bits
  | .swap e => e.bits
  | .load a m source => a.bits ||| m.bits ||| source
  | .store m source => 0x60 ||| 0x02 ||| m.bits ||| source
  | .jump c s => c.bits ||| s.bits ||| 0x05
  | .call => 0x80 ||| 0x05
  | .exit => 0x90 ||| 0x05

/-- `IntoBytes for &I :: into_bytes` — `f` holds the fields set through `set_dst/src/off/imm`
    (its `opc` is never read: the opcode byte comes from `opt_code_byte`). -/
def intoBytes (k : Kind) (f : Insn) : List (BitVec 8) :=
  [ k.optCode,
    (f.src <<< (4 : Nat)) ||| f.dst,
    f.off.setWidth 8,
    (f.off.sshiftRight 8).setWidth 8,
    f.imm.setWidth 8,
    (f.imm.sshiftRight 8).setWidth 8,
    (f.imm.sshiftRight 16).setWidth 8,
    (f.imm.sshiftRight 24).setWidth 8 ]

/-- the instruction the builder denotes -/
def insn (k : Kind) (f : Insn) : Insn := { f with opc := k.optCode }

end Rbpf.Builder
