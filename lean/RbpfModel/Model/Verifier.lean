/-
  Model of `src/verifier.rs` (`check` and its helpers), arm by arm.  Outcomes: `ok`, `err` (the
  `reject(..)?` paths), `panic` (a `get_insn` out of range).  Error messages are not modelled.
-/
import RbpfModel.Model.Insn
namespace Rbpf.Verifier

inductive VRes | ok | err | panic
  deriving DecidableEq, Repr, Inhabited

/-- which arm of `check`'s `match insn.opc` an opcode selects -/
inductive Arm | plain | lddw | store | xadd | endian | jump | call | tailCall | exit | unknown
  deriving DecidableEq, Repr

/-- the arm table of `check` (verifier.rs:122-299), opcode constants expanded -/
def arm (opc : Nat) : Arm :=
  match opc with
  -- BPF_LD class: LD_ABS_B/H/W/DW, LD_IND_B/H/W/DW
  | 0x30 | 0x28 | 0x20 | 0x38 | 0x50 | 0x48 | 0x40 | 0x58 => .plain
  | 0x18 => .lddw
  -- BPF_LDX
  | 0x71 | 0x69 | 0x61 | 0x79 => .plain
  -- BPF_ST, BPF_STX
  | 0x72 | 0x6a | 0x62 | 0x7a | 0x73 | 0x6b | 0x63 | 0x7b => .store
  | 0xc3 | 0xdb => .xadd
  -- BPF_ALU
  | 0x04 | 0x0c | 0x14 | 0x1c | 0x24 | 0x2c | 0x34 | 0x3c | 0x44 | 0x4c | 0x54 | 0x5c | 0x64 | 0x6c
  | 0x74 | 0x7c | 0x84 | 0x94 | 0x9c | 0xa4 | 0xac | 0xb4 | 0xbc | 0xc4 | 0xcc => .plain
  | 0xd4 | 0xdc => .endian
  -- BPF_ALU64
  | 0x07 | 0x0f | 0x17 | 0x1f | 0x27 | 0x2f | 0x37 | 0x3f | 0x47 | 0x4f | 0x57 | 0x5f | 0x67 | 0x6f
  | 0x77 | 0x7f | 0x87 | 0x97 | 0x9f | 0xa7 | 0xaf | 0xb7 | 0xbf | 0xc7 | 0xcf => .plain
  -- BPF_JMP
  | 0x05 | 0x15 | 0x1d | 0x25 | 0x2d | 0x35 | 0x3d | 0xa5 | 0xad | 0xb5 | 0xbd | 0x45 | 0x4d | 0x55
  | 0x5d | 0x65 | 0x6d | 0x75 | 0x7d | 0xc5 | 0xcd | 0xd5 | 0xdd => .jump
  -- BPF_JMP32
  | 0x16 | 0x1e | 0x26 | 0x2e | 0x36 | 0x3e | 0xa6 | 0xae | 0xb6 | 0xbe | 0x46 | 0x4e | 0x56 | 0x5e
  | 0x66 | 0x6e | 0x76 | 0x7e | 0xc6 | 0xce | 0xd6 | 0xde => .jump
  | 0x85 => .call
  | 0x8d => .tailCall
  | 0x95 => .exit
  | _ => .unknown

/-- `check_prog_len` -/
def checkProgLen (p : Bytes) : VRes :=
  if p.size % 8 ≠ 0 then .err
  else if p.size > 8 * 1000000 then .err
  else if p.size = 0 then .err
  else match getInsn? p (p.size / 8 - 1) with
    | none => .panic
    | some last => if last.opc ≠ 0x95 ∧ last.opc ≠ 0x05 then .err else .ok

/-- `check_load_dw` -/
def checkLoadDw (p : Bytes) (pc : Nat) : VRes :=
  match getInsn? p (pc + 1) with
  | none => .panic
  | some next => if next.opc ≠ 0 then .err else .ok

/-- the destination test shared by `check_jmp_offset` and the local-call arm:
    inside the program and not an opcode-0 slot -/
def checkTarget (p : Bytes) (dst : Int) : VRes :=
  if dst < 0 ∨ dst.toNat ≥ p.size / 8 then .err
  else match getInsn? p dst.toNat with
    | none => .panic
    | some d => if d.opc = 0 then .err else .ok

/-- `check_jmp_offset` -/
def checkJmpOffset (p : Bytes) (pc : Nat) (insn : Insn) : VRes :=
  if insn.off = -1 then .err
  else checkTarget p ((pc : Int) + 1 + insn.off.toInt)

/-- `check_registers` -/
def checkRegisters (insn : Insn) (store : Bool) : VRes :=
  if insn.src.toNat > 10 then .err
  else if insn.dst.toNat ≤ 9 then .ok
  else if insn.dst.toNat = 10 ∧ store then .ok
  else .err

/-- one iteration of the loop body of `check` for the instruction at `pc`.
    Returns the outcome and whether the instruction occupies two slots. -/
def insnCheck (p : Bytes) (pc : Nat) : VRes × Bool :=
  match getInsn? p pc with
  | none => (.panic, false)
  | some insn =>
    match arm insn.opc.toNat with
    | .plain => (checkRegisters insn false, false)
    | .lddw =>
      match checkLoadDw p pc with
      | .ok => (checkRegisters insn false, true)
      | r => (r, true)
    | .store => (checkRegisters insn true, false)
    | .xadd => if insn.imm ≠ 0 then (.err, false) else (checkRegisters insn true, false)
    | .endian =>
      if insn.imm = 16 ∨ insn.imm = 32 ∨ insn.imm = 64 then (checkRegisters insn false, false) else (.err, false)
    | .jump =>
      match checkJmpOffset p pc insn with
      | .ok => (checkRegisters insn false, false)
      | r => (r, false)
    | .call =>
      if insn.src = 0 then (checkRegisters insn false, false)
      else if insn.src = 1 then
        match checkTarget p ((pc : Int) + 1 + insn.imm.toInt) with
        | .ok => (checkRegisters insn false, false)
        | r => (r, false)
      else (.err, false)
    | .tailCall => (.err, false)
    | .exit => (checkRegisters insn false, false)
    | .unknown => (.err, false)

/-- the `while insn_ptr * INSN_SIZE < prog.len()` loop and the final `insn_ptr != len/8` test -/
def checkLoop (p : Bytes) (pc : Nat) : VRes :=
  if pc * 8 < p.size then
    match insnCheck p pc with
    | (.ok, wide) => checkLoop p (pc + (if wide then 2 else 1))
    | (r, _) => r
  else if pc ≠ p.size / 8 then .err else .ok
termination_by p.size - pc * 8
decreasing_by all_goals (split <;> omega)

/-- `verifier::check` -/
def check (p : Bytes) : VRes :=
  match checkProgLen p with
  | .ok => checkLoop p 0
  | r => r

end Rbpf.Verifier
