/-
  Model of `src/asm_parser.rs` (the `combine` grammar, including which failures commit and which
  backtrack) and `src/assembler.rs` (mnemonic table, `encode`, `insn` range checks, `lddw` split).
  Text is a `List Char`.  The two character classes that are Unicode-aware in Rust
  (`char::is_whitespace` for `spaces()`, `char::is_alphanumeric` for `alpha_num()`) are parameters;
  digits are ASCII (`is_digit(10)`, `is_digit(16)`).
  Outcomes: `ok`, `err` (an `Err(String)`), `panic`.
-/
import RbpfModel.Model.Insn
namespace Rbpf.Asm

structure CharClass where
  isWs : Char → Bool
  isAlnum : Char → Bool
  isAlpha : Char → Bool              -- `letter()` = `char::is_alphabetic`

inductive Operand
  | register (n : Int)
  | integer (v : Int)
  | memory (reg : Int) (off : Int)
  deriving DecidableEq, Repr, Inhabited

structure Instruction where
  name : List Char
  operands : List Operand
  deriving DecidableEq, Repr

/-- parse result: `ok a rest`; `errEmpty` = failed without consuming input (the enclosing `or`,
    `many`, `optional`, `sep_by` may go on); `errCommit` = failed after consuming (the whole parse
    fails); `panic` -/
inductive PR (α : Type)
  | ok (a : α) (rest : List Char)
  | errEmpty
  | errCommit
  | panic
  deriving Repr

def isDigit (c : Char) : Bool := '0' ≤ c && c ≤ '9'
def isHexDigit (c : Char) : Bool := isDigit c || ('a' ≤ c && c ≤ 'f') || ('A' ≤ c && c ≤ 'F')
def digitVal (c : Char) : Nat := c.toNat - '0'.toNat
def hexVal (c : Char) : Nat :=
  if isDigit c then c.toNat - '0'.toNat else if 'a' ≤ c && c ≤ 'f' then c.toNat - 'a'.toNat + 10 else c.toNat - 'A'.toNat + 10

def decValue (ds : List Char) : Nat := ds.foldl (fun a c => a * 10 + digitVal c) 0
def hexValue (ds : List Char) : Nat := ds.foldl (fun a c => a * 16 + hexVal c) 0

/-- `u64 as i64` -/
def u64ToI64 (n : Nat) : Int := if n < 2 ^ 63 then n else (n : Int) - 2 ^ 64
/-- `i64` wrapping: reduce into [-2^63, 2^63) -/
def wrapI64 (v : Int) : Int := u64ToI64 (v.emod (2 ^ 64)).toNat

/-- `spaces()` -/
def skipSpaces (cc : CharClass) (s : List Char) : List Char := s.dropWhile cc.isWs

/-- `many1(p)` over a character class: the longest non-empty prefix -/
def span1 (p : Char → Bool) (s : List Char) : Option (List Char × List Char) :=
  match s.span p with
  | ([], _) => none
  | (a, b) => some (a, b)

/-- `ident()` = `many1(alpha_num())` -/
def ident (cc : CharClass) (s : List Char) : PR (List Char) :=
  match span1 cc.isAlnum s with
  | some (a, rest) => .ok a rest
  | none => .errEmpty

/-- the number after the optional sign: `attempt(string("0x").with(many1(hex_digit()))).and_then(from_str_radix)`
    `.or(many1(digit()).and_then(parse::<u64>))` — a `u64` and whether it was written in hexadecimal;
    a literal that does not fit `u64` is a parse error (committed: the digits were consumed) -/
def unsignedNumber (s : List Char) : PR (Nat × Bool) :=
  let dec (s : List Char) : PR (Nat × Bool) :=
    match span1 isDigit s with
    | some (ds, rest) => if decValue ds < 2 ^ 64 then .ok (decValue ds, false) rest else .errCommit
    | none => .errEmpty
  match s with
  | '0' :: 'x' :: t =>
    match span1 isHexDigit t with
    | some (ds, rest) => if hexValue ds < 2 ^ 64 then .ok (hexValue ds, true) rest else .errCommit
    | none => dec s                   -- `attempt` rewinds: "0x" + non-hex reads as decimal 0
  | _ => dec s

/-- the final `and_then` of `integer()`: hexadecimal literals denote 64-bit patterns (`x as i64`, the sign
    applied with `wrapping_mul`), decimal literals a magnitude range-checked against `i64` -/
def applySign (neg : Bool) (m : Nat) (isHex : Bool) : Option Int :=
  if isHex then some (wrapI64 ((if neg then -1 else 1) * u64ToI64 m))
  else if ¬ neg ∧ m < 2 ^ 63 then some m
  else if neg ∧ m ≤ 2 ^ 63 then some (- (m : Int))
  else none

/-- `integer()`: optional sign, then hex or decimal -/
def integer (s : List Char) : PR Int :=
  let fin (neg : Bool) (consumedSign : Bool) (t : List Char) : PR Int :=
    match unsignedNumber t with
    | .ok (m, isHex) rest =>
      match applySign neg m isHex with
      | some v => .ok v rest
      | none => .errCommit
    | .errEmpty => if consumedSign then .errCommit else .errEmpty
    | .errCommit => .errCommit
    | .panic => .panic
  match s with
  | '-' :: t => fin true true t
  | '+' :: t => fin false true t
  | _ => fin false false s

/-- `register()`: `attempt(char('r').skip(not_followed_by(letter()))).with(many1(digit())).and_then(parse::<i64>)`:
    an `r` followed by a letter starts a mnemonic, not a register (nothing consumed); otherwise digits must follow -/
def register (cc : CharClass) (s : List Char) : PR Int :=
  match s with
  | 'r' :: t =>
    match t with
    | c :: _ => if cc.isAlpha c then .errEmpty else
      match span1 isDigit t with
      | some (ds, rest) => if decValue ds < 2 ^ 63 then .ok (decValue ds) rest else .errCommit
      | none => .errCommit
    | [] => .errCommit
  | _ => .errEmpty

/-- `between(char('['), char(']'), (register(), optional(integer())))` -/
def memory (cc : CharClass) (s : List Char) : PR Operand :=
  match s with
  | '[' :: t =>
    match register cc t with
    | .ok r rest =>
      match integer rest with
      | .ok off (']' :: rest') => .ok (.memory r off) rest'
      | .ok _ _ => .errCommit
      | .errEmpty => match rest with | ']' :: rest' => .ok (.memory r 0) rest' | _ => .errCommit
      | .errCommit => .errCommit
      | .panic => .panic
    | .panic => .panic
    | _ => .errCommit                  -- '[' was consumed
  | _ => .errEmpty

/-- `register_operand.or(immediate).or(memory)` -/
def operand (cc : CharClass) (s : List Char) : PR Operand :=
  match register cc s with
  | .ok r rest => .ok (.register r) rest
  | .errCommit => .errCommit
  | .panic => .panic
  | .errEmpty =>
    match integer s with
    | .ok v rest => .ok (.integer v) rest
    | .errCommit => .errCommit
    | .panic => .panic
    | .errEmpty => memory cc s

/-- the tail of `sep_by(operand(), char(',').skip(spaces()))` after the first operand -/
def operandsTail (cc : CharClass) : Nat → List Char → List Operand → PR (List Operand)
  | 0, s, acc => .ok acc.reverse s
  | fuel + 1, s, acc =>
    match s with
    | ',' :: t =>
      match operand cc (skipSpaces cc t) with
      | .ok o rest => operandsTail cc fuel rest (o :: acc)
      | .panic => .panic
      | _ => .errCommit                -- the separator was consumed: an operand must follow
    | _ => .ok acc.reverse s

def operands (cc : CharClass) (s : List Char) : PR (List Operand) :=
  match operand cc s with
  | .ok o rest => operandsTail cc rest.length rest [o]
  | .errEmpty => .ok [] s
  | .errCommit => .errCommit
  | .panic => .panic

/-- `(ident().skip(spaces()), operands, spaces())` -/
def instruction (cc : CharClass) (s : List Char) : PR Instruction :=
  match ident cc s with
  | .ok name rest =>
    match operands cc (skipSpaces cc rest) with
    | .ok ops rest' => .ok { name, operands := ops } (skipSpaces cc rest')
    | .panic => .panic
    | _ => .errCommit
  | .errEmpty => .errEmpty
  | .errCommit => .errCommit
  | .panic => .panic

inductive Outcome (α : Type)
  | ok (a : α)
  | err
  | panic
  deriving Repr, DecidableEq

/-- `many(instruction()).skip(eof())` -/
def parseLoop (cc : CharClass) : Nat → List Char → List Instruction → Outcome (List Instruction)
  | 0, _, _ => .err
  | fuel + 1, s, acc =>
    match instruction cc s with
    | .ok i rest => parseLoop cc fuel rest (i :: acc)
    | .errEmpty => if s.isEmpty then .ok acc.reverse else .err
    | .errCommit => .err
    | .panic => .panic

/-- `asm_parser::parse` -/
def parse (cc : CharClass) (s : List Char) : Outcome (List Instruction) :=
  let s' := skipSpaces cc s
  parseLoop cc (s'.length + 1) s' []

-- assembler.rs ---------------------------------------------------------------------------------------

inductive InstType
  | aluBinary | aluUnary | loadImm | loadAbs | loadInd | loadReg | storeImm | storeReg
  | jumpUnconditional | jumpConditional | call | callx | endian (size : Int) | noOperand
  deriving DecidableEq, Repr

/-- `make_instruction_map`, as the list of `entry(..)` calls in source order -/
def instructionMap : List (String × InstType × Nat) :=
  let aluBinaryOps : List (String × Nat) := [("add", 0x00), ("sub", 0x10), ("mul", 0x20), ("div", 0x30), ("or", 0x40), ("and", 0x50),
    ("lsh", 0x60), ("rsh", 0x70), ("mod", 0x90), ("xor", 0xa0), ("mov", 0xb0), ("arsh", 0xc0)]
  let memSizes : List (String × Nat) := [("w", 0x00), ("h", 0x08), ("b", 0x10), ("dw", 0x18)]
  let jumpConditions : List (String × Nat) := [("jeq", 0x10), ("jgt", 0x20), ("jge", 0x30), ("jlt", 0xa0), ("jle", 0xb0), ("jset", 0x40),
    ("jne", 0x50), ("jsgt", 0x60), ("jsge", 0x70), ("jslt", 0xc0), ("jsle", 0xd0)]
  [("exit", InstType.noOperand, 0x95), ("ja", .jumpUnconditional, 0x05), ("call", .call, 0x85), ("callx", .callx, 0x85),
   ("lddw", .loadImm, 0x18), ("neg", .aluUnary, 0x87), ("neg32", .aluUnary, 0x84), ("neg64", .aluUnary, 0x87)] ++
  aluBinaryOps.flatMap (fun (n, o) => [(n, InstType.aluBinary, 0x07 ||| o), (n ++ "32", .aluBinary, 0x04 ||| o), (n ++ "64", .aluBinary, 0x07 ||| o)]) ++
  memSizes.flatMap (fun (sfx, sz) => [("ldabs" ++ sfx, InstType.loadAbs, 0x20 ||| 0x00 ||| sz), ("ldind" ++ sfx, .loadInd, 0x40 ||| 0x00 ||| sz),
    ("ldx" ++ sfx, .loadReg, 0x60 ||| 0x01 ||| sz), ("st" ++ sfx, .storeImm, 0x60 ||| 0x02 ||| sz), ("stx" ++ sfx, .storeReg, 0x60 ||| 0x03 ||| sz)]) ++
  jumpConditions.flatMap (fun (n, c) => [(n, InstType.jumpConditional, 0x05 ||| c), (n ++ "32", .jumpConditional, 0x06 ||| c)]) ++
  [16, 32, 64].flatMap (fun (sz : Nat) => [("be" ++ toString sz, InstType.endian sz, 0xdc), ("le" ++ toString sz, .endian sz, 0xd4)])

def lookup (name : List Char) : Option (InstType × Nat) :=
  (instructionMap.find? (fun e => e.1.toList == name)).map (·.2)

/-- `insn(opc, dst, src, off, imm)`: the range checks, then the casts -/
def mkInsn (opc : Nat) (dst src off imm : Int) : Option Insn :=
  if ¬ (0 ≤ dst ∧ dst < 16) then none
  else if dst < 0 ∨ src ≥ 16 then none
  else if ¬ (-32768 ≤ off ∧ off < 32768) then none
  else if ¬ (-2147483648 ≤ imm ∧ imm < 2147483648) then none
  else some { opc := BitVec.ofNat 8 opc, dst := BitVec.ofInt 8 dst, src := BitVec.ofInt 8 src,
              off := BitVec.ofInt 16 off, imm := BitVec.ofInt 32 imm }

/-- `(imm << 32) >> 32` on `i64`: the low 32 bits, sign-extended -/
def low32s (imm : Int) : Int := (BitVec.ofInt 32 imm).toInt
/-- `imm >> 32` on `i64` -/
def high32s (imm : Int) : Int := imm / 2 ^ 32        -- Int.div rounds toward −∞ for a positive divisor: arithmetic shift

/-- `encode` -/
def encode (t : InstType) (opc : Nat) (ops : List Operand) : Option Insn :=
  match t, ops with
  | .aluBinary, [.register dst, .register src] => mkInsn (opc ||| 0x08) dst src 0 0
  | .aluBinary, [.register dst, .integer imm] => mkInsn (opc ||| 0x00) dst 0 0 imm
  | .aluUnary, [.register dst] => mkInsn opc dst 0 0 0
  | .loadAbs, [.integer imm] => mkInsn opc 0 0 0 imm
  | .loadInd, [.register src, .integer imm] => mkInsn opc 0 src 0 imm
  | .loadReg, [.register dst, .memory src off] => mkInsn opc dst src off 0
  | .storeReg, [.memory dst off, .register src] => mkInsn opc dst src off 0
  | .storeImm, [.memory dst off, .integer imm] => mkInsn opc dst 0 off imm
  | .noOperand, [] => mkInsn opc 0 0 0 0
  | .jumpUnconditional, [.integer off] => mkInsn opc 0 0 off 0
  | .jumpConditional, [.register dst, .register src, .integer off] => mkInsn (opc ||| 0x08) dst src off 0
  | .jumpConditional, [.register dst, .integer imm, .integer off] => mkInsn (opc ||| 0x00) dst 0 off imm
  | .call, [.integer imm] => mkInsn opc 0 0 0 imm
  | .callx, [.integer imm] => mkInsn opc 0 1 0 imm
  | .endian size, [.register dst] => mkInsn opc dst 0 0 size
  | .loadImm, [.register dst, .integer imm] => mkInsn opc dst 0 0 (low32s imm)
  | _, _ => none

/-- `assemble_internal` -/
def assembleInternal : List Instruction → Outcome (List Insn)
  | [] => .ok []
  | i :: rest =>
    match lookup i.name with
    | none => .err
    | some (t, opc) =>
      match encode t opc i.operands with
      | none => .err
      | some x =>
        let second : Outcome (List Insn) :=
          match t, i.operands with
          | .loadImm, [_, .integer imm] =>
            match mkInsn 0 0 0 0 (high32s imm) with
            | some y => .ok [y]
            | none => .panic                 -- `.unwrap()`
          | _, _ => .ok []
        match second, assembleInternal rest with
        | .ok ys, .ok zs => .ok (x :: ys ++ zs)
        | .panic, _ => .panic
        | _, .panic => .panic
        | _, _ => .err

/-- `assembler::assemble` -/
def assemble (cc : CharClass) (src : List Char) : Outcome (List (BitVec 8)) :=
  match parse cc src with
  | .ok insts =>
    match assembleInternal insts with
    | .ok xs => .ok (xs.flatMap Insn.toArray)
    | .err => .err
    | .panic => .panic
  | .err => .err
  | .panic => .panic

end Rbpf.Asm
