/-
  The x86-64 subset the JIT emits: a decoder from machine-code bytes to an instruction AST and a small-step
  semantics over 16 general registers, the four condition flags the emitted `jcc`/`cmov` read, and a
  byte-addressed memory made of regions (native stack, packet, metadata, registered ranges).

  Every instruction form in `JitEmit` is covered; anything else decodes to `none` and the machine stops with
  `.fault` (so the model never silently "executes" a byte string it does not understand).  Flags are
  `none` (unknown) after instructions whose flag results the emitted code never reads; reading unknown flags
  is a fault.  Calls through a register go to registered external functions (the helpers) under the System V
  convention: arguments rdi, rsi, rdx, rcx, r8; result rax; caller-saved registers come back holding
  whatever `Cfg.clobber` says for that call and register (any function: the theorems hold for all of them).

  Validated against the host CPU on every run of the engine suites: the bytes of `JitEmit.compile` are run by
  this model and by the processor, results and memory digests are compared (DESIGN.md §4).
-/
import RbpfModel.Model.Mem
namespace Rbpf.X86

inductive AluOp | add | or | and | sub | xor | cmp | test | mov deriving DecidableEq, Repr
inductive ShOp | shl | shr | sar | rol deriving DecidableEq, Repr
inductive Cc | e | ne | a | ae | b | be | g | ge | l | le deriving DecidableEq, Repr

/-- registers are 0..15 in hardware numbering (rax rcx rdx rbx rsp rbp rsi rdi r8..r15); `sz` is an operand size in bits -/
inductive Instr where
  | push (r : Nat) | pop (r : Nat)
  | aluRR (w : Bool) (op : AluOp) (src dst : Nat)          -- `op r/m(dst), r(src)`, register form
  | aluRI (w : Bool) (op : AluOp) (dst : Nat) (imm : BitVec 32)
  | movabs (dst : Nat) (imm : BitVec 64)
  | shiftI (sz : Nat) (op : ShOp) (dst : Nat) (n : Nat)
  | shiftCl (w : Bool) (op : ShOp) (dst : Nat)
  | neg (w : Bool) (dst : Nat)
  | mul (w : Bool) (src : Nat)
  | div (w : Bool) (src : Nat)
  | bswap (w : Bool) (dst : Nat)
  | load (sz : Nat) (dst base : Nat) (disp : Int)          -- zero-extending
  | store (sz : Nat) (src base : Nat) (disp : Int)
  | storeI (sz : Nat) (base : Nat) (disp : Int) (imm : BitVec 32)
  | lockAdd (w : Bool) (src base : Nat) (disp : Int)
  | cmovz (dst src : Nat)
  | jcc (cc : Cc) (rel : BitVec 32) | jmp (rel : BitVec 32) | call (rel : BitVec 32) | callReg (r : Nat) | ret
deriving DecidableEq, Repr

-- ---------------------------------------------------------------------------------------------------------
-- decoder (bytes as `Nat` < 256)

structure Pfx where
  lock : Bool := false
  o16 : Bool := false
  rex : Option Nat := none         -- low four bits W R X B
deriving Repr

def Pfx.w (p : Pfx) : Bool := match p.rex with | some r => r &&& 8 ≠ 0 | none => false
def Pfx.r (p : Pfx) : Nat := match p.rex with | some r => if r &&& 4 ≠ 0 then 8 else 0 | none => 0
def Pfx.x (p : Pfx) : Bool := match p.rex with | some r => r &&& 2 ≠ 0 | none => false
def Pfx.b (p : Pfx) : Nat := match p.rex with | some r => if r &&& 1 ≠ 0 then 8 else 0 | none => 0

def le32 (b0 b1 b2 b3 : Nat) : BitVec 32 := BitVec.ofNat 32 (b0 + 256 * b1 + 65536 * b2 + 16777216 * b3)
def sext8 (b : Nat) : Int := if b < 128 then b else (b : Int) - 256

/-- the memory operand of a ModRM byte (no SIB, no RIP-relative: neither is emitted): (base register, displacement, bytes used) -/
def memOperand (p : Pfx) (modrm : Nat) (rest : List Nat) : Option (Nat × Int × Nat) :=
  let md := modrm >>> 6
  let rm := modrm &&& 7
  if rm = 4 then none
  else if md = 0 then (if rm = 5 then none else some (p.b + rm, 0, 0))
  else if md = 1 then
    match rest with
    | d :: _ => some (p.b + rm, sext8 d, 1)
    | _ => none
  else if md = 2 then
    match rest with
    | d0 :: d1 :: d2 :: d3 :: _ => some (p.b + rm, (le32 d0 d1 d2 d3).toInt, 4)
    | _ => none
  else none

def ccOf (b : Nat) : Option Cc :=
  match b with
  | 0x82 => some .b | 0x83 => some .ae | 0x84 => some .e | 0x85 => some .ne | 0x86 => some .be | 0x87 => some .a
  | 0x8c => some .l | 0x8d => some .ge | 0x8e => some .le | 0x8f => some .g
  | _ => none

def aluOfOpcode (b : Nat) : Option AluOp :=
  match b with
  | 0x01 => some .add | 0x09 => some .or | 0x21 => some .and | 0x29 => some .sub | 0x31 => some .xor
  | 0x39 => some .cmp | 0x85 => some .test | 0x89 => some .mov
  | _ => none

def aluOfExt81 (e : Nat) : Option AluOp :=
  match e with
  | 0 => some .add | 1 => some .or | 4 => some .and | 5 => some .sub | 6 => some .xor | 7 => some .cmp
  | _ => none

def shOfExt (e : Nat) : Option ShOp :=
  match e with
  | 0 => some .rol | 4 => some .shl | 5 => some .shr | 7 => some .sar
  | _ => none

/-- decode after the prefixes; `n0` bytes were consumed by them -/
def decodeOp (p : Pfx) (n0 : Nat) (bs : List Nat) : Option (Instr × Nat) :=
  let plain := !p.lock && !p.o16
  match bs with
  | [] => none
  | op :: rest =>
    -- canonical prefixes only: REX.X is never meaningful here (no SIB), and a REX prefix with no bit set is accepted only
    -- where it changes the meaning (byte stores: `88 /r` on sil/dil/bpl/spl).  This makes the length of a decoded
    -- register-form instruction a function of the instruction.
    if p.x then none
    else if p.rex = some 0 ∧ op ≠ 0x88 then none
    else if 0x50 ≤ op ∧ op ≤ 0x57 then (if plain then some (.push (p.b + (op &&& 7)), n0 + 1) else none)
    else if 0x58 ≤ op ∧ op ≤ 0x5f then (if plain then some (.pop (p.b + (op &&& 7)), n0 + 1) else none)
    else if 0xb8 ≤ op ∧ op ≤ 0xbf then
      match rest with
      | a0 :: a1 :: a2 :: a3 :: a4 :: a5 :: a6 :: a7 :: _ =>
        if plain ∧ p.w then
          some (.movabs (p.b + (op &&& 7)) ((le32 a4 a5 a6 a7) ++ (le32 a0 a1 a2 a3)), n0 + 9)
        else none
      | _ => none
    else if op = 0xc3 then (if plain ∧ p.rex.isNone then some (.ret, n0 + 1) else none)
    else if op = 0xe8 ∨ op = 0xe9 then
      match rest with
      | a0 :: a1 :: a2 :: a3 :: _ =>
        if plain ∧ p.rex.isNone then some (if op = 0xe8 then .call (le32 a0 a1 a2 a3) else .jmp (le32 a0 a1 a2 a3), n0 + 5) else none
      | _ => none
    else if op = 0x0f then
      match rest with
      | op2 :: rest2 =>
        if 0x80 ≤ op2 ∧ op2 ≤ 0x8f then
          match ccOf op2, rest2 with
          | some cc, a0 :: a1 :: a2 :: a3 :: _ => if plain ∧ p.rex.isNone then some (.jcc cc (le32 a0 a1 a2 a3), n0 + 6) else none
          | _, _ => none
        else if 0xc8 ≤ op2 ∧ op2 ≤ 0xcf then (if plain then some (.bswap p.w (p.b + (op2 &&& 7)), n0 + 2) else none)
        else if op2 = 0xb6 ∨ op2 = 0xb7 then
          match rest2 with
          | modrm :: rest3 =>
            match memOperand p modrm rest3 with
            | some (base, disp, k) => if plain then some (.load (if op2 = 0xb6 then 8 else 16) (p.r + ((modrm >>> 3) &&& 7)) base disp, n0 + 3 + k) else none
            | none => none
          | _ => none
        else if op2 = 0x44 then
          match rest2 with
          | modrm :: _ => if plain ∧ p.w ∧ modrm >>> 6 = 3 then some (.cmovz (p.r + ((modrm >>> 3) &&& 7)) (p.b + (modrm &&& 7)), n0 + 3) else none
          | _ => none
        else none
      | _ => none
    else
      match rest with
      | [] => none
      | modrm :: rest2 =>
        let md := modrm >>> 6
        let reg := (modrm >>> 3) &&& 7
        let rm := modrm &&& 7
        if op = 0xff then (if plain ∧ md = 3 ∧ reg = 2 then some (.callReg (p.b + rm), n0 + 2) else none)
        else if op = 0x8b then
          match memOperand p modrm rest2 with
          | some (base, disp, k) => if plain then some (.load (if p.w then 64 else 32) (p.r + reg) base disp, n0 + 2 + k) else none
          | none => none
        else if op = 0x88 then
          -- without a REX prefix registers 4..7 would mean ah/ch/dh/bh: the emitter always emits one
          match memOperand p modrm rest2 with
          | some (base, disp, k) => if plain ∧ p.rex.isSome then some (.store 8 (p.r + reg) base disp, n0 + 2 + k) else none
          | none => none
        else if op = 0xc6 then
          match memOperand p modrm rest2 with
          | some (base, disp, k) =>
            match rest2.drop k with
            | i0 :: _ => if plain ∧ reg = 0 then some (.storeI 8 base disp (BitVec.ofNat 32 i0), n0 + 3 + k) else none
            | _ => none
          | none => none
        else if op = 0xc7 then
          if md = 3 then
            match rest2 with
            | a0 :: a1 :: a2 :: a3 :: _ => if plain ∧ reg = 0 then some (.aluRI p.w .mov (p.b + rm) (le32 a0 a1 a2 a3), n0 + 6) else none
            | _ => none
          else
            match memOperand p modrm rest2 with
            | some (base, disp, k) =>
              if p.lock ∨ reg ≠ 0 then none
              else if p.o16 then
                match rest2.drop k with
                | i0 :: i1 :: _ => if p.w then none else some (.storeI 16 base disp (le32 i0 i1 0 0), n0 + 4 + k)
                | _ => none
              else
                match rest2.drop k with
                | i0 :: i1 :: i2 :: i3 :: _ => some (.storeI (if p.w then 64 else 32) base disp (le32 i0 i1 i2 i3), n0 + 6 + k)
                | _ => none
            | none => none
        else if op = 0x81 then
          match aluOfExt81 reg, rest2 with
          | some a, a0 :: a1 :: a2 :: a3 :: _ => if plain ∧ md = 3 then some (.aluRI p.w a (p.b + rm) (le32 a0 a1 a2 a3), n0 + 6) else none
          | _, _ => none
        else if op = 0xc1 then
          match shOfExt reg, rest2 with
          | some s, n :: _ =>
            if p.lock ∨ md ≠ 3 then none
            else if p.o16 then (if p.w then none else some (.shiftI 16 s (p.b + rm) n, n0 + 3))
            else some (.shiftI (if p.w then 64 else 32) s (p.b + rm) n, n0 + 3)
          | _, _ => none
        else if op = 0xd3 then
          match shOfExt reg with
          | some s => if plain ∧ md = 3 then some (.shiftCl p.w s (p.b + rm), n0 + 2) else none
          | none => none
        else if op = 0xf7 then
          if ¬ plain ∨ md ≠ 3 then none
          else if reg = 0 then
            match rest2 with
            | a0 :: a1 :: a2 :: a3 :: _ => some (.aluRI p.w .test (p.b + rm) (le32 a0 a1 a2 a3), n0 + 6)
            | _ => none
          else if reg = 3 then some (.neg p.w (p.b + rm), n0 + 2)
          else if reg = 4 then some (.mul p.w (p.b + rm), n0 + 2)
          else if reg = 6 then some (.div p.w (p.b + rm), n0 + 2)
          else none
        else
          match aluOfOpcode op with
          | none => none
          | some a =>
            if md = 3 then (if plain then some (.aluRR p.w a (p.r + reg) (p.b + rm), n0 + 2) else none)
            else
              match memOperand p modrm rest2 with
              | none => none
              | some (base, disp, k) =>
                if op = 0x01 then (if p.lock ∧ !p.o16 then some (.lockAdd p.w (p.r + reg) base disp, n0 + 2 + k) else none)
                else if op = 0x89 then
                  (if p.lock then none
                   else if p.o16 then (if p.w then none else some (.store 16 (p.r + reg) base disp, n0 + 2 + k))
                   else some (.store (if p.w then 64 else 32) (p.r + reg) base disp, n0 + 2 + k))
                else none

/-- prefixes in the order the emitter writes them: `f0`, `66`, REX -/
def decode (bs : List Nat) : Option (Instr × Nat) :=
  let (lock, bs1, n1) := match bs with | 0xf0 :: t => (true, t, 1) | _ => (false, bs, 0)
  let (o16, bs2, n2) := match bs1 with | 0x66 :: t => (true, t, n1 + 1) | _ => (false, bs1, n1)
  match bs2 with
  | b :: t => if 0x40 ≤ b ∧ b ≤ 0x4f then decodeOp { lock, o16, rex := some (b &&& 15) } (n2 + 1) t
              else decodeOp { lock, o16, rex := none } n2 bs2
  | [] => none

-- ---------------------------------------------------------------------------------------------------------
-- machine state

structure Flags where
  zf : Bool
  sf : Bool
  cf : Bool
  of : Bool
deriving DecidableEq, Repr

/-- an external function reachable by `call reg`: (tag for the log, function of the five argument registers) -/
abbrev ExtFn := Nat × (BitVec 64 → BitVec 64 → BitVec 64 → BitVec 64 → BitVec 64 → BitVec 64)

structure Cfg where
  code : Array UInt8
  codeBase : Nat                           -- address of `code[0]`
  ext : Nat → Option ExtFn                 -- address ↦ external function
  retSentinel : BitVec 64                  -- the return address the caller pushed: returning there ends the run
  clobber : Nat → Nat → BitVec 64 := fun _ _ => 0   -- what caller-saved register `r` holds after the `n`-th external call (n = calls made before it)

structure St where
  reg : Vector (BitVec 64) 16
  rip : Nat
  flags : Option Flags
  mem : List Region
  log : List (Nat × List (BitVec 64))      -- external calls made: (tag, [rdi, rsi, rdx, rcx, r8])
  misaligned : Nat := 0                    -- external calls entered with rsp not a multiple of 16

inductive Out
  | next (s : St)
  | done (rax : BitVec 64) (s : St)
  | fault (why : String)

def RAX := 0
def RCX := 1
def RDX := 2
def RSP := 4
def RSI := 6
def RDI := 7

@[inline] def St.get (s : St) (r : Nat) : BitVec 64 := s.reg.getD r 0
@[inline] def St.set (s : St) (r : Nat) (v : BitVec 64) : St := { s with reg := s.reg.setIfInBounds r v }

/-- read `w` bytes at `a` from the first region holding all of them -/
def readMem (m : List Region) (a w : Nat) : Option (List (BitVec 8)) :=
  match m.find? (fun r => r.contains a w) with
  | some r => some ((List.range w).map (fun k => r.bytes.getD (a - r.base + k) 0))
  | none => none

def writeMem (m : List Region) (a : Nat) (bs : List (BitVec 8)) : Option (List Region) := Memory.writeExtra m a bs

/-- the value of a register at an operand size (the low `sz` bits) -/
@[inline] def trunc (sz : Nat) (v : BitVec 64) : Nat := v.toNat % 2 ^ sz

/-- writing a register at an operand size: 64 and 32 replace the register (32 zero-extends), 16 and 8 keep the upper bits -/
def writeSized (s : St) (sz : Nat) (r : Nat) (v : Nat) : St :=
  if sz = 64 ∨ sz = 32 then s.set r (BitVec.ofNat 64 (v % 2 ^ sz))
  else s.set r (BitVec.ofNat 64 ((s.get r).toNat / 2 ^ sz * 2 ^ sz + v % 2 ^ sz))

def msb (sz : Nat) (v : Nat) : Bool := v / 2 ^ (sz - 1) % 2 = 1

def flagsLogic (sz : Nat) (res : Nat) : Flags := { zf := res % 2 ^ sz = 0, sf := msb sz (res % 2 ^ sz), cf := false, of := false }
def flagsSub (sz : Nat) (a b : Nat) : Flags :=
  let res := (a + 2 ^ sz - b) % 2 ^ sz
  { zf := res = 0, sf := msb sz res, cf := a < b, of := (msb sz a != msb sz b) && (msb sz res != msb sz a) }
def flagsAdd (sz : Nat) (a b : Nat) : Flags :=
  let res := (a + b) % 2 ^ sz
  { zf := res = 0, sf := msb sz res, cf := a + b ≥ 2 ^ sz, of := (msb sz a == msb sz b) && (msb sz res != msb sz a) }

def Cc.holds (c : Cc) (f : Flags) : Bool :=
  match c with
  | .e => f.zf | .ne => !f.zf
  | .a => !f.cf && !f.zf | .ae => !f.cf | .b => f.cf | .be => f.cf || f.zf
  | .g => !f.zf && (f.sf == f.of) | .ge => f.sf == f.of | .l => f.sf != f.of | .le => f.zf || (f.sf != f.of)

/-- binary ALU operation at size `sz` on (destination value, source value): (result to write back, flags) -/
def alu (op : AluOp) (sz : Nat) (a b : Nat) (old : Option Flags) : Option Nat × Option Flags :=
  match op with
  | .add => (some ((a + b) % 2 ^ sz), some (flagsAdd sz a b))
  | .sub => (some ((a + 2 ^ sz - b) % 2 ^ sz), some (flagsSub sz a b))
  | .cmp => (none, some (flagsSub sz a b))
  | .and => (some (a &&& b), some (flagsLogic sz (a &&& b)))
  | .test => (none, some (flagsLogic sz (a &&& b)))
  | .or => (some (a ||| b), some (flagsLogic sz (a ||| b)))
  | .xor => (some (a ^^^ b), some (flagsLogic sz (a ^^^ b)))
  | .mov => (some b, old)

def shift (op : ShOp) (sz : Nat) (a : Nat) (count : Nat) : Nat :=
  let c := if sz = 64 then count % 64 else count % 32
  match op with
  | .shl => (a <<< c) % 2 ^ sz
  | .shr => a >>> c
  | .sar => ((BitVec.ofNat sz a).sshiftRight c).toNat
  | .rol => let k := c % sz; ((a <<< k) ||| (a >>> (sz - k))) % 2 ^ sz

def addrOf (s : St) (base : Nat) (disp : Int) : Nat := (((s.get base).toNat : Int) + disp).emod (2 ^ 64) |>.toNat

def push (s : St) (v : BitVec 64) : Option St :=
  let sp := (s.get RSP) - 8
  match writeMem s.mem sp.toNat (leBytes v.toNat 8) with
  | some m => some { (s.set RSP sp) with mem := m }
  | none => none

def pop (s : St) : Option (BitVec 64 × St) :=
  let sp := s.get RSP
  match readMem s.mem sp.toNat 8 with
  | some bs => some (BitVec.ofNat 64 (leValue bs), s.set RSP (sp + 8))
  | none => none

def relTarget (next : Nat) (rel : BitVec 32) : Nat := (((next : Int) + rel.toInt).emod (2 ^ 64)).toNat

/-- one instruction; `next` is the address of the following instruction -/
def exec (c : Cfg) (s : St) (i : Instr) (next : Nat) : Out :=
  let s := { s with rip := next }
  match i with
  | .push r => match push s (s.get r) with | some s' => .next s' | none => .fault "push outside memory"
  | .pop r => match pop s with | some (v, s') => .next (s'.set r v) | none => .fault "pop outside memory"
  | .aluRR w op src dst =>
    let sz := if w then 64 else 32
    let (res, fl) := alu op sz (trunc sz (s.get dst)) (trunc sz (s.get src)) s.flags
    let s := { s with flags := fl }
    .next (match res with | some v => writeSized s sz dst v | none => s)
  | .aluRI w op dst imm =>
    let sz := if w then 64 else 32
    let b := if w then (imm.signExtend 64).toNat else imm.toNat
    let (res, fl) := alu op sz (trunc sz (s.get dst)) b s.flags
    let s := { s with flags := fl }
    .next (match res with | some v => writeSized s sz dst v | none => s)
  | .movabs dst imm => .next (s.set dst imm)
  | .shiftI sz op dst n => .next (writeSized { s with flags := none } sz dst (shift op sz (trunc sz (s.get dst)) n))
  | .shiftCl w op dst =>
    let sz := if w then 64 else 32
    .next (writeSized { s with flags := none } sz dst (shift op sz (trunc sz (s.get dst)) ((s.get RCX).toNat % 256)))
  | .neg w dst =>
    let sz := if w then 64 else 32
    .next (writeSized { s with flags := none } sz dst ((2 ^ sz - trunc sz (s.get dst)) % 2 ^ sz))
  | .mul w src =>
    let sz := if w then 64 else 32
    let p := trunc sz (s.get RAX) * trunc sz (s.get src)
    let s := { s with flags := none }
    .next (writeSized (writeSized s sz RAX (p % 2 ^ sz)) sz RDX (p / 2 ^ sz))
  | .div w src =>
    let sz := if w then 64 else 32
    let d := trunc sz (s.get src)
    let n := trunc sz (s.get RDX) * 2 ^ sz + trunc sz (s.get RAX)
    if d = 0 then .fault "#DE: division by zero"
    else if n / d ≥ 2 ^ sz then .fault "#DE: quotient overflow"
    else
      let s := { s with flags := none }
      .next (writeSized (writeSized s sz RAX (n / d)) sz RDX (n % d))
  | .bswap w dst =>
    let k := if w then 8 else 4
    .next (s.set dst (BitVec.ofNat 64 (leValue (leBytes (s.get dst).toNat k).reverse)))
  | .load sz dst base disp =>
    match readMem s.mem (addrOf s base disp) (sz / 8) with
    | some bs => .next (s.set dst (BitVec.ofNat 64 (leValue bs)))
    | none => .fault "load outside memory"
  | .store sz src base disp =>
    match writeMem s.mem (addrOf s base disp) (leBytes (s.get src).toNat (sz / 8)) with
    | some m => .next { s with mem := m }
    | none => .fault "store outside memory"
  | .storeI sz base disp imm =>
    let v := if sz = 64 then (imm.signExtend 64).toNat else imm.toNat
    match writeMem s.mem (addrOf s base disp) (leBytes v (sz / 8)) with
    | some m => .next { s with mem := m }
    | none => .fault "store outside memory"
  | .lockAdd w src base disp =>
    let k := if w then 8 else 4
    let a := addrOf s base disp
    match readMem s.mem a k with
    | some bs =>
      match writeMem s.mem a (leBytes (leValue bs + (s.get src).toNat) k) with
      | some m => .next { s with mem := m, flags := none }
      | none => .fault "lock add outside memory"
    | none => .fault "lock add outside memory"
  | .cmovz dst src =>
    match s.flags with
    | some f => .next (if f.zf then s.set dst (s.get src) else s)
    | none => .fault "cmov on unknown flags"
  | .jcc cc rel =>
    match s.flags with
    | some f => .next (if cc.holds f then { s with rip := relTarget next rel } else s)
    | none => .fault "jcc on unknown flags"
  | .jmp rel => .next { s with rip := relTarget next rel }
  | .call rel =>
    match push s (BitVec.ofNat 64 next) with
    | some s' => .next { s' with rip := relTarget next rel }
    | none => .fault "call: push outside memory"
  | .callReg r =>
    let target := (s.get r).toNat
    match c.ext target with
    | some (tag, f) =>
      let args := [s.get RDI, s.get RSI, s.get RDX, s.get RCX, s.get 8]
      let ret := f (s.get RDI) (s.get RSI) (s.get RDX) (s.get RCX) (s.get 8)
      let mis := if (s.get RSP).toNat % 16 = 0 then s.misaligned else s.misaligned + 1
      -- the return address is pushed and popped again by the callee's `ret`: the slot below rsp is written
      match push s (BitVec.ofNat 64 next) with
      | some s1 =>
        let s2 := { s1 with reg := s.reg, flags := none, log := s.log ++ [(tag, args)], misaligned := mis }
        let s3 := [RCX, RDX, RSI, RDI, 8, 9, 10, 11].foldl (fun acc r => acc.set r (c.clobber s.log.length r)) s2
        .next (s3.set RAX ret)
      | none => .fault "call: push outside memory"
    | none => .fault "call through a register to an address that is no registered function"
  | .ret =>
    match pop s with
    | some (a, s') => if a = c.retSentinel then .done (s'.get RAX) s' else .next { s' with rip := a.toNat }
    | none => .fault "ret: pop outside memory"

/-- up to 15 code bytes at `rip` -/
def fetch (c : Cfg) (rip : Nat) : List Nat :=
  if rip < c.codeBase then [] else
    let o := rip - c.codeBase
    (List.range 15).filterMap fun k => (c.code[o + k]?).map (·.toNat)

def step (c : Cfg) (s : St) : Out :=
  match decode (fetch c s.rip) with
  | some (i, n) => exec c s i (s.rip + n)
  | none => .fault "undecodable instruction"

inductive Res
  | done (rax : BitVec 64) (s : St)
  | fault (why : String)
  | timeout

def run (c : Cfg) (s : St) : Nat → Res
  | 0 => .timeout
  | fuel + 1 =>
    match step c s with
    | .next s' => run c s' fuel
    | .done r s' => .done r s'
    | .fault w => .fault w

end Rbpf.X86
