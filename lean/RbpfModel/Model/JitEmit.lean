/-
  Byte-exact model of the x86-64 JIT emitter in `src/jit.rs`: every `emit_*` primitive, the prologue per VM
  kind, the per-opcode arms of `jit_compile`, the epilogue and `resolve_jumps`.  The output is compared
  byte for byte with the machine code the real JIT produces (hook `verif_jit_code`).
  Panic sites: `map_register` (register field ≥ 11), `unreachable!()` (byte-swap width), `unimplemented!()`
  (tail call), `get_insn` out of range (wide load in the last slot), `pc_locs[...]` out of range in
  `resolve_jumps`; `Err`: unknown opcode, unknown helper, unknown call kind.
-/
import RbpfModel.Model.Insn
namespace Rbpf.JitEmit

inductive Fail | err | panic deriving DecidableEq, Repr

structure Em where
  code : Array UInt8 := #[]
  jumps : Array (Nat × Int) := #[]          -- (offset_loc, target_pc)
  pcLocs : Array Nat := #[]
  exitAnchor : Option Nat := none            -- special_targets[TARGET_PC_EXIT]

-- x86 registers
def RAX := 0
def RCX := 1
def RDX := 2
def RBX := 3
def RSP := 4
def RBP := 5
def RSI := 6
def RDI := 7
def R8 := 8
def R9 := 9
def R10 := 10
def R11 := 11
def R13 := 13
def R14 := 14
def R15 := 15

/-- `REGISTER_MAP` -/
def registerMap : Array Nat := #[RAX, RDI, RSI, RDX, R9, R8, RBX, R13, R14, R15, RBP]

/-- `map_register`: `assert!(r < 11)` -/
def mapRegister? (r : Nat) : Option Nat := if r < 11 then some (registerMap.getD r 0) else none

def targetPcExit : Int := 1000001      -- TARGET_OFFSET + 1

@[inline] def emit1 (e : Em) (b : Nat) : Em := { e with code := e.code.push (UInt8.ofNat b) }
def emitLE (e : Em) (v : Nat) (n : Nat) : Em := (List.range n).foldl (fun e k => emit1 e ((v >>> (8 * k)) % 256)) e
@[inline] def emit2 (e : Em) (v : Nat) : Em := emitLE e v 2
@[inline] def emit4 (e : Em) (v : Nat) : Em := emitLE e v 4
@[inline] def emit8 (e : Em) (v : Nat) : Em := emitLE e v 8

/-- two's complement of an `i32` / `i64` / `i8` as the unsigned value that is emitted -/
def u32 (v : Int) : Nat := (v % 2 ^ 32).toNat
def u64 (v : Int) : Nat := (v % 2 ^ 64).toNat
def u8 (v : Int) : Nat := (v % 2 ^ 8).toNat

def emitModrm (e : Em) (modrm r m : Nat) : Em := emit1 e ((modrm &&& 0xc0) ||| ((r &&& 7) <<< 3) ||| (m &&& 7))
def emitModrmReg2reg (e : Em) (r m : Nat) : Em := emitModrm e 0xc0 r m
def emitModrmAndDisplacement (e : Em) (r m : Nat) (d : Int) : Em :=
  if d = 0 ∧ (m &&& 7) ≠ RBP then emitModrm e 0x00 r m
  else if -128 ≤ d ∧ d ≤ 127 then emit1 (emitModrm e 0x40 r m) (u8 d)
  else emit4 (emitModrm e 0x80 r m) (u32 d)

def rexWouldSetBits (w src dst : Nat) : Bool := w ≠ 0 || (src &&& 8) ≠ 0 || (dst &&& 8) ≠ 0
def emitRex (e : Em) (w r x b : Nat) : Em := emit1 e (0x40 ||| (w <<< 3) ||| (r <<< 2) ||| (x <<< 1) ||| b)
def masked (v : Nat) : Nat := if v &&& 8 = 0 then 0 else 1
def emitBasicRex (e : Em) (w src dst : Nat) : Em :=
  if rexWouldSetBits w src dst then emitRex e w (masked src) 0 (masked dst) else e

def emitPush (e : Em) (r : Nat) : Em := emit1 (emitBasicRex e 0 0 r) (0x50 ||| (r &&& 7))
def emitPop (e : Em) (r : Nat) : Em := emit1 (emitBasicRex e 0 0 r) (0x58 ||| (r &&& 7))

def emitAlu32 (e : Em) (op src dst : Nat) : Em := emitModrmReg2reg (emit1 (emitBasicRex e 0 src dst) op) src dst
def emitAlu32Imm32 (e : Em) (op src dst : Nat) (imm : Int) : Em := emit4 (emitAlu32 e op src dst) (u32 imm)
def emitAlu32Imm8 (e : Em) (op src dst : Nat) (imm : Int) : Em := emit1 (emitAlu32 e op src dst) (u8 imm)
def emitAlu64 (e : Em) (op src dst : Nat) : Em := emitModrmReg2reg (emit1 (emitBasicRex e 1 src dst) op) src dst
def emitAlu64Imm32 (e : Em) (op src dst : Nat) (imm : Int) : Em := emit4 (emitAlu64 e op src dst) (u32 imm)
def emitAlu64Imm8 (e : Em) (op src dst : Nat) (imm : Int) : Em := emit1 (emitAlu64 e op src dst) (u8 imm)
def emitMov (e : Em) (src dst : Nat) : Em := emitAlu64 e 0x89 src dst
def emitCmpImm32 (e : Em) (dst : Nat) (imm : Int) : Em := emitAlu64Imm32 e 0x81 7 dst imm
def emitCmp (e : Em) (src dst : Nat) : Em := emitAlu64 e 0x39 src dst
def emitCmp32Imm32 (e : Em) (dst : Nat) (imm : Int) : Em := emitAlu32Imm32 e 0x81 7 dst imm
def emitCmp32 (e : Em) (src dst : Nat) : Em := emitAlu32 e 0x39 src dst

/-- `emit_load(size, src, dst, offset)`; size in bits -/
def emitLoad (e : Em) (size src dst : Nat) (off : Int) : Em :=
  let e := emitBasicRex e (if size = 64 then 1 else 0) dst src
  let e := if size = 8 then emit1 (emit1 e 0x0f) 0xb6 else if size = 16 then emit1 (emit1 e 0x0f) 0xb7 else emit1 e 0x8b
  emitModrmAndDisplacement e dst src off

/-- `emit_load_imm(dst, imm: i64)` -/
def emitLoadImm (e : Em) (dst : Nat) (imm : Int) : Em :=
  if -2147483648 ≤ imm ∧ imm ≤ 2147483647 then emitAlu64Imm32 e 0xc7 0 dst imm
  else emit8 (emit1 (emitBasicRex e 1 0 dst) (0xb8 ||| (dst &&& 7))) (u64 imm)

/-- `emit_load_packet(size, base, imm)`: `[base + (imm as u32)]` into RAX; a negative immediate goes through RCX -/
def emitLoadPacket (e : Em) (size base : Nat) (imm : Int) : Em :=
  if 0 ≤ imm then emitLoad e size base RAX imm
  else emitLoad (emitAlu64 (emitLoadImm e RCX (imm + 2 ^ 32)) 0x01 base RCX) size RCX RAX 0

def emitStore (e : Em) (size src dst : Nat) (off : Int) : Em :=
  let e := if size = 16 then emit1 e 0x66 else e
  let e := if size = 64 ∨ (src &&& 8) ≠ 0 ∨ (dst &&& 8) ≠ 0 ∨ size = 8 then emitRex e (if size = 64 then 1 else 0) (masked src) 0 (masked dst) else e
  let e := emit1 e (if size = 8 then 0x88 else 0x89)
  emitModrmAndDisplacement e src dst off

def emitStoreImm32 (e : Em) (size dst : Nat) (off : Int) (imm : Int) : Em :=
  let e := if size = 16 then emit1 e 0x66 else e
  let e := emitBasicRex e (if size = 64 then 1 else 0) 0 dst
  let e := emit1 e (if size = 8 then 0xc6 else 0xc7)
  let e := emitModrmAndDisplacement e 0 dst off
  if size = 8 then emit1 e (u8 imm) else if size = 16 then emit2 e ((imm % 2 ^ 16).toNat) else emit4 e (u32 imm)

def emitDirectJcc (e : Em) (code off : Nat) : Em := emit4 (emit1 (emit1 e 0x0f) code) off
def emitCall (e : Em) (target : Nat) : Em := emit1 (emit1 (emitLoadImm e RAX (if target < 2 ^ 63 then target else (target : Int) - 2 ^ 64)) 0xff) 0xd0
def emitJumpOffset (e : Em) (targetPc : Int) : Em := emit4 { e with jumps := e.jumps.push (e.code.size, targetPc) } 0
def emitJcc (e : Em) (code : Nat) (targetPc : Int) : Em := emitJumpOffset (emit1 (emit1 e 0x0f) code) targetPc
def emitJmp (e : Em) (targetPc : Int) : Em := emitJumpOffset (emit1 e 0xe9) targetPc

/-- `emit_muldivmod(pc, opc, src, dst, imm)` -/
def emitMuldivmod (e : Em) (pc : Nat) (opc src dst : Nat) (imm : Int) : Em :=
  let mul := (opc &&& 0xf0) = 0x20
  let div := (opc &&& 0xf0) = 0x30
  let modrm := (opc &&& 0xf0) = 0x90
  let is64 := (opc &&& 0x07) = 0x07
  let isReg := (opc &&& 0x08) = 0x08
  if (div ∨ mul) ∧ ¬ isReg ∧ imm = 0 then emitAlu32 e 0x31 dst dst
  else if modrm ∧ ¬ isReg ∧ imm = 0 then e
  else
    let e := if (div ∨ modrm) ∧ isReg then
        let e := emitLoadImm e RCX pc
        let e := if is64 then emitAlu64 e 0x85 src src else emitAlu32 e 0x85 src src
        let e := if div then
            let e := emitDirectJcc e 0x85 (if rexWouldSetBits 0 dst dst then 3 + 5 else 2 + 5)
            let e := emitAlu32 e 0x31 dst dst
            emitJmp e (pc + 1)
          else e
        if modrm then emitJcc e 0x84 (pc + 1) else e
      else e
    let e := if dst ≠ RAX then emitPush e RAX else e
    let e := if dst ≠ RDX then emitPush e RDX else e
    let e := if ¬ isReg then emitLoadImm e RCX imm else emitMov e src RCX
    let e := emitMov e dst RAX
    let e := if div ∨ modrm then emitAlu32 e 0x31 RDX RDX else e
    let e := if is64 then emitRex e 1 0 0 0 else e
    let e := emitAlu32 e 0xf7 (if mul then 4 else 6) RCX
    let e := if dst ≠ RDX then emitPop (if modrm then emitMov e RDX dst else e) RDX else e
    if dst ≠ RAX then emitPop (if div ∨ mul then emitMov e RAX dst else e) RAX else e

/-- `emit_local_call(target_pc)` -/
def emitLocalCall (e : Em) (targetPc : Int) : Em :=
  let e := emitPush (emitPush (emitPush (emitPush (emitPush e R10) RBX) R13) R14) R15
  let e := emitJumpOffset (emit1 e 0xe8) targetPc
  emitPop (emitPop (emitPop (emitPop (emitPop e R15) R14) R13) RBX) R10

/-- the prologue for (use_mbuff, update_data_ptr) -/
def prologue (useMbuff updateDataPtr : Bool) : Em :=
  let e : Em := {}
  let e := emitPush (emitPush (emitPush (emitPush (emitPush e RBP) RBX) R13) R14) R15
  let e := emitMov e RDX R10
  let e :=
    if ¬ useMbuff then emitMov e RDX RDI              -- map_register(1) = RDI ≠ RDX
    else if ¬ updateDataPtr then
      -- map_register(1) = RDI: no move; empty mbuff ⇒ r1 := mem (test rsi,rsi ; cmovz rdi, rdx)
      let e := emitAlu64 e 0x85 RSI RSI
      let e := emitBasicRex e 1 RDI RDX
      emitModrmReg2reg (emit1 (emit1 e 0x0f) 0x44) RDI RDX
    else
      let e := emitAlu64 e 0x01 RDI R8
      let e := emitStore e 64 RDX R8 0
      let e := emitMov e RDX R8
      let e := emitAlu64 e 0x01 RCX R8
      let e := emitAlu64 e 0x01 RDI R9
      emitStore e 64 R8 R9 0
  let e := emitMov e RSP RBP
  let e := emitAlu64Imm32 e 0x81 5 RSP 512
  let e := emit4 (emit1 e 0xe8) 5
  emitJmp e targetPcExit

/-- the opcode arm of `jit_compile` for instruction `i` at index `pc` (`next` = the following slot, for wide loads);
    returns the emitter state and the number of slots consumed -/
def arm (e : Em) (helperAddr : Nat → Option Nat) (pc : Nat) (i : Insn) (next : Option Insn) : Except Fail (Em × Nat) :=
  match mapRegister? i.dst.toNat, mapRegister? i.src.toNat with
  | none, _ => .error .panic
  | _, none => .error .panic
  | some dst, some src =>
    let opc := i.opc.toNat
    let imm : Int := i.imm.toInt
    let off : Int := i.off.toInt
    let targetPc : Int := (pc : Int) + off + 1
    let ok (e : Em) : Except Fail (Em × Nat) := .ok (e, 1)
    let jccCmpImm (code : Nat) := ok (emitJcc (emitCmpImm32 e dst imm) code targetPc)
    let jccCmp (code : Nat) := ok (emitJcc (emitCmp e src dst) code targetPc)
    let jccCmp32Imm (code : Nat) := ok (emitJcc (emitCmp32Imm32 e dst imm) code targetPc)
    let jccCmp32 (code : Nat) := ok (emitJcc (emitCmp32 e src dst) code targetPc)
    let ldInd (size : Nat) := ok (emitLoadPacket (emitAlu64 (emitMov e R10 R11) 0x01 src R11) size R11 imm)
    let shiftReg64 (ext : Nat) := ok (emitAlu64 (emitMov e src RCX) 0xd3 ext dst)
    let shiftReg32 (ext : Nat) := ok (emitAlu32 (emitMov e src RCX) 0xd3 ext dst)
    match opc with
    | 0x30 => ok (emitLoadPacket e 8 R10 imm) | 0x28 => ok (emitLoadPacket e 16 R10 imm)
    | 0x20 => ok (emitLoadPacket e 32 R10 imm) | 0x38 => ok (emitLoadPacket e 64 R10 imm)
    | 0x50 => ldInd 8 | 0x48 => ldInd 16 | 0x40 => ldInd 32 | 0x58 => ldInd 64
    | 0x18 =>
      match next with
      | none => .error .panic
      | some nx =>
        let v : Nat := i.imm.toNat ||| ((nx.imm.signExtend 64).toNat <<< 32) % 2 ^ 64
        .ok (emitLoadImm e dst (if v < 2 ^ 63 then v else (v : Int) - 2 ^ 64), 2)
    | 0x71 => ok (emitLoad e 8 src dst off) | 0x69 => ok (emitLoad e 16 src dst off)
    | 0x61 => ok (emitLoad e 32 src dst off) | 0x79 => ok (emitLoad e 64 src dst off)
    | 0x72 => ok (emitStoreImm32 e 8 dst off imm) | 0x6a => ok (emitStoreImm32 e 16 dst off imm)
    | 0x62 => ok (emitStoreImm32 e 32 dst off imm) | 0x7a => ok (emitStoreImm32 e 64 dst off imm)
    | 0x73 => ok (emitStore e 8 src dst off) | 0x6b => ok (emitStore e 16 src dst off)
    | 0x63 => ok (emitStore e 32 src dst off) | 0x7b => ok (emitStore e 64 src dst off)
    | 0xc3 => ok (emitModrmAndDisplacement (emit1 (emitBasicRex (emit1 e 0xf0) 0 src dst) 0x01) src dst off)
    | 0xdb => ok (emitModrmAndDisplacement (emit1 (emitBasicRex (emit1 e 0xf0) 1 src dst) 0x01) src dst off)
    -- BPF_ALU
    | 0x04 => ok (emitAlu32Imm32 e 0x81 0 dst imm) | 0x0c => ok (emitAlu32 e 0x01 src dst)
    | 0x14 => ok (emitAlu32Imm32 e 0x81 5 dst imm) | 0x1c => ok (emitAlu32 e 0x29 src dst)
    | 0x24 | 0x2c | 0x34 | 0x3c | 0x94 | 0x9c => ok (emitMuldivmod e pc opc src dst imm)
    | 0x44 => ok (emitAlu32Imm32 e 0x81 1 dst imm) | 0x4c => ok (emitAlu32 e 0x09 src dst)
    | 0x54 => ok (emitAlu32Imm32 e 0x81 4 dst imm) | 0x5c => ok (emitAlu32 e 0x21 src dst)
    | 0x64 => ok (emitAlu32Imm8 e 0xc1 4 dst imm) | 0x6c => shiftReg32 4
    | 0x74 => ok (emitAlu32Imm8 e 0xc1 5 dst imm) | 0x7c => shiftReg32 5
    | 0x84 => ok (emitAlu32 e 0xf7 3 dst)
    | 0xa4 => ok (emitAlu32Imm32 e 0x81 6 dst imm) | 0xac => ok (emitAlu32 e 0x31 src dst)
    | 0xb4 => ok (emitAlu32Imm32 e 0xc7 0 dst imm) | 0xbc => ok (emitAlu32 e 0x89 src dst)
    | 0xc4 => ok (emitAlu32Imm8 e 0xc1 7 dst imm) | 0xcc => shiftReg32 7
    | 0xd4 =>
      if imm = 16 then ok (emitAlu32Imm32 e 0x81 4 dst 0xffff) else if imm = 32 then ok (emitAlu32 e 0x89 dst dst)
      else if imm = 64 then ok e else .error .panic
    | 0xdc =>
      if imm = 16 then ok (emitAlu32Imm32 (emitAlu32Imm8 (emit1 e 0x66) 0xc1 0 dst 8) 0x81 4 dst 0xffff)
      else if imm = 32 ∨ imm = 64 then ok (emit1 (emit1 (emitBasicRex e (if imm = 64 then 1 else 0) 0 dst) 0x0f) (0xc8 ||| (dst &&& 7)))
      else .error .panic
    -- BPF_ALU64
    | 0x07 => ok (emitAlu64Imm32 e 0x81 0 dst imm) | 0x0f => ok (emitAlu64 e 0x01 src dst)
    | 0x17 => ok (emitAlu64Imm32 e 0x81 5 dst imm) | 0x1f => ok (emitAlu64 e 0x29 src dst)
    | 0x27 | 0x2f | 0x37 | 0x3f | 0x97 | 0x9f => ok (emitMuldivmod e pc opc src dst imm)
    | 0x47 => ok (emitAlu64Imm32 e 0x81 1 dst imm) | 0x4f => ok (emitAlu64 e 0x09 src dst)
    | 0x57 => ok (emitAlu64Imm32 e 0x81 4 dst imm) | 0x5f => ok (emitAlu64 e 0x21 src dst)
    | 0x67 => ok (emitAlu64Imm8 e 0xc1 4 dst imm) | 0x6f => shiftReg64 4
    | 0x77 => ok (emitAlu64Imm8 e 0xc1 5 dst imm) | 0x7f => shiftReg64 5
    | 0x87 => ok (emitAlu64 e 0xf7 3 dst)
    | 0xa7 => ok (emitAlu64Imm32 e 0x81 6 dst imm) | 0xaf => ok (emitAlu64 e 0x31 src dst)
    | 0xb7 => ok (emitLoadImm e dst imm) | 0xbf => ok (emitMov e src dst)
    | 0xc7 => ok (emitAlu64Imm8 e 0xc1 7 dst imm) | 0xcf => shiftReg64 7
    -- BPF_JMP
    | 0x05 => ok (emitJmp e targetPc)
    | 0x15 => jccCmpImm 0x84 | 0x1d => jccCmp 0x84 | 0x25 => jccCmpImm 0x87 | 0x2d => jccCmp 0x87
    | 0x35 => jccCmpImm 0x83 | 0x3d => jccCmp 0x83 | 0xa5 => jccCmpImm 0x82 | 0xad => jccCmp 0x82
    | 0xb5 => jccCmpImm 0x86 | 0xbd => jccCmp 0x86
    | 0x45 => ok (emitJcc (emitAlu64Imm32 e 0xf7 0 dst imm) 0x85 targetPc) | 0x4d => ok (emitJcc (emitAlu64 e 0x85 src dst) 0x85 targetPc)
    | 0x55 => jccCmpImm 0x85 | 0x5d => jccCmp 0x85 | 0x65 => jccCmpImm 0x8f | 0x6d => jccCmp 0x8f
    | 0x75 => jccCmpImm 0x8d | 0x7d => jccCmp 0x8d | 0xc5 => jccCmpImm 0x8c | 0xcd => jccCmp 0x8c
    | 0xd5 => jccCmpImm 0x8e | 0xdd => jccCmp 0x8e
    -- BPF_JMP32
    | 0x16 => jccCmp32Imm 0x84 | 0x1e => jccCmp32 0x84 | 0x26 => jccCmp32Imm 0x87 | 0x2e => jccCmp32 0x87
    | 0x36 => jccCmp32Imm 0x83 | 0x3e => jccCmp32 0x83 | 0xa6 => jccCmp32Imm 0x82 | 0xae => jccCmp32 0x82
    | 0xb6 => jccCmp32Imm 0x86 | 0xbe => jccCmp32 0x86
    | 0x46 => ok (emitJcc (emitAlu32Imm32 e 0xf7 0 dst imm) 0x85 targetPc) | 0x4e => ok (emitJcc (emitAlu32 e 0x85 src dst) 0x85 targetPc)
    | 0x56 => jccCmp32Imm 0x85 | 0x5e => jccCmp32 0x85 | 0x66 => jccCmp32Imm 0x8f | 0x6e => jccCmp32 0x8f
    | 0x76 => jccCmp32Imm 0x8d | 0x7e => jccCmp32 0x8d | 0xc6 => jccCmp32Imm 0x8c | 0xce => jccCmp32 0x8c
    | 0xd6 => jccCmp32Imm 0x8e | 0xde => jccCmp32 0x8e
    | 0x85 =>
      if i.src = 0 then
        match helperAddr i.imm.toNat with
        | some addr => ok (emitPop (emitCall (emitMov (emitPush e R10) R9 RCX) addr) R10)
        | none => .error .err
      else if i.src = 1 then ok (emitLocalCall e ((pc : Int) + imm + 1))
      else .error .err
    | 0x8d => .error .panic
    | 0x95 => ok (emit1 e 0xc3)
    | _ => .error .err

/-- the `while insn_ptr * INSN_SIZE < prog.len()` loop of `jit_compile` -/
def body (p : Bytes) (helperAddr : Nat → Option Nat) : Nat → Nat → Em → Except Fail Em
  | 0, _, e => .ok e
  | fuel + 1, pc, e =>
    if pc * 8 < p.size then
      match getInsn? p pc with
      | none => .error .panic
      | some i =>
        let e := { e with pcLocs := e.pcLocs.setIfInBounds pc e.code.size }
        match arm e helperAddr pc i (getInsn? p (pc + 1)) with
        | .ok (e', n) => body p helperAddr fuel (pc + n) e'
        | .error f => .error f
    else .ok e

def epilogue (e : Em) : Em :=
  let e := { e with exitAnchor := some e.code.size }
  let e := emitAlu64Imm32 e 0x81 0 RSP 512
  let e := emitPop (emitPop (emitPop (emitPop (emitPop e R15) R14) R13) RBX) RBP
  emit1 e 0xc3

/-- `resolve_jumps`: patch every recorded rel32 -/
def resolveJumps (e : Em) : Except Fail (Array UInt8) :=
  e.jumps.foldl (fun acc (loc, target) =>
    match acc with
    | .error f => .error f
    | .ok code =>
      let targetLoc? : Option Nat := if target = targetPcExit then e.exitAnchor else
        if target < 0 then none else e.pcLocs[target.toNat]?
      match targetLoc? with
      | none => .error .panic
      | some tl =>
        let rel := u32 ((tl : Int) - ((loc : Int) + 4))
        .ok ((List.range 4).foldl (fun c k => c.setIfInBounds (loc + k) (UInt8.ofNat ((rel >>> (8 * k)) % 256))) code)) (.ok e.code)

/-- `JitMemory::new`: the machine code for program `p` -/
def compile (p : Bytes) (helperAddr : Nat → Option Nat) (useMbuff updateDataPtr : Bool) : Except Fail (Array UInt8) :=
  let e0 := prologue useMbuff updateDataPtr
  let e0 := { e0 with pcLocs := Array.replicate (p.size / 8 + 1) 0 }
  match body p helperAddr (p.size / 8 + 1) 0 e0 with
  | .error f => .error f
  | .ok e => resolveJumps (epilogue e)

/-- `compile` together with the location table it used (`pc_locs`) and the epilogue's offset -/
def compileWithLayout (p : Bytes) (helperAddr : Nat → Option Nat) (useMbuff updateDataPtr : Bool) :
    Except Fail (Array UInt8 × Array Nat × Nat) :=
  let e0 := prologue useMbuff updateDataPtr
  let e0 := { e0 with pcLocs := Array.replicate (p.size / 8 + 1) 0 }
  match body p helperAddr (p.size / 8 + 1) 0 e0 with
  | .error f => .error f
  | .ok e =>
    let e' := epilogue e
    match resolveJumps e' with
    | .error f => .error f
    | .ok code => .ok (code, e'.pcLocs, e'.exitAnchor.getD 0)

/-- the buffer `JitMemory::new` allocates for a first-pass size -/
def bufferSize (codeSize : Nat) : Nat := ((max codeSize 4096) + 4095) / 4096 * 4096

end Rbpf.JitEmit
