/-
  The statements the API methods of `EbpfVmMbuff` (src/lib.rs) consist of, as effects on the model's VM state, and their meaning.  `Generated/VmApi.lean` (written by
  `checklib/gen_vmapi.py` from the current source on every run) lists, for each method, its statements in source order; `Props/VmApiSrc.lean` proves that running those lists is
  `Vm.step`.  The frame-size table (`self.stack_usage`) is not a field of the model's state (there it is a function of the loaded program and the installed calculator), so
  the statements that compute and store it have no effect here; that every method which changes the program or the calculator recomputes and stores it is checked on the
  lists themselves (`usageKept`).
-/
import RbpfModel.Model.Vm
namespace Rbpf.VmSrc
open Rbpf.Vm

inductive Eff
  | verifyArgWithCurrent        -- `(self.verifier)(prog)?`
  | ifProgVerifyWithArg         -- `if let Some(prog) = self.prog { verifier(prog)?; }`
  | stackValidateArg            -- `let stack_usage = self.stack_verifier.stack_validate(prog)?`
  | setProgArg                  -- `self.prog = Some(prog)`
  | setUsage                    -- `self.stack_usage = Some(stack_usage)`
  | clearJit                    -- `self.jit = None`
  | clearClif                   -- `self.cranelift_prog = None`
  | setVerifierArg              -- `self.verifier = verifier`
  | insertHelperArg             -- `self.helpers.insert(key, function)`
  | newStackVerifierArg         -- `let mut stack_verifier = StackVerifier::new(Some(calculator), Some(data))`
  | ifProgRevalidateSetUsage    -- `if let Some(prog) = self.prog { self.stack_usage = Some(stack_verifier.stack_validate(prog)?); }`
  | setStackVerifier            -- `self.stack_verifier = stack_verifier`
  | needProg                    -- `let prog = match self.prog { Some(prog) => prog, None => Err(..)? }`
  | compileJitSetJit            -- `self.jit = Some(jit::JitMemory::new(prog, &self.helpers, ..)?)`
  | compileClif                 -- `let compiler = CraneliftCompiler::new(self.helpers.clone()); let program = compiler.compile_function(prog)?`
  | setClif                     -- `self.cranelift_prog = Some(program)`
  | ok                          -- `Ok(())`
  deriving DecidableEq, Repr

/-- the arguments of the call -/
structure Args where
  prog : Bytes := #[]
  verifier : VerifierId := 0
  helperId : Nat := 0
  helperFn : Nat := 0
  calcArg : Nat := 0

/-- run a method's statements; `none` = an `Err(..)?` left the method (state unchanged from the point of view of the caller only if nothing was assigned before:
    what was assigned stays assigned, as in Rust) -/
def run (w : World) (a : Args) : VmState → List Eff → VmState × Out
  | s, [] => (s, .ok)
  | s, e :: rest =>
    match e with
    | .verifyArgWithCurrent => if w.accepts s.verifier a.prog then run w a s rest else (s, .err)
    | .ifProgVerifyWithArg =>
      match s.prog with
      | some p => if w.accepts a.verifier p then run w a s rest else (s, .err)
      | none => run w a s rest
    | .stackValidateArg | .setUsage | .newStackVerifierArg | .ifProgRevalidateSetUsage => run w a s rest
    | .setProgArg => run w a { s with prog := some a.prog } rest
    | .clearJit => run w a { s with jit := none } rest
    | .clearClif => run w a { s with clif := none } rest
    | .setVerifierArg => run w a { s with verifier := a.verifier } rest
    | .insertHelperArg => run w a { s with helpers := setHelper s.helpers a.helperId a.helperFn } rest
    | .setStackVerifier => run w a { s with calcId := some a.calcArg } rest
    | .needProg => match s.prog with | some _ => run w a s rest | none => (s, .err)
    | .compileJitSetJit =>
      match s.prog with
      | some p => if w.jitCompiles p s.helpers then run w a { s with jit := some ⟨p, s.helpers⟩ } rest else (s, .err)
      | none => (s, .err)
    | .compileClif =>
      match s.prog with
      | some p => if w.clifCompiles p s.helpers then run w a s rest else (s, .err)
      | none => (s, .err)
    | .setClif => match s.prog with | some p => run w a { s with clif := some ⟨p, s.helpers⟩ } rest | none => (s, .err)
    | .ok => (s, .ok)

/-- the frame-size table follows the program and the calculator: a method that assigns the program validates it and stores the table; one that installs a stack verifier
    re-validates the loaded program with it first -/
def usageKept (l : List Eff) : Bool :=
  (!l.contains .setProgArg || (l.contains .stackValidateArg && l.contains .setUsage)) &&
  (!l.contains .setStackVerifier || (l.contains .newStackVerifierArg && l.contains .ifProgRevalidateSetUsage))

end Rbpf.VmSrc
