/-
  C18: atomic add under concurrency.  Executions are interleavings of per-thread lists of atomic-add
  steps on one shared naturally aligned `w`-bit word; each step is indivisible (what `fetch_add`,
  `lock add` and `atomic_rmw` guarantee): word := (word + trunc_w(src)) mod 2^w.
-/
namespace Rbpf.Atomic

/-- one atomic add of source register value `v` to a `w`-bit word -/
def addStep (w : Nat) (word v : Nat) : Nat := (word + v % 2 ^ w) % 2 ^ w

/-- `l` is an interleaving of the per-thread step lists `ts`: at each point some non-exhausted thread moves -/
inductive Interleaving : List (List Nat) → List Nat → Prop
  | done (ts : List (List Nat)) (h : ∀ t ∈ ts, t = []) : Interleaving ts []
  | move (pre post : List (List Nat)) (x : Nat) (xs : List Nat) (rest : List Nat)
      (h : Interleaving (pre ++ xs :: post) rest) : Interleaving (pre ++ (x :: xs) :: post) (x :: rest)

/-- the word after a schedule -/
def runSchedule (w : Nat) (init : Nat) (sched : List Nat) : Nat := sched.foldl (addStep w) init

def total (ts : List (List Nat)) : Nat := (ts.map List.sum).sum

end Rbpf.Atomic
