/-
  Vocabulary of the simulation between the Cranelift IR that `cranelift.rs` builds (`ClifAst` + `ClifSem`) and the
  register-transfer semantics of Cranelift-compiled code (`EngineSem.clifStep` / `clifRun`).  Definitions only; the
  theorems are in `Lemmas/ClifSim/*` and `Props/C04Ir.lean`.
-/
import RbpfModel.Model.ClifSem
import RbpfModel.Model.EngineSem
namespace Rbpf.ClifSim
open Rbpf.ClifAst Rbpf.ClifSem

/-- the set of registered helper ids, as `cranelift.rs` sees it (`helper_func_refs`) -/
def helperSet (env : Env) : Nat → Bool := fun k => (env.helpers k).isSome

/-- slots taken by the instruction at `pc` -/
def width (i : Insn) : Nat := if i.opc = 0x18 then 2 else 1

/-- result of running a translated program -/
inductive Result
  | ret (v : BitVec 64) (s : St)
  | trap (s : St)
  | stuck
  | timeout

/-- the translated program, one eBPF instruction per step: the op list of the instruction at `pc` runs with an empty local
    list; a list without terminator continues at the next instruction start (inside one Cranelift block), a terminator
    names the instruction whose block is entered -/
def run (env : Env) (tr : List (Nat × List Op)) (s : St) (pc : Nat) : Nat → Result
  | 0 => .timeout
  | fuel + 1 =>
    match tr.lookup pc, getInsn? env.prog pc with
    | some ops, some i =>
      match runOps env s [] ops with
      | (s', .fall) => run env tr s' (pc + width i) fuel
      | (s', .goto t) => run env tr s' t fuel
      | (s', .ret v) => .ret v s'
      | (s', .trap) => .trap s'
      | (_, .stuck) => .stuck
    | _, _ => .stuck

/-- the state in which the function is entered: parameters as `CraneliftProgram::execute` passes them (the packet pointer
    is null for an empty packet), every Variable reads as 0 until defined (cranelift-frontend's value for a variable
    used before any definition), and the stack slot is where the eBPF stack of `m` is -/
def entry (m : Memory) : St :=
  { vars := Vector.replicate 17 0, mem := m, log := [],
    params := #v[BitVec.ofNat 64 (if m.mem.bytes.size = 0 then 0 else m.mem.base), BitVec.ofNat 64 m.mem.bytes.size,
                 BitVec.ofNat 64 m.mbuff.base, BitVec.ofNat 64 m.mbuff.bytes.size],
    stackBase := m.stack.base }

/-- the whole function: prelude, then the program from instruction 0 -/
def runFunction (env : Env) (tr : List (Nat × List Op)) (m : Memory) (fuel : Nat) : Result :=
  match runOps env (entry m) [] prelude with
  | (s, .goto t) => run env tr s t fuel
  | _ => .stuck

/-- the IR-level state `σ` represents the eBPF state `s` (at call depth 0: Cranelift refuses local calls) -/
structure RelC (σ : St) (s : State) : Prop where
  regs : ∀ i : Fin 11, σ.vars[i.val]'(by omega) = s.reg[i]
  memStart : σ.vars[11] = BitVec.ofNat 64 (if s.mem.mem.bytes.size = 0 then 0 else s.mem.mem.base)
  memEnd : σ.vars[12] = σ.vars[11] + BitVec.ofNat 64 s.mem.mem.bytes.size
  mbufStart : σ.vars[13] = BitVec.ofNat 64 s.mem.mbuff.base
  mbufEnd : σ.vars[14] = BitVec.ofNat 64 s.mem.mbuff.base + BitVec.ofNat 64 s.mem.mbuff.bytes.size
  stackStart : σ.vars[15] = BitVec.ofNat 64 s.mem.stack.base
  stackEnd : σ.vars[16] = BitVec.ofNat 64 s.mem.stack.base + BitVec.ofNat 64 s.mem.stack.bytes.size
  mem : σ.mem = s.mem
  log : σ.log = s.log
  depth0 : s.frames = []

/-- the host memory the three regions describe is sane: what `C11_boundsOk_iff` assumes (`RegionsOk m []`, null pointers
    only for empty buffers, addresses below 2^64) and the size of the eBPF stack -/
structure MemOk (m : Memory) : Prop where
  mbuffTop : m.mbuff.base + m.mbuff.bytes.size < 2 ^ 64
  memTop : m.mem.base + m.mem.bytes.size < 2 ^ 64
  stackTop : m.stack.base + m.stack.bytes.size < 2 ^ 64
  nullMem : m.mem.base = 0 → m.mem.bytes.size = 0
  /-- an empty packet is handed over with the null base (`Vm.pktRegion`: the interpreter's `mem_base`, the null `mem_ptr`
      compiled code receives) -/
  emptyMem : m.mem.bytes.size = 0 → m.mem.base = 0
  nullMbuff : m.mbuff.base = 0 → m.mbuff.bytes.size = 0
  below : m.mem.base < 2 ^ 64 ∧ m.mbuff.base < 2 ^ 64 ∧ m.stack.base < 2 ^ 64
  stack512 : m.stack.bytes.size = 512

/-- one eBPF instruction: whatever the register-transfer semantics do in one step from a state the IR-level state
    represents, the instruction's op list does — same registers, memory, helper log, same continuation; an access the
    semantics refuse is a trap, with nothing written.  (Outcomes `.panic` / `.fault` and the errors other than `oob`
    do not occur on programs the verifier accepts and Cranelift compiles; the statement says nothing about them.) -/
def ArmSim (i : Insn) : Prop :=
  ∀ (env : Env) (σ : St) (s : State) (ops : List Op),
    getInsn? env.prog s.pc = some i →
    arm (helperSet env) env.prog s.pc i = some ops →
    RelC σ s → MemOk s.mem →
    match EngineSem.clifStep env s with
    | .next s' => ∃ σ' f, runOps env σ [] ops = (σ', f) ∧ RelC σ' s' ∧ MemOk s'.mem ∧
        ((f = .fall ∧ s'.pc = s.pc + width i) ∨ f = .goto s'.pc)
    | .done r s' => ∃ σ', runOps env σ [] ops = (σ', .ret r) ∧ σ'.mem = s'.mem ∧ σ'.log = s'.log
    | .err .oob _ => ∃ σ', runOps env σ [] ops = (σ', .trap) ∧ σ'.mem = s.mem ∧ σ'.log = s.log
    | _ => True

end Rbpf.ClifSim
