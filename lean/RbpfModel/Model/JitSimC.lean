/-
  Helper calls in the simulation.  Compiled code calls a helper through the System V convention, so after the call
  the machine registers that hold eBPF r1 … r5 contain whatever the callee left there: `jitExecC` is
  `EngineSem.jitExec` with exactly that departure (r1 … r5 := the machine's clobber values, a parameter the theorems
  quantify over), and `ArmSimC` is the simulation statement over it, carrying in addition: the helper logs agree
  (same calls, same arguments, same order), and no external call is entered with a misaligned stack.
  Definitions only (lemmas: `Lemmas/X86Sim/Call*.lean`, `WholeC*.lean`).
-/
import RbpfModel.Model.JitSim
namespace Rbpf.JitSim
open Rbpf.X86 (Cfg St Out Instr step readMem writeMem)
open Rbpf.JitAst (AI Tgt checkSeq)

/-- r1 … r5 after the `n`-th helper call: what the machine registers they live in hold -/
def clobberRegs (clob : Nat → Nat → BitVec 64) (n : Nat) (reg : Vector (BitVec 64) 11) : Vector (BitVec 64) 11 :=
  (List.range 5).foldl (fun r k => r.setIfInBounds (k + 1) (clob n (regOf (k + 1)))) reg

/-- a helper call as compiled code performs it: the interpreter's `callHelper`, then r1 … r5 clobbered -/
def callHelperC (clob : Nat → Nat → BitVec 64) (env : Env) (s : State) (imm : BitVec 32) : Outcome :=
  match Interp.callHelper env s imm with
  | .next s' => .next { s' with reg := clobberRegs clob s.log.length s'.reg }
  | o => o

def jitExecC (clob : Nat → Nat → BitVec 64) (env : Env) (s : State) (insn : Insn) : Outcome :=
  if insn.opc = 0x85 ∧ insn.src = 0 then callHelperC clob env s insn.imm else EngineSem.jitExec env s insn

def jitStepC (clob : Nat → Nat → BitVec 64) (env : Env) (s : State) : Outcome :=
  if s.pc * 8 < env.prog.size then
    match getInsn? env.prog s.pc with
    | none => .panic
    | some insn => jitExecC clob env { s with pc := s.pc + 1 } insn
  else .panic

def jitRunC (clob : Nat → Nat → BitVec 64) (env : Env) (s : State) : Nat → Interp.Result
  | 0 => .timeout s
  | fuel + 1 =>
    match jitStepC clob env s with
    | .next s' => jitRunC clob env s' fuel
    | .done r s' => .done r s'
    | .err e s' => .err e s'
    | .panic => .panic
    | .fault => .fault

/-- the addresses the compiler was given for the helpers are where the machine finds those very functions -/
def ExtOk (c : Cfg) (env : Env) (haddr : Nat → Option Nat) : Prop :=
  (∀ id addr f, haddr id = some addr → env.helpers id = some f → ∃ tag, c.ext addr = some (tag, f)) ∧
  (∀ id addr, haddr id = some addr → addr < 2 ^ 64)

/-- the calls made so far: same number, same arguments, same order (the machine logs a tag of its own per function) -/
def LogRel (σ : St) (s : State) : Prop := σ.log.map (·.2) = s.log.map (·.2)

/-- `ArmSim` over `jitExecC`, with helper logs related, the eBPF stack 16-byte aligned (System V: rsp + 8 is a multiple
    of 16 at function entry) and no misaligned external call -/
def ArmSimC (clob : Nat → Nat → BitVec 64) (i : Insn) : Prop :=
  ∀ (c : Cfg) (tgt : Tgt → Option Nat) (haddr : Nat → Option Nat) (pc n a b retAddr : Nat) (ais : List AI)
    (σ : St) (env : Env) (s s' : State),
    c.clobber = clob → ExtOk c env haddr →
    JitAst.arm haddr pc i (getInsn? env.prog (pc + 1)) = .ok (ais, n) →
    checkSeq c.code tgt a ais = some b →
    c.codeBase + b < 2 ^ 63 →
    σ.rip = c.codeBase + a →
    Rel0 retAddr σ s → LogRel σ s → s.mem.stack.base % 16 = 0 → s.pc = pc + 1 →
    jitExecC clob env s i = .next s' →
    ∃ k σ', stepsN c k σ = some σ' ∧ Rel0 retAddr σ' s' ∧ LogRel σ' s' ∧ topBytes σ' s' = topBytes σ s ∧
      σ'.misaligned = σ.misaligned ∧ s'.mem.stack.base = s.mem.stack.base ∧ s'.frames = s.frames ∧ CallersKept σ σ' s ∧
      ((s'.pc = pc + n ∧ σ'.rip = c.codeBase + b) ∨
       (∃ l, tgt (.pc (s'.pc : Int)) = some l ∧ σ'.rip = c.codeBase + l))

end Rbpf.JitSim
