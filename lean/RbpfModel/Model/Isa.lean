/-
  The eBPF instruction semantics as property C01 states them, written over a decoded instruction
  AST with generic ALU / condition functions — deliberately *not* a copy of the interpreter's arms.
  What C01 is about: wrapping 64/32-bit ALU with 32-bit results zero-extended, shift counts masked to
  the operand width, division by zero = 0, modulo by zero leaves the destination, immediates
  sign-extended to 64 bits (also in unsigned comparisons), little-endian loads zero-extended, stores
  truncated, byte swaps truncating to their width, signed/unsigned 64/32-bit branch conditions, branch
  target = pc + 1 + off at any distance.  Memory protection (C02), frames (C07) and helper calls (C08)
  are the same primitives as the interpreter model's: they are the subject of those properties.
-/
import RbpfModel.Model.Interp
namespace Rbpf.Isa
open Rbpf.Interp

inductive Width | w32 | w64 deriving DecidableEq, Repr
inductive AluOp | add | sub | mul | div | or | and | lsh | rsh | neg | mod | xor | mov | arsh
  deriving DecidableEq, Repr
inductive Cond | eq | gt | ge | lt | le | set | ne | sgt | sge | slt | sle
  deriving DecidableEq, Repr
inductive Operand | reg (r : Nat) | imm (v : BitVec 32) deriving DecidableEq, Repr

inductive Instr
  | alu (w : Width) (op : AluOp) (dst : Nat) (src : Operand)
  | endian (big : Bool) (bytes : Nat) (dst : Nat)
  | lddw (dst : Nat) (lo : BitVec 32)
  | ldabs (bytes : Nat) (imm : BitVec 32)
  | ldind (bytes : Nat) (src : Nat) (imm : BitVec 32)
  | ldx (bytes : Nat) (dst src : Nat) (off : BitVec 16)
  | st (bytes : Nat) (dst : Nat) (off : BitVec 16) (imm : BitVec 32)
  | stx (bytes : Nat) (dst : Nat) (off : BitVec 16) (src : Nat)
  | xadd (bytes : Nat) (dst : Nat) (off : BitVec 16) (src : Nat)
  | ja (off : BitVec 16)
  | jmp (w : Width) (c : Cond) (dst : Nat) (src : Operand) (off : BitVec 16)
  | call (kind : Nat) (imm : BitVec 32)
  | tailCall
  | exit
  deriving Repr

def aluOp? (hi : Nat) : Option AluOp :=
  match hi with
  | 0 => some .add | 1 => some .sub | 2 => some .mul | 3 => some .div | 4 => some .or | 5 => some .and
  | 6 => some .lsh | 7 => some .rsh | 8 => some .neg | 9 => some .mod | 10 => some .xor | 11 => some .mov
  | 12 => some .arsh | _ => none

def cond? (hi : Nat) : Option Cond :=
  match hi with
  | 1 => some .eq | 2 => some .gt | 3 => some .ge | 4 => some .set | 5 => some .ne | 6 => some .sgt
  | 7 => some .sge | 10 => some .lt | 11 => some .le | 12 => some .slt | 13 => some .sle | _ => none

def sizeBytes (sz : Nat) : Nat := match sz with | 0 => 4 | 1 => 2 | 2 => 1 | _ => 8   -- BPF_W, BPF_H, BPF_B, BPF_DW

/-- decode by the class / source / operation structure of the opcode byte -/
def decode (i : Insn) : Option Instr :=
  let opc := i.opc.toNat
  let cls := opc % 8
  let hi := opc / 16
  let useReg := (opc / 8) % 2 = 1
  let dst := i.dst.toNat
  let src := i.src.toNat
  let operand : Operand := if useReg then .reg src else .imm i.imm
  match cls with
  | 4 | 7 =>
    let w := if cls = 7 then Width.w64 else Width.w32
    if hi = 13 then
      if cls = 4 then
        if i.imm = 16 then some (.endian useReg 2 dst) else if i.imm = 32 then some (.endian useReg 4 dst)
        else if i.imm = 64 then some (.endian useReg 8 dst) else none
      else none
    else match aluOp? hi with
      | some .neg => if useReg then none else some (.alu w .neg dst operand)
      | some op => some (.alu w op dst operand)
      | none => none
  | 5 | 6 =>
    let w := if cls = 5 then Width.w64 else Width.w32
    if opc = 0x05 then some (.ja i.off)
    else if opc = 0x85 then some (.call src i.imm)
    else if opc = 0x8d then some .tailCall
    else if opc = 0x95 then some .exit
    else match cond? hi with
      | some c => some (.jmp w c dst operand i.off)
      | none => none
  | 0 =>
    let mode := opc / 32
    let bytes := sizeBytes ((opc / 8) % 4)
    if opc = 0x18 then some (.lddw dst i.imm)
    else if mode = 1 then some (.ldabs bytes i.imm)
    else if mode = 2 then some (.ldind bytes src i.imm)
    else none
  | 1 => if opc / 32 = 3 then some (.ldx (sizeBytes ((opc / 8) % 4)) dst src i.off) else none
  | 2 => if opc / 32 = 3 then some (.st (sizeBytes ((opc / 8) % 4)) dst i.off i.imm) else none
  | 3 =>
    if opc / 32 = 3 then some (.stx (sizeBytes ((opc / 8) % 4)) dst i.off src)
    else if opc = 0xc3 then some (.xadd 4 dst i.off src)
    else if opc = 0xdb then some (.xadd 8 dst i.off src)
    else none
  | _ => none

/-- the ALU on `n`-bit words: wrapping arithmetic, shift counts masked to the width, x / 0 = 0;
    `mod` by zero is handled by the caller (it leaves the destination register untouched) -/
def aluSem {n : Nat} (op : AluOp) (a b : BitVec n) : BitVec n :=
  match op with
  | .add => a + b
  | .sub => a - b
  | .mul => a * b
  | .div => if b = 0 then 0 else a / b
  | .or => a ||| b
  | .and => a &&& b
  | .lsh => a <<< (b.toNat % n)
  | .rsh => a >>> (b.toNat % n)
  | .neg => - a
  | .mod => a % b
  | .xor => a ^^^ b
  | .mov => b
  | .arsh => a.sshiftRight (b.toNat % n)

/-- branch conditions on `n`-bit words -/
def condSem {n : Nat} (c : Cond) (a b : BitVec n) : Bool :=
  match c with
  | .eq => a == b
  | .gt => b.ult a
  | .ge => b.ule a
  | .lt => a.ult b
  | .le => a.ule b
  | .set => a &&& b != 0
  | .ne => a != b
  | .sgt => b.slt a
  | .sge => b.sle a
  | .slt => a.slt b
  | .sle => a.sle b

/-- the value of an operand as a 64-bit word: a register, or the immediate sign-extended -/
def operand64 (s : State) (o : Operand) (k : BitVec 64 → Outcome) : Outcome :=
  match o with
  | .reg r => rd s r k
  | .imm v => k (v.signExtend 64)

def exec (env : Env) (s : State) (i : Instr) : Outcome :=
  match i with
  | .alu .w64 op dst src =>
    operand64 s src fun b =>
      if op = .mod ∧ b = 0 then .next s
      else rd s dst fun a => wr s dst (aluSem op a b)
  | .alu .w32 op dst src =>
    operand64 s src fun b =>
      let b32 := b.setWidth 32
      if op = .mod ∧ b32 = 0 then .next s
      else rd s dst fun a => wr s dst ((aluSem op (a.setWidth 32) b32).setWidth 64)
  | .endian big bytes dst =>
    rd s dst fun a =>
      let low := leBytes a.toNat bytes                       -- the `bytes` low-order bytes, LSB first
      wr s dst (BitVec.ofNat 64 (leValue (if big then low.reverse else low)))
  | .lddw dst lo =>
    match getInsn? env.prog s.pc with
    | none => .panic
    | some next => wr { s with pc := s.pc + 1 } dst ((next.imm ++ lo : BitVec 64))
  | .ldabs bytes imm =>
    pktAbs s imm fun a => load env s a bytes 0
  | .ldind bytes src imm =>
    rd s src fun x => load env s (BitVec.ofNat 64 s.mem.mem.base + x + imm.setWidth 64) bytes 0
  | .ldx bytes dst src off => rd s src fun x => load env s (x + off.signExtend 64) bytes dst
  | .st bytes dst off imm => rd s dst fun d => store env s (d + off.signExtend 64) bytes (imm.signExtend 64)
  | .stx bytes dst off src => rd s dst fun d => rd s src fun x => store env s (d + off.signExtend 64) bytes x
  | .xadd bytes dst off src =>
    rd s dst fun d => rd s src fun x => xadd env s (d + off.signExtend 64) bytes (BitVec.ofNat 64 (x.toNat % 2 ^ (8 * bytes)))
  | .ja off => jumpTo s ((s.pc : Int) + off.toInt)
  | .jmp .w64 c dst src off =>
    rd s dst fun a => operand64 s src fun b =>
      if condSem c a b then jumpTo s ((s.pc : Int) + off.toInt) else .next s
  | .jmp .w32 c dst src off =>
    rd s dst fun a => operand64 s src fun b =>
      if condSem c (a.setWidth 32) (b.setWidth 32) then jumpTo s ((s.pc : Int) + off.toInt) else .next s
  | .call kind imm =>
    if kind = 0 then callHelper env s imm
    else if kind = 1 then callLocal s imm
    else .err .callType s
  | .tailCall => .err .tailCall s
  | .exit => exitInsn s

/-- one instruction: fetch at `s.pc` (a position outside the program is not an instruction), frame
    bookkeeping, `pc := pc + 1`, execute -/
def step (env : Env) (s : State) : Outcome :=
  if s.pc * 8 < env.prog.size then
    match getInsn? env.prog s.pc with
    | none => .panic
    | some insn =>
      let s1 : State :=
        if s.depth < 8 then
          match env.usage s.pc with
          | some u => { s with usage := s.usage.setIfInBounds s.depth u }
          | none => s
        else s
      match decode insn with
      | some i => exec env { s1 with pc := s.pc + 1 } i
      | none => .panic
  else .panic

def run (env : Env) (s : State) : Nat → Interp.Result
  | 0 => .timeout s
  | fuel + 1 =>
    match step env s with
    | .next s' => run env s' fuel
    | .done r s' => .done r s'
    | .err e s' => .err e s'
    | .panic => .panic
    | .fault => .fault

/-- the one place where the interpreter knowingly departs from C01: an unsigned 64-bit comparison
    (`jeq jgt jge jlt jle jne`) with a *negative* immediate is made against the zero-extended
    immediate (pinned by `test_vm_jmp_unsigned_extend`) -/
def isF7 (i : Insn) : Bool :=
  (i.opc = 0x15 || i.opc = 0x25 || i.opc = 0x35 || i.opc = 0xa5 || i.opc = 0xb5 || i.opc = 0x55) && i.imm.msb

end Rbpf.Isa
