/-
  Driver-side decision procedure for "inside the claim" of C03/C04/C08/C09 on a concrete case
  (DESIGN.md §7 C03): a conservative dynamic taint run over the interpreter model.  Registers other
  than r1/r10 are undefined until written, stack bytes are undefined until written, r1–r5 are
  undefined after a helper call, addresses may be used as addresses but must not reach a result.
  A case is compared across engines only when the run ends with `inClaim = true`.
  Not part of any theorem.
-/
import RbpfModel.Model.Interp
import RbpfModel.Model.Isa
namespace Rbpf.Taint
open Rbpf.Interp Rbpf.Isa

inductive Tag | clean | stk | pkt | dirty deriving DecidableEq, Repr, Inhabited

def Tag.isAddr : Tag → Bool | .stk | .pkt => true | _ => false

structure TState where
  s : State
  rt : Array Tag
  st : Array Tag                         -- one tag per stack byte
  saved : List (Tag × Tag × Tag × Tag)   -- tags of r6..r9 saved by local calls
  inClaim : Bool := true
  f16 : Bool := false                    -- a stack access happened inside a local function
  calls : Nat := 0                       -- local calls executed
  helperCalls : Nat := 0

def aluTag (w : Width) (op : AluOp) (a b : Tag) : Tag :=
  match w with
  | .w32 => if op = .mov then (if b = .clean then .clean else .dirty) else if a = .clean ∧ b = .clean then .clean else
            if op = .mov then .dirty else .dirty
  | .w64 =>
    match op with
    | .mov => b
    | .add => if a.isAddr ∧ b = .clean then a else if a = .clean ∧ b.isAddr then b else if a = .clean ∧ b = .clean then .clean else .dirty
    | .sub => if a.isAddr ∧ b = .clean then a else if a.isAddr ∧ a = b then .clean else if a = .clean ∧ b = .clean then .clean else .dirty
    | .neg => if a = .clean then .clean else .dirty
    | _ => if a = .clean ∧ b = .clean then .clean else .dirty

def combine (ts : List Tag) (w : Nat) : Tag :=
  if ts.all (· == .clean) then .clean
  else if w = 8 ∧ ts.all (· == .stk) then .stk
  else if w = 8 ∧ ts.all (· == .pkt) then .pkt
  else .dirty

def stackRange (t : TState) (a w : Nat) : Option Nat :=
  let r := t.s.mem.stack
  if r.base ≤ a ∧ a + w ≤ r.base + r.bytes.size then some (a - r.base) else none

def setStack (st : Array Tag) (off w : Nat) (tag : Tag) : Array Tag :=
  (List.range w).foldl (fun acc k => acc.setIfInBounds (off + k) tag) st

/-- tags after executing instruction `i` (decoded from `insn`) in concrete state `t.s`; `ptrLoads` lists
    (address, tag) pairs of 8-byte slots that hold pointers (fixed-metadata VM) -/
def stepTags (t : TState) (i : Instr) (ptrSlots : List Nat) : TState :=
  let rtag (r : Nat) : Tag := t.rt.getD r .dirty
  let otag (o : Operand) : Tag := match o with | .reg r => rtag r | .imm _ => .clean
  let setR (t : TState) (r : Nat) (g : Tag) : TState := { t with rt := t.rt.setIfInBounds r g }
  let bad (t : TState) : TState := { t with inClaim := false }
  let ea (r : Nat) (off : BitVec 16) : Nat := (((t.s.reg[r]?).getD 0) + off.signExtend 64).toNat
  let inFn : Bool := !t.s.frames.isEmpty
  match i with
  | .alu w op dst src =>
    let t := if (op = .div ∨ op = .mod) ∧ otag src ≠ .clean then bad t else t
    setR t dst (aluTag w op (rtag dst) (otag src))
  | .endian _ _ dst => setR t dst (if rtag dst = .clean then .clean else .dirty)
  | .lddw dst _ => setR t dst .clean
  | .ldabs w imm =>
    -- a packet-relative load that lands in the private stack depends on where the stack happens to be: outside the claim
    let a := t.s.mem.mem.base + imm.toNat
    match stackRange t a w with
    | some _ => setR (bad t) 0 .dirty
    | none => setR t 0 .clean
  | .ldind w src imm =>
    let a := (BitVec.ofNat 64 t.s.mem.mem.base + ((t.s.reg[src]?).getD 0) + imm.setWidth 64).toNat
    if rtag src = .clean then
      match stackRange t a w with
      | some _ => setR (bad t) 0 .dirty
      | none => setR t 0 .clean
    else if t.s.mem.mem.bytes.size = 0 ∧ t.s.mem.mem.base = 0 ∧ rtag src = .stk then
      -- with an empty packet the base is null: an index register holding a stack address addresses that stack byte
      match stackRange t a w with
      | some o => setR { t with f16 := t.f16 || inFn } 0 (combine ((List.range w).map fun k => t.st.getD (o + k) .dirty) w)
      | none => setR (bad t) 0 .dirty
    else setR (bad t) 0 .dirty
  | .ldx w dst src off =>
    let a := ea src off
    let t := if rtag src = .dirty then bad t else t
    match stackRange t a w with
    | some o => setR { t with f16 := t.f16 || inFn } dst (combine ((List.range w).map fun k => t.st.getD (o + k) .dirty) w)
    | none => setR t dst (if w = 8 ∧ ptrSlots.contains a then .pkt else .clean)
  | .st w dst off _ =>
    let a := ea dst off
    let t := if rtag dst = .dirty then bad t else t
    match stackRange t a w with
    | some o => { t with st := setStack t.st o w .clean, f16 := t.f16 || inFn }
    | none => t
  | .stx w dst off src =>
    let a := ea dst off
    let t := if rtag dst = .dirty then bad t else t
    let g := rtag src
    match stackRange t a w with
    | some o => { t with st := setStack t.st o w (if w = 8 then g else if g = .clean then .clean else .dirty), f16 := t.f16 || inFn }
    | none => if g ≠ .clean then bad t else t
  | .xadd w dst off src =>
    let a := ea dst off
    let t := if rtag dst = .dirty then bad t else t
    let g := rtag src
    match stackRange t a w with
    | some o =>
      let cur := combine ((List.range w).map fun k => t.st.getD (o + k) .dirty) w
      { t with st := setStack t.st o w (if cur = .clean ∧ g = .clean then .clean else .dirty), f16 := t.f16 || inFn }
    | none => if g ≠ .clean then bad t else t
  | .ja _ => t
  | .jmp _ _ dst src _ => if rtag dst ≠ .clean ∨ otag src ≠ .clean then bad t else t
  | .call kind _ =>
    if kind = 0 then
      let t := if (List.range 5).any (fun k => rtag (k + 1) ≠ .clean) then bad t else t
      let t := setR t 0 .clean
      { (List.range 5).foldl (fun t k => setR t (k + 1) .dirty) t with helperCalls := t.helperCalls + 1 }
    else if kind = 1 then { t with saved := (rtag 6, rtag 7, rtag 8, rtag 9) :: t.saved, calls := t.calls + 1 }
    else t
  | .tailCall => t
  | .exit =>
    match t.saved with
    | (a, b, c, d) :: rest =>
      if inFn then { (setR (setR (setR (setR t 6 a) 7 b) 8 c) 9 d) with saved := rest } else t
    | [] => if inFn then t else (if rtag 0 ≠ .clean then bad t else t)

def init (m : Memory) : TState :=
  { s := Interp.init m
    rt := ((Array.replicate 11 Tag.dirty).setIfInBounds 1 .pkt).setIfInBounds 10 .stk
    st := Array.replicate 512 .dirty, saved := [] }

/-- run the interpreter model with the shadow tags -/
def run (env : Env) (ptrSlots : List Nat) (patched : List Nat) : Nat → TState → TState × Interp.Result
  | 0, t => (t, .timeout t.s)
  | fuel + 1, t =>
    let pc := t.s.pc
    match getInsn? env.prog pc with
    | none => (t, .panic)
    | some insn =>
      match Interp.step env t.s with
      | .next s' =>
        let t' := match Isa.decode insn with
          | some i =>
            let t1 := stepTags t i ptrSlots
            -- an lddw whose immediate was patched with a buffer address yields an address, not a constant
            if insn.opc = 0x18 ∧ patched.contains pc then { t1 with rt := t1.rt.setIfInBounds insn.dst.toNat .pkt } else t1
          | none => t
        run env ptrSlots patched fuel { t' with s := s' }
      | .done r s' =>
        let t' := match Isa.decode insn with | some i => stepTags t i ptrSlots | none => t
        ({ t' with s := s' }, .done r s')
      | .err e s' => (t, .err e s')
      | .panic => (t, .panic)
      | .fault => (t, .fault)

end Rbpf.Taint
