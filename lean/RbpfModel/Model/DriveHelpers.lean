/- protocol glue for the `helper` suite (not part of any theorem) -/
import RbpfModel.Model.Hex
import RbpfModel.Model.Helpers
namespace Rbpf.Drive
open Rbpf.Hex Rbpf.Helpers

def bv64? (s : String) : Option (BitVec 64) := (parseNat? s).map (BitVec.ofNat 64)

def handleHelper (toks : List String) : String :=
  match toks with
  | ["gather", a, b, c, d, e] =>
    match bv64? a, bv64? b, bv64? c, bv64? d, bv64? e with
    | some a, some b, some c, some d, some e => "ok " ++ bvHex (gatherBytes a b c d e)
    | _, _, _, _, _ => "bad-op"
  | ["memfrob", buf, off, len] =>
    -- the harness passes ptr = base + off; the buffer is reported back whole
    match parseBytes? buf, parseNat? off, parseNat? len with
    | some b, some off, some len =>
      match memfrob b.toList 4096 (4096 + off) len with
      | some b' => "ok 0000000000000000 " ++ bytesHex b'
      | none => "precondition"
    | _, _, _ => "bad-op"
  | ["strcmp", s1, s2] =>
    let bytes (s : String) : Option (Nat × List (BitVec 8)) :=
      if s == "null" then some (0, []) else (parseBytes? s).map fun b => (4096, b.toList)
    match bytes s1, bytes s2 with
    | some (p1, b1), some (p2, b2) =>
      match strcmp p1 p2 b1 b2 with
      | some v => "ok " ++ bvHex v
      | none => "precondition"
    | _, _ => "bad-op"
  | ["printf", a, b, c] =>
    match parseNat? a, parseNat? b, parseNat? c with
    | some a, some b, some c => s!"ok ret={printfRet a b c} printed={(printfText a b c).length}"
    | _, _, _ => "bad-op"
  | ["rand", a, b, _k] =>
    match parseNat? a, parseNat? b with
    | some _, some _ => "ok inrange"
    | _, _ => "bad-op"
  | ["randred", n, a, b] =>
    match parseNat? n, parseNat? a, parseNat? b with
    | some n, some a, some b => "ok " ++ natHex (randRange n a b) 16
    | _, _, _ => "bad-op"
  | ["sqrti", n] =>
    match parseNat? n with
    | some n => "ok " ++ natHex (sqrti n) 16
    | none => "bad-op"
  | _ => "bad-op"

end Rbpf.Drive
