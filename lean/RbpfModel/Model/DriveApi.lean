/- protocol glue for the `api` suite (C10): histories of VM API calls (not part of any theorem) -/
import RbpfModel.Model.Hex
import RbpfModel.Model.Vm
import RbpfModel.Model.Verifier
import RbpfModel.Model.EngineSem
import RbpfModel.Model.DriveExec
namespace Rbpf.Drive
open Rbpf.Hex Rbpf.Vm

/-- the harness' verifiers: 0 = rbpf's default, 1 = accept all, 2 = reject all, 3 = custom (first opcode is mov64 imm) -/
def accepts (v : Nat) (p : Bytes) : Bool :=
  match v with
  | 0 => Verifier.check p == .ok
  | 1 => true
  | 2 => false
  | _ => p.size ≥ 8 && p.getD 0 0 == 0xb7

/-- the harness' stack-usage calculator (`sc`): 64 bytes for every function -/
def calcOf (c : Option Nat) : Option (Nat → Nat) := c.map fun _ => fun _ => 64

def envOf (p : Bytes) (h : List (Nat × Nat)) (cal : Option Nat := none) : Env :=
  { prog := p, helpers := fun k => (h.find? (·.1 == k)).map (fun e => mix (e.2 % 4)), allowed := [],
    usage := Interp.usageOf (Interp.stackEntries p) (calcOf cal) }

def world : World :=
  { accepts := accepts
    jitCompiles := fun p h => EngineSem.jitCompile (envOf p h) == .ok
    clifCompiles := fun p h => EngineSem.clifCompile (envOf p h) == .ok }

def runProg (eng : Nat) (p : Bytes) (h : List (Nat × Nat)) (fixed : Option (Nat × Nat)) (cal : Option Nat) (pkt : Nat := 0) : String :=
  let stack : Region := ⟨0x7000000000, Array.replicate 512 0⟩
  let m : Memory := match fixed with
    | none => { mbuff := ⟨1, #[]⟩, mem := ⟨0x5000000000, Array.replicate pkt 0x5a⟩, stack, extra := [] }
    | some (d, e) => memOf .fixed ⟨0x5000000000, Array.replicate pkt 0x5a⟩ ⟨1, #[]⟩ 0x6000000000 (Array.replicate (fixedBufLen d e) 0) d e stack []
  -- interpreter: frame sizes from the calculator in force; x86-64 JIT: its own call semantics (no frame table: F16);
  -- Cranelift never compiles programs with local calls, elsewhere it agrees with the interpreter
  match (if eng = 1 then EngineSem.jitRun (envOf p h) (Interp.init m) 1000 else Interp.run (envOf p h cal) (Interp.init m) 1000) with
  | .done r _ => "v" ++ bvHex r
  | .err _ _ => "err"
  | .panic => "panic" | .fault => "fault" | .timeout _ => "budget"

/-- the packet length of an execution op (`x:N`, `xj:N`, `xc:N`; none = empty packet): not part of the API state model -/
def pktOf (t : String) : Nat :=
  match t.splitOn ":" with
  | [o, n] => if o == "x" || o == "xj" || o == "xc" then n.toNat?.getD 0 else 0
  | _ => 0

def parseOp? (pool : Array Bytes) (t : String) : Option Op :=
  match t.splitOn ":" with
  | ["sp", i] => do pure (.setProgram (← pool[← i.toNat?]?) (some (0, 8)))     -- the harness passes (0, 8) to the fixed-metadata VM
  | ["sp", i, d, e] => do pure (.setProgram (← pool[← i.toNat?]?) (some ((← d.toNat?), (← e.toNat?))))
  | ["sv", v] => do pure (.setVerifier (← v.toNat?))
  | ["rh", id, f] => do pure (.registerHelper (← parseNat? id) (← f.toNat?))
  | ["sc"] => some (.setCalc 1)
  | ["jc"] => some .jitCompile
  | ["cc"] => some .clifCompile
  | ["x"] => some .exec
  | ["xj"] => some .execJit
  | ["xc"] => some .execClif
  | ["x", n] => n.toNat?.map fun _ => .exec
  | ["xj", n] => n.toNat?.map fun _ => .execJit
  | ["xc", n] => n.toNat?.map fun _ => .execClif
  | _ => none

def handleApi (toks : List String) : String :=
  let kv := kvOf toks
  match (look kv "pool").map (fun s => (s.splitOn ",").mapM parseBytes?), look kv "ops" with
  | some (some poolL), some opsS =>
    let pool := poolL.toArray
    let init : Option (Option Bytes) := match look kv "init" with
      | some "-" => some none
      | some i => (i.toNat?.bind (pool[·]?)).map some
      | none => some none
    let fixed : Option (Nat × Nat) := if look kv "kind" == some "fixed" then some (0, 8) else none
    match init, (opsS.splitOn ";").mapM (parseOp? pool) with
    | some ini, some ops =>
      match create world ini fixed with
      | none => "new-err"
      | some s0 =>
        let (_, outs) := runOps world s0 ops
        let pkts := (opsS.splitOn ";").map pktOf
        ",".intercalate ((outs.zip pkts).map fun (o, pkt) => match o with | .ok => "ok" | .err => "err" | .ran eng p h f c => runProg eng p h f c pkt)
    | _, _ => "bad-op"
  | _, _ => "bad-op"

end Rbpf.Drive
