/-
  Model of the VM API in `src/lib.rs` (C09, C10): what each of the four VM kinds hands to the
  execution engines, and the load / verify / compile / execute state machine.
  Verifiers are abstract predicates on byte strings (`Verifier = fn(&[u8]) -> Result<(), Error>`);
  executing a program is an abstract function of (program, helpers) — its meaning is the subject of
  C01/C03/C04, here only *which* program and helpers get executed matters.
-/
import RbpfModel.Model.Interp
namespace Rbpf.Vm

inductive Kind | mbuff | fixed | raw | noData deriving DecidableEq, Repr

/-- `LittleEndian::write_u64(&mut buf[off..], v)` -/
def writeU64 (buf : Bytes) (off v : Nat) : Bytes :=
  (List.range 8).foldl (fun b k => b.setIfInBounds (off + k) (BitVec.ofNat 8 (v >>> (8 * k)))) buf

/-- little-endian 64-bit value at `off` -/
def readU64 (buf : Bytes) (off : Nat) : Nat :=
  (List.range 8).foldl (fun acc k => acc + (buf.getD (off + k) 0).toNat * 256 ^ k) 0

/-- `EbpfVmFixedMbuff::new`: the internal buffer holds `max(data_offset, data_end_offset) + 8` zero bytes -/
def fixedBufLen (d e : Nat) : Nat := (if d ≥ e then d else e) + 8

/-- `EbpfVmFixedMbuff::execute_program`: packet start and end written at the two offsets (start first) -/
def fixedPrepare (buf : Bytes) (d e : Nat) (memBase memLen : Nat) : Bytes :=
  writeU64 (writeU64 buf d memBase) e (memBase + memLen)

/-- the packet region as the engines address it through `ldabs`/`ldind`: an empty packet has the null base (the
    interpreter's `mem_base`, the null `mem_ptr` handed to compiled code) -/
def pktRegion (mem : Region) : Region := if mem.bytes.size = 0 then ⟨0, #[]⟩ else mem

/-- the (packet, metadata) pair each VM kind passes to `interpreter::execute_program`;
    `fixedBase`/`fixedBuf` are the address and current contents of the fixed-metadata VM's internal buffer;
    an empty Rust slice has the dangling address 1 (that is what the fixed-metadata VM's interpreter path writes
    into its slots for an empty packet) -/
def memOf (k : Kind) (mem mbuff : Region) (fixedBase : Nat) (fixedBuf : Bytes) (d e : Nat) (stack : Region) (extra : List Region) : Memory :=
  match k with
  | .mbuff => { mbuff := mbuff, mem := pktRegion mem, stack, extra }
  | .raw => { mbuff := ⟨1, #[]⟩, mem := pktRegion mem, stack, extra }
  | .noData => { mbuff := ⟨1, #[]⟩, mem := ⟨0, #[]⟩, stack, extra }
  | .fixed => { mbuff := ⟨fixedBase, fixedPrepare fixedBuf d e mem.base mem.bytes.size⟩, mem := pktRegion mem, stack, extra }

-- the API state machine ---------------------------------------------------------------------------------

abbrev VerifierId := Nat

structure Artefact where
  prog : Bytes
  helpers : List (Nat × Nat)          -- the helper table the code was compiled against
deriving DecidableEq, Repr

structure VmState where
  prog : Option Bytes
  verifier : VerifierId
  jit : Option Artefact
  clif : Option Artefact
  helpers : List (Nat × Nat)          -- id ↦ function (insertion replaces)
  calcId : Option Nat                 -- installed stack-usage calculator (by identity)
  fixed : Option (Nat × Nat)          -- (data_offset, data_end_offset) of a fixed-metadata VM
deriving DecidableEq, Repr

inductive Op
  | setProgram (p : Bytes) (offs : Option (Nat × Nat))
  | setVerifier (v : VerifierId)
  | registerHelper (id fn : Nat)
  | setCalc (c : Nat)
  | jitCompile
  | clifCompile
  | exec
  | execJit
  | execClif
deriving DecidableEq, Repr

/-- what a call returns: `err`, unit `ok`, or "the result of running program `p` on engine `eng` with helper table `h`" -/
inductive Out
  | ok
  | err
  | ran (eng : Nat) (p : Bytes) (h : List (Nat × Nat)) (fixed : Option (Nat × Nat)) (cal : Option Nat)
      -- engine (0 interpreter, 1 x86-64 JIT, 2 Cranelift); fixed-metadata VM: the offsets in force; the stack-usage calculator in
      -- force (the interpreter's frame-size table is a function of it and of the program; compiled code has none)
deriving DecidableEq, Repr

structure World where
  accepts : VerifierId → Bytes → Bool                  -- the verifiers in play
  jitCompiles : Bytes → List (Nat × Nat) → Bool        -- compilation succeeds (helpers known, …)
  clifCompiles : Bytes → List (Nat × Nat) → Bool

def setHelper (hs : List (Nat × Nat)) (id fn : Nat) : List (Nat × Nat) := (id, fn) :: hs.filter (·.1 ≠ id)

/-- `new(prog)`: the default verifier (id 0) checks the initial program -/
def create (w : World) (prog : Option Bytes) (fixed : Option (Nat × Nat)) : Option VmState :=
  match prog with
  | some p => if w.accepts 0 p then some { prog := some p, verifier := 0, jit := none, clif := none, helpers := [], calcId := none, fixed } else none
  | none => some { prog := none, verifier := 0, jit := none, clif := none, helpers := [], calcId := none, fixed }

def step (w : World) (s : VmState) (o : Op) : VmState × Out :=
  match o with
  | .setProgram p offs =>
    -- the verifier in force runs first; only then is anything replaced (incl. the fixed-metadata offsets); compiled code of
    -- the previous program is dropped
    if w.accepts s.verifier p then
      ({ s with prog := some p, jit := none, clif := none, fixed := (match s.fixed, offs with | some _, some o => some o | f, _ => f) }, .ok)
    else (s, .err)
  | .setVerifier v =>
    match s.prog with
    | some p => if w.accepts v p then ({ s with verifier := v }, .ok) else (s, .err)
    | none => ({ s with verifier := v }, .ok)
  | .registerHelper id fn => ({ s with helpers := setHelper s.helpers id fn }, .ok)
  | .setCalc c => ({ s with calcId := some c }, .ok)
  | .jitCompile =>
    match s.prog with
    | some p => if w.jitCompiles p s.helpers then ({ s with jit := some ⟨p, s.helpers⟩ }, .ok) else (s, .err)
    | none => (s, .err)
  | .clifCompile =>
    match s.prog with
    | some p => if w.clifCompiles p s.helpers then ({ s with clif := some ⟨p, s.helpers⟩ }, .ok) else (s, .err)
    | none => (s, .err)
  | .exec => match s.prog with | some p => (s, .ran 0 p s.helpers s.fixed s.calcId) | none => (s, .err)
  | .execJit => match s.jit with | some a => (s, .ran 1 a.prog a.helpers s.fixed none) | none => (s, .err)
  | .execClif => match s.clif with | some a => (s, .ran 2 a.prog a.helpers s.fixed none) | none => (s, .err)

def runOps (w : World) (s : VmState) : List Op → VmState × List Out
  | [] => (s, [])
  | o :: rest =>
    let (s1, out) := step w s o
    let (s2, outs) := runOps w s1 rest
    (s2, out :: outs)

end Rbpf.Vm
