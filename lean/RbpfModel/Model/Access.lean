/-
  Specification side of C02: which instructions access memory, at which effective address and with
  which width — written from the instruction-set description (size bits of the opcode byte), not
  from the interpreter's arms — and what "inside the program's own memory" means.
-/
import RbpfModel.Model.Interp
namespace Rbpf

/-- all `w` bytes at host address `a` lie inside region `r` (hence no wrap-around) -/
def Contained (a w : Nat) (r : Region) : Prop := r.base ≤ a ∧ a + w ≤ r.base + r.bytes.size

/-- all `w` bytes at `a` lie inside the registered range `[rng.1, rng.2)` -/
def InRange (a w : Nat) (rng : Nat × Nat) : Prop := rng.1 ≤ a ∧ a + w ≤ rng.2

/-- C02's "the program's own memory": packet data, metadata buffer, the 512-byte stack, or a
    registered allowed range -/
def OwnMemory (m : Memory) (allowed : List (Nat × Nat)) (a w : Nat) : Prop :=
  Contained a w m.mbuff ∨ Contained a w m.mem ∨ Contained a w m.stack ∨ ∃ rng ∈ allowed, InRange a w rng

inductive AccessKind | load | store | atomic deriving DecidableEq, Repr

/-- width in bytes from the size bits (bits 3-4) of a load/store opcode: W=0→4, H=1→2, B=2→1, DW=3→8 -/
def accessWidth (opc : BitVec 8) : Nat :=
  match (opc.toNat / 8) % 4 with | 0 => 4 | 1 => 2 | 2 => 1 | _ => 8

/-- the memory access an instruction makes in state `s`: kind, effective address (wrapping 64-bit
    arithmetic, offset sign-extended, immediate of `ldabs`/`ldind` zero-extended) and width;
    `none` for instructions that do not access memory or whose address register does not exist -/
def access? (s : State) (i : Insn) : Option (AccessKind × BitVec 64 × Nat) :=
  let opc := i.opc.toNat
  let cls := opc % 8
  let mode := opc / 32
  let w := accessWidth i.opc
  let pkt : BitVec 64 := BitVec.ofNat 64 s.mem.mem.base
  if cls = 0 ∧ mode = 1 then some (.load, pkt + i.imm.setWidth 64, w)                      -- ldabs
  else if cls = 0 ∧ mode = 2 then (s.reg[i.src.toNat]?).map fun x => (.load, pkt + x + i.imm.setWidth 64, w)   -- ldind
  else if cls = 1 ∧ mode = 3 then (s.reg[i.src.toNat]?).map fun x => (.load, x + i.off.signExtend 64, w)       -- ldx
  else if (cls = 2 ∨ cls = 3) ∧ mode = 3 then (s.reg[i.dst.toNat]?).map fun d => (.store, d + i.off.signExtend 64, w)  -- st / stx
  else if i.opc = 0xc3 ∨ i.opc = 0xdb then (s.reg[i.dst.toNat]?).map fun d => (.atomic, d + i.off.signExtend 64, w)   -- xadd
  else none

end Rbpf
