/-
  Semantics of the Cranelift IR that `cranelift.rs` builds (`Model/ClifAst.lean`), at the level the translator works at:
  `Variable`s are mutable 64-bit cells, values defined inside one eBPF instruction's op list live in a local list, control
  moves between eBPF instruction indices.  Cranelift's SSA construction, block parameters and code generation are below
  this level (trusted; validated by execution).  Instruction meanings follow the Cranelift IR reference: integer ops wrap at
  the operand type, shift amounts are taken modulo the type width, `icmp` yields 0/1 in an i8, `udiv`/`urem` trap on a zero
  divisor, `trapz` traps when its operand is zero, loads and stores are little-endian at `base + offset` modulo 2^64.
-/
import RbpfModel.Model.ClifAst
import RbpfModel.Model.Interp
namespace Rbpf.ClifSem
open Rbpf.ClifAst

def Ty.bits : Ty → Nat | .i8 => 8 | .i16 => 16 | .i32 => 32 | .i64 => 64

/-- a typed value; `v` is kept zero-extended (`v < 2 ^ bits`) -/
structure Val where
  ty : Ty
  v : BitVec 64
deriving DecidableEq, Repr

def trunc (t : Ty) (x : BitVec 64) : BitVec 64 := BitVec.ofNat 64 (x.toNat % 2 ^ Ty.bits t)
def mk (t : Ty) (x : BitVec 64) : Val := ⟨t, trunc t x⟩
/-- the value read as a signed number of its type -/
def Val.toInt (a : Val) : Int :=
  if a.v.toNat < 2 ^ (Ty.bits a.ty - 1) then (a.v.toNat : Int) else (a.v.toNat : Int) - 2 ^ Ty.bits a.ty

structure St where
  vars : Vector (BitVec 64) 17              -- every Variable is declared I64
  mem : Memory
  log : List (Nat × List (BitVec 64))       -- helper calls made so far: (id, [a1..a5])
  params : Vector (BitVec 64) 4             -- function parameters: mem_ptr, mem_len, mbuff_ptr, mbuff_len
  stackBase : Nat                           -- address of the 512-byte stack slot `ss0`

/-- where control goes after the op list of one eBPF instruction -/
inductive Flow
  | fall                                    -- no terminator: the next instruction start
  | goto (pc : Nat)
  | ret (v : BitVec 64)
  | trap                                    -- `trapz` fired, or division by zero
  | stuck                                   -- ill-typed / dangling operand / unmapped address: the model has no meaning here
deriving DecidableEq, Repr

def arg (s : St) (loc : List Val) : Arg → Option Val
  | .loc k => loc[k]?
  | .var v => (s.vars[v]?).map fun x => ⟨.i64, x⟩
  | .param k => (s.params[k]?).map fun x => ⟨.i64, x⟩

def bswapN (n : Nat) (x : Nat) : Nat := leValue ((leBytes x n).reverse)

def evalUn (o : UnOp) (a : Val) : Option Val :=
  match o with
  | .ineg => some (mk a.ty (0 - a.v))
  | .bswap => if a.ty = .i8 then none else some (mk a.ty (BitVec.ofNat 64 (bswapN (a.ty.bytes) a.v.toNat)))
  | .ireduce t => if Ty.bits t < Ty.bits a.ty then some (mk t a.v) else none
  | .uextend t => if Ty.bits a.ty < Ty.bits t then some ⟨t, a.v⟩ else none
  | .sextend t => if Ty.bits a.ty < Ty.bits t then some (mk t (BitVec.ofInt 64 a.toInt)) else none

/-- `none`: ill-typed; `some none`: trap -/
def evalBin (o : BinOp) (a b : Val) : Option (Option Val) :=
  if a.ty ≠ b.ty then none else
  let t := a.ty
  let sh := b.v.toNat % Ty.bits t
  match o with
  | .iadd => some (some (mk t (a.v + b.v)))
  | .isub => some (some (mk t (a.v - b.v)))
  | .imul => some (some (mk t (a.v * b.v)))
  | .udiv => if b.v = 0 then some none else some (some (mk t (a.v / b.v)))
  | .urem => if b.v = 0 then some none else some (some (mk t (a.v % b.v)))
  | .band => some (some (mk t (a.v &&& b.v)))
  | .bor => some (some (mk t (a.v ||| b.v)))
  | .bxor => some (some (mk t (a.v ^^^ b.v)))
  | .ishl => some (some (mk t (a.v <<< sh)))
  | .ushr => some (some (mk t (a.v >>> sh)))
  | .sshr => some (some (mk t (BitVec.ofInt 64 (a.toInt >>> sh))))

def evalCC (c : CC) (a b : Val) : Bool :=
  match c with
  | .eq => a.v = b.v | .ne => a.v ≠ b.v
  | .ugt => b.v.toNat < a.v.toNat | .uge => b.v.toNat ≤ a.v.toNat
  | .ult => a.v.toNat < b.v.toNat | .ule => a.v.toNat ≤ b.v.toNat
  | .sgt => b.toInt < a.toInt | .sge => b.toInt ≤ a.toInt
  | .slt => a.toInt < b.toInt | .sle => a.toInt ≤ b.toInt

def bool (b : Bool) : Val := ⟨.i8, if b then 1 else 0⟩

/-- effective address `base + offset` modulo 2^64 -/
def ea (a : Val) (off : Int) : Nat := (a.v + BitVec.ofInt 64 off).toNat

/-- one op: new state, new local list — or the way control leaves the list -/
def step (env : Rbpf.Env) (s : St) (loc : List Val) (op : Op) : Except Flow (St × List Val) :=
  let need {α} (o : Option α) (k : α → Except Flow (St × List Val)) : Except Flow (St × List Val) :=
    match o with | some x => k x | none => .error .stuck
  match op with
  | .iconst t v => .ok (s, loc ++ [mk t v])
  | .un o a => need (arg s loc a) fun x => need (evalUn o x) fun r => .ok (s, loc ++ [r])
  | .bin o a b => need (arg s loc a) fun x => need (arg s loc b) fun y => need (evalBin o x y) fun r =>
      match r with | some r => .ok (s, loc ++ [r]) | none => .error .trap
  | .icmp c a b => need (arg s loc a) fun x => need (arg s loc b) fun y =>
      if x.ty = y.ty then .ok (s, loc ++ [bool (evalCC c x y)]) else .error .stuck
  | .icmpImm c a imm => need (arg s loc a) fun x => .ok (s, loc ++ [bool (evalCC c x (mk x.ty (BitVec.ofInt 64 imm)))])
  | .select c a b => need (arg s loc c) fun cv => need (arg s loc a) fun x => need (arg s loc b) fun y =>
      if x.ty = y.ty then .ok (s, loc ++ [if cv.v ≠ 0 then x else y]) else .error .stuck
  | .load t a off => need (arg s loc a) fun x =>
      if x.ty ≠ .i64 then .error .stuck else
      need (s.mem.readBytes? (ea x off) t.bytes) fun bs => .ok (s, loc ++ [⟨t, BitVec.ofNat 64 (leValue bs)⟩])
  | .store v a off => need (arg s loc v) fun x => need (arg s loc a) fun b =>
      if b.ty ≠ .i64 then .error .stuck else
      need (s.mem.writeBytes? (ea b off) (leBytes x.v.toNat (x.ty.bytes))) fun m => .ok ({ s with mem := m }, loc)
  | .atomicAdd t a v => need (arg s loc a) fun b => need (arg s loc v) fun x =>
      if b.ty ≠ .i64 ∨ x.ty ≠ t then .error .stuck else
      need (s.mem.readBytes? b.v.toNat t.bytes) fun bs =>
      need (s.mem.writeBytes? b.v.toNat (leBytes (leValue bs + x.v.toNat) t.bytes)) fun m =>
        .ok ({ s with mem := m }, loc ++ [⟨t, BitVec.ofNat 64 (leValue bs)⟩])
  | .call k args =>
      need (args.mapM (arg s loc)) fun (vs : List Val) =>
      match env.helpers k, vs with
      | some f, [a1, a2, a3, a4, a5] =>
        if vs.all (fun x => x.ty = Ty.i64) then
          .ok ({ s with log := s.log ++ [(k, [a1.v, a2.v, a3.v, a4.v, a5.v])] }, loc ++ [(⟨Ty.i64, f a1.v a2.v a3.v a4.v a5.v⟩ : Val)])
        else .error .stuck
      | _, _ => .error .stuck
  | .trapz a => need (arg s loc a) fun x => if x.v = 0 then .error .trap else .ok (s, loc)
  | .defVar v a => need (arg s loc a) fun x =>
      if x.ty = .i64 ∧ v < 17 then .ok ({ s with vars := s.vars.setIfInBounds v x.v }, loc) else .error .stuck
  | .brif c t f => need (arg s loc c) fun x => .error (.goto (if x.v ≠ 0 then t else f))
  | .jump t => .error (.goto t)
  | .stackAddr off => .ok (s, loc ++ [⟨.i64, BitVec.ofNat 64 (s.stackBase + off)⟩])
  | .ret a => need (arg s loc a) fun x => if x.ty = .i64 then .error (.ret x.v) else .error .stuck

/-- the op list of one eBPF instruction: the state at the end and how control leaves -/
def runOps (env : Rbpf.Env) (s : St) (loc : List Val) : List Op → St × Flow
  | [] => (s, .fall)
  | op :: rest =>
    match step env s loc op with
    | .ok (s', loc') => runOps env s' loc' rest
    | .error f =>
      -- state changes made before a trap are kept (none of the lists changes state before its last trap)
      (s, f)

end Rbpf.ClifSem
