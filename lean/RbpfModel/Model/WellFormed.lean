/-
  The well-formedness predicate of property C06, written from the property's statement — class
  structure of the opcode byte, instruction starts by linear sweep — and deliberately not from the
  verifier's code.  Decidable, so the driver evaluates it as the oracle.
-/
import RbpfModel.Model.Insn
namespace Rbpf

/-- instruction starts: linear sweep from `pc`, a wide load (opcode 0x18) occupies two slots -/
def sweepFrom (p : Bytes) (pc : Nat) : List Nat :=
  if pc * 8 < p.size then
    match getInsn? p pc with
    | some i => pc :: sweepFrom p (pc + (if i.opc = 0x18 then 2 else 1))
    | none => []      -- a trailing partial slot is not an instruction
  else []
termination_by p.size - pc * 8
decreasing_by split <;> omega

def starts (p : Bytes) : List Nat := sweepFrom p 0

namespace WF

def cls (opc : BitVec 8) : Nat := opc.toNat % 8
def hi (opc : BitVec 8) : Nat := opc.toNat / 16          -- operation / mode+size bits
def srcBit (opc : BitVec 8) : Nat := (opc.toNat / 8) % 2  -- BPF_K / BPF_X

/-- 32- and 64-bit ALU operations other than byte swaps: add sub mul div or and lsh rsh neg mod xor mov
    arsh, immediate or register source (neg: immediate form only) -/
def isAlu (opc : BitVec 8) : Bool :=
  (cls opc = 4 ∨ cls opc = 7) ∧ hi opc ≤ 12 ∧ (hi opc = 8 → srcBit opc = 0)
/-- byte swaps: `le`/`be`, ALU class only -/
def isEndian (opc : BitVec 8) : Bool := cls opc = 4 ∧ hi opc = 13
/-- conditional jumps (JMP and JMP32 class) and `ja` (JMP class only) -/
def isJump (opc : BitVec 8) : Bool :=
  ((cls opc = 5 ∨ cls opc = 6) ∧ hi opc ∈ [1, 2, 3, 4, 5, 6, 7, 10, 11, 12, 13]) ∨ opc = 0x05
def isLddw (opc : BitVec 8) : Bool := opc = 0x18
/-- `ldabs`/`ldind` b h w dw -/
def isLdPkt (opc : BitVec 8) : Bool := cls opc = 0 ∧ (opc.toNat / 32 = 1 ∨ opc.toNat / 32 = 2)
/-- `ldx` b h w dw -/
def isLdx (opc : BitVec 8) : Bool := cls opc = 1 ∧ opc.toNat / 32 = 3
/-- `st`/`stx` b h w dw -/
def isStore (opc : BitVec 8) : Bool := (cls opc = 2 ∨ cls opc = 3) ∧ opc.toNat / 32 = 3
/-- atomic add, 32 and 64 bit -/
def isXadd (opc : BitVec 8) : Bool := opc = 0xc3 ∨ opc = 0xdb
def isCall (opc : BitVec 8) : Bool := opc = 0x85
def isExit (opc : BitVec 8) : Bool := opc = 0x95

def supported (opc : BitVec 8) : Bool :=
  isAlu opc || isEndian opc || isJump opc || isLddw opc || isLdPkt opc || isLdx opc || isStore opc ||
  isXadd opc || isCall opc || isExit opc

/-- the slot index `i + 1 + d` is inside the program and is an instruction start -/
def landsOnInsn (p : Bytes) (i : Nat) (d : Int) : Prop :=
  0 ≤ (i : Int) + 1 + d ∧ ((i : Int) + 1 + d).toNat < p.size / 8 ∧ ((i : Int) + 1 + d).toNat ∈ starts p

instance (p i d) : Decidable (landsOnInsn p i d) := by unfold landsOnInsn; infer_instance

/-- the per-instruction rules of C06 for the instruction starting at slot `i` -/
def InsnOk (p : Bytes) (i : Nat) : Prop :=
  match getInsn? p i with
  | none => False
  | some x =>
    supported x.opc = true ∧
    x.src.toNat ≤ 10 ∧
    (x.dst.toNat ≤ 9 ∨ (x.dst.toNat = 10 ∧ (isStore x.opc ∨ isXadd x.opc))) ∧
    (isLddw x.opc → match getInsn? p (i + 1) with | none => False | some y => y.opc = 0) ∧
    (isJump x.opc → x.off ≠ -1 ∧ landsOnInsn p i x.off.toInt) ∧
    (isCall x.opc → x.src = 0 ∨ (x.src = 1 ∧ landsOnInsn p i x.imm.toInt)) ∧
    (isEndian x.opc → x.imm = 16 ∨ x.imm = 32 ∨ x.imm = 64) ∧
    (isXadd x.opc → x.imm = 0)

instance (p i) : Decidable (InsnOk p i) := by
  unfold InsnOk
  split
  · infer_instance
  · have : Decidable (match getInsn? p (i + 1) with | none => False | some y => y.opc = 0) := by
      split <;> infer_instance
    infer_instance

/-- execution cannot run past the last instruction: it is an `exit` or an unconditional jump -/
def LastOk (p : Bytes) : Prop :=
  match (starts p).getLast? with
  | none => False
  | some l =>
    match getInsn? p l with
    | none => False
    | some x => x.opc = 0x95 ∨ x.opc = 0x05

instance (p) : Decidable (LastOk p) := by
  unfold LastOk
  split
  · infer_instance
  · split <;> infer_instance

end WF

/-- C06's well-formed programs -/
def WellFormed (p : Bytes) : Prop :=
  p.size % 8 = 0 ∧ 0 < p.size ∧ p.size ≤ 8 * 1000000 ∧ (∀ i ∈ starts p, WF.InsnOk p i) ∧ WF.LastOk p

instance (p) : Decidable (WellFormed p) := by unfold WellFormed; infer_instance

end Rbpf
