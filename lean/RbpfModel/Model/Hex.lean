/- hex helpers shared by the driver (protocol side only; nothing here is part of a theorem) -/
namespace Rbpf.Hex

def hexVal (c : Char) : Option Nat :=
  if '0' ≤ c ∧ c ≤ '9' then some (c.toNat - '0'.toNat)
  else if 'a' ≤ c ∧ c ≤ 'f' then some (c.toNat - 'a'.toNat + 10)
  else if 'A' ≤ c ∧ c ≤ 'F' then some (c.toNat - 'A'.toNat + 10)
  else none

def parseNat? (s : String) : Option Nat :=
  if s.isEmpty then none else
  s.foldl (fun acc c => match acc, hexVal c with
    | some a, some v => some (a * 16 + v)
    | _, _ => none) (some 0)

/-- parse a hex string of even length into bytes -/
def parseBytes? (s : String) : Option (Array (BitVec 8)) := Id.run do
  if s == "-" then return some #[]
  let cs := s.toList.toArray
  if cs.size % 2 ≠ 0 then return none
  let mut out : Array (BitVec 8) := Array.mkEmpty (cs.size / 2)
  for i in [0:cs.size/2] do
    match hexVal cs[2*i]!, hexVal cs[2*i+1]! with
    | some a, some b => out := out.push (BitVec.ofNat 8 (a * 16 + b))
    | _, _ => return none
  return some out

def digit (n : Nat) : Char := if n < 10 then Char.ofNat (48 + n) else Char.ofNat (87 + n)

def natHex (n : Nat) (width : Nat) : String :=
  String.ofList ((List.range width).reverse.map (fun i => digit ((n >>> (4*i)) % 16)))

def bvHex {w : Nat} (x : BitVec w) : String := natHex x.toNat ((w + 3) / 4)

def bytesHex (bs : List (BitVec 8)) : String := if bs.isEmpty then "-" else String.join (bs.map bvHex)

end Rbpf.Hex
