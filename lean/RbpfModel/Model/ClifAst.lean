/-
  `src/cranelift.rs` at the level of Cranelift IR: for every eBPF instruction the list of IR operations its arm of
  `translate_program` emits, in order, with the data flow between them; the operations of `build_function_prelude`;
  the block structure of `build_cfg`; and the whole translation.

  The model is tied to the code by the driver (`DriveClif.lean`): it prints the translation in the canonical format of
  the harness (`harness/src/clifir.rs`) and the result is compared, line by line, with the canonicalised text of the
  function the real translator built (hook `verif_clif_ir`).

  How the code is read
  * `bcx.ins().<opcode>(…)` appends one `Op`; when the opcode defines a value the result is `Arg.loc k`, `k` counting
    the value-defining operations of the current eBPF instruction (`ins`).
  * `bcx.use_var(v)` is `Arg.var v` — the variable's value at the moment the operation that uses it executes — unless
    the same instruction has already `def_var`'d `v`, in which case cranelift-frontend hands back the value that was
    stored (`useVar`).  No arm of `cranelift.rs` reads a variable, redefines it and then uses the value read earlier:
    every `def_var` of an arm is its last action, so `Arg.var` never refers to a stale value.
  * `bcx.def_var(v, x)` is `Op.defVar v x`: no IR instruction, recorded because the semantics needs it.
  * `self.registers[r as usize]` panics for `r ≥ 11` (`reg`).
  * Blocks: `build_cfg` creates one block per key of `insn_blocks`; `build_function_prelude` adds key 0.
    `translate_program` switches to the block of an instruction when it has one, after closing an unterminated
    current block with `jump`; that `jump` is emitted before `set_srcloc`, so it carries the source location of
    the previous instruction and is listed with it.

  Additions to the given types: `Arg.param k` (the k-th parameter of the function, used by the prelude only) and
  `Op.stackAddr off` (`stack_addr.i64 ss0+off`, the only stack slot is the 512-byte eBPF stack).

  Failures are three-valued inside (`Fail.err` = `Err(..)`, `Fail.panic` = a Rust panic) so that the driver can
  print what the harness prints; `arm`, `translate` forget the distinction (`Option`).

  Core Lean only.
-/
import RbpfModel.Model.Insn
namespace Rbpf.ClifAst

inductive Ty | i8 | i16 | i32 | i64  deriving DecidableEq, Repr

/-- operand of an IR instruction: the value defined by the k-th value-defining op of this eBPF instruction's list,
    or the current value of a Variable (0..10 = eBPF registers r0..r10, 11 mem_start, 12 mem_end, 13 mbuf_start,
    14 mbuf_end, 15 stack_start, 16 stack_end) as `use_var` returns it, or (prelude only) the k-th function parameter
    (0 mem_ptr, 1 mem_len, 2 mbuff_ptr, 3 mbuff_len) -/
inductive Arg | loc (k : Nat) | var (v : Nat) | param (k : Nat)  deriving DecidableEq, Repr

inductive BinOp | iadd | isub | imul | udiv | urem | band | bor | bxor | ishl | ushr | sshr  deriving DecidableEq, Repr
inductive UnOp | ineg | bswap | ireduce (t : Ty) | uextend (t : Ty) | sextend (t : Ty)  deriving DecidableEq, Repr
inductive CC | eq | ne | ugt | uge | ult | ule | sgt | sge | slt | sle  deriving DecidableEq, Repr

inductive Op
  | iconst (t : Ty) (v : BitVec 64)          -- value masked to t
  | un (o : UnOp) (a : Arg)
  | bin (o : BinOp) (a b : Arg)
  | icmp (c : CC) (a b : Arg)
  | icmpImm (c : CC) (a : Arg) (imm : Int)
  | select (c a b : Arg)
  | load (t : Ty) (a : Arg) (off : Int)
  | store (v a : Arg) (off : Int)
  | atomicAdd (t : Ty) (a v : Arg)
  | call (k : Nat) (args : List Arg)          -- helper id k
  | trapz (a : Arg)
  | defVar (v : Nat) (a : Arg)                -- bcx.def_var: no IR instruction
  | brif (c : Arg) (t f : Nat)                -- terminators; targets are eBPF instruction indices (pc) of the target blocks
  | jump (t : Nat)
  | ret (a : Arg)
  | stackAddr (off : Nat)                     -- `stack_addr.i64 ss0+off` (prelude only)
  deriving Repr

/-- `Type::bytes` -/
def Ty.bytes : Ty → Nat | .i8 => 1 | .i16 => 2 | .i32 => 4 | .i64 => 8

/-- the ops that define a value (and so take part in the numbering of `Arg.loc`) -/
def Op.definesValue : Op → Bool
  | .iconst .. | .un .. | .bin .. | .icmp .. | .icmpImm .. | .select .. | .load .. | .atomicAdd .. | .call .. | .stackAddr .. => true
  | .store .. | .trapz .. | .defVar .. | .brif .. | .jump .. | .ret .. => false

/-- the ops that end a block -/
def Op.isTerminator : Op → Bool
  | .brif .. | .jump .. | .ret .. => true
  | _ => false

/-! ### Variables -/

def vMemStart := 11
def vMemEnd := 12
def vMbufStart := 13
def vMbufEnd := 14
def vStackStart := 15
def vStackEnd := 16

/-! ### The builder: what `FunctionBuilder` does between two `set_srcloc`s -/

/-- `Err(..)` returned by `compile_function`, or a panic inside it -/
inductive Fail | err | panic  deriving DecidableEq, Repr

structure BState where
  /-- the ops emitted so far for this eBPF instruction -/
  ops : List Op := []
  /-- how many of them define a value -/
  nvals : Nat := 0
  /-- the `def_var`s of this instruction, latest first -/
  defs : List (Nat × Arg) := []

abbrev B := StateT BState (Except Fail)

/-- `bcx.ins().<opcode>(…)` for an opcode with a result -/
def ins (o : Op) : B Arg := fun s => .ok (.loc s.nvals, { s with ops := s.ops ++ [o], nvals := s.nvals + 1 })

/-- `bcx.ins().<opcode>(…)` for an opcode without result (`store`, `trapz`, terminators) -/
def emit (o : Op) : B Unit := fun s => .ok ((), { s with ops := s.ops ++ [o] })

/-- `bcx.use_var(v)` -/
def useVar (v : Nat) : B Arg := fun s => .ok ((s.defs.lookup v).getD (.var v), s)

/-- `bcx.def_var(v, a)` -/
def defVar (v : Nat) (a : Arg) : B Unit := fun s => .ok ((), { s with ops := s.ops ++ [.defVar v a], defs := (v, a) :: s.defs })

/-- `self.registers[r as usize]` (an array of 11) -/
def reg (r : BitVec 8) : B Nat := if r.toNat < 11 then pure r.toNat else throw .panic

/-- a computation that does not touch the builder -/
def lift {α : Type} (x : Except Fail α) : B α := fun s => x.map (·, s)

/-- the ops of a builder run -/
def B.run' (m : B Unit) : Except Fail (List Op) := (m.run {}).map (·.2.ops)

/-! ### The helper functions of `cranelift.rs` (lines 994–1139) -/

/-- `insn_imm64`: `iconst(I64, insn.imm as u64 as i64)` -/
def insnImm64 (i : Insn) : B Arg := ins (.iconst .i64 (i.imm.signExtend 64))

/-- `insn_imm32`: `iconst(I32, insn.imm as u32 as u64 as i64)` -/
def insnImm32 (i : Insn) : B Arg := ins (.iconst .i32 (i.imm.zeroExtend 64))

/-- `insn_dst` -/
def insnDst (i : Insn) : B Arg := do useVar (← reg i.dst)

/-- `insn_dst32` -/
def insnDst32 (i : Insn) : B Arg := do
  let dst ← insnDst i
  ins (.un (.ireduce .i32) dst)

/-- `insn_src` -/
def insnSrc (i : Insn) : B Arg := do useVar (← reg i.src)

/-- `insn_src32` -/
def insnSrc32 (i : Insn) : B Arg := do
  let src ← insnSrc i
  ins (.un (.ireduce .i32) src)

/-- `set_dst` -/
def setDst (i : Insn) (val : Arg) : B Unit := do defVar (← reg i.dst) val

/-- `set_dst32` -/
def setDst32 (i : Insn) (val : Arg) : B Unit := do
  let val32 ← ins (.un (.uextend .i64) val)
  setDst i val32

/-- `insert_bounds_check`: trap unless `[base+offset, base+offset+size)` does not wrap and lies in the stack, in the
    first memory area (if its start is non-null) or in the second -/
def insertBoundsCheck (ty : Ty) (base : Arg) (offset : BitVec 16) : B Unit := do
  let accessSize ← ins (.iconst .i64 (BitVec.ofNat 64 ty.bytes))
  let offset ← ins (.iconst .i64 (offset.signExtend 64))
  let startAddr ← ins (.bin .iadd base offset)
  let endAddr ← ins (.bin .iadd startAddr accessSize)
  let doesNotOverflow ← ins (.icmp .uge endAddr startAddr)
  -- stack
  let stackStart ← useVar vStackStart
  let stackEnd ← useVar vStackEnd
  let stackStartValid ← ins (.icmp .uge startAddr stackStart)
  let stackEndValid ← ins (.icmp .ule endAddr stackEnd)
  let stackValid ← ins (.bin .band stackStartValid stackEndValid)
  -- memory
  let memStart ← useVar vMemStart
  let memEnd ← useVar vMemEnd
  let hasMem ← ins (.icmpImm .ne memStart 0)
  let memStartValid ← ins (.icmp .uge startAddr memStart)
  let memEndValid ← ins (.icmp .ule endAddr memEnd)
  let memValid ← ins (.bin .band memStartValid memEndValid)
  let memValid ← ins (.bin .band memValid hasMem)
  -- mbuf
  let mbufStart ← useVar vMbufStart
  let mbufEnd ← useVar vMbufEnd
  let hasMbuf ← ins (.icmpImm .ne mbufStart 0)
  let mbufStartValid ← ins (.icmp .uge startAddr mbufStart)
  let mbufEndValid ← ins (.icmp .ule endAddr mbufEnd)
  let mbufValid ← ins (.bin .band mbufStartValid mbufEndValid)
  let mbufValid ← ins (.bin .band mbufValid hasMbuf)
  -- any region, and no wrap-around
  let validRegion ← ins (.bin .bor stackValid memValid)
  let validRegion ← ins (.bin .bor validRegion mbufValid)
  let valid ← ins (.bin .band doesNotOverflow validRegion)
  emit (.trapz valid)

/-- `reg_load` (`offset as i32` is the instruction's offset field) -/
def regLoad (ty : Ty) (base : Arg) (offset : BitVec 16) : B Arg := do
  insertBoundsCheck ty base offset
  ins (.load ty base offset.toInt)

/-- `reg_store` -/
def regStore (ty : Ty) (base : Arg) (offset : BitVec 16) (val : Arg) : B Unit := do
  insertBoundsCheck ty base offset
  emit (.store val base offset.toInt)

/-- `reg_atomic_add`: the address is computed with an explicit `iadd` (`atomic_rmw` has no offset field) -/
def regAtomicAdd (ty : Ty) (base : Arg) (offset : BitVec 16) (val : Arg) : B Unit := do
  insertBoundsCheck ty base offset
  let off ← ins (.iconst .i64 (offset.signExtend 64))
  let addr ← ins (.bin .iadd base off)
  let _old ← ins (.atomicAdd ty addr val)

/-! ### Shapes shared by several arms of `translate_program`

The Rust source spells every arm out; arms that differ only in the opcode they emit are written once here.
Note the order of the first two reads: 32-bit immediate arms read the destination first, 64-bit immediate arms
create the constant first (and so do the 32-bit division and modulo). -/

/-- `ADD32_IMM` … : `insn_dst32; insn_imm32; op; set_dst32` -/
def alu32Imm (o : BinOp) (i : Insn) : B Unit := do
  let src ← insnDst32 i
  let imm ← insnImm32 i
  let res ← ins (.bin o src imm)
  setDst32 i res

/-- `ADD32_REG` … : `insn_dst32; insn_src32; op; set_dst32` -/
def alu32Reg (o : BinOp) (i : Insn) : B Unit := do
  let lhs ← insnDst32 i
  let rhs ← insnSrc32 i
  let res ← ins (.bin o lhs rhs)
  setDst32 i res

/-- `ADD64_IMM` … : `insn_imm64; insn_dst; op; set_dst` -/
def alu64Imm (o : BinOp) (i : Insn) : B Unit := do
  let imm ← insnImm64 i
  let src ← insnDst i
  let res ← ins (.bin o src imm)
  setDst i res

/-- `ADD64_REG` … : `insn_dst; insn_src; op; set_dst` -/
def alu64Reg (o : BinOp) (i : Insn) : B Unit := do
  let lhs ← insnDst i
  let rhs ← insnSrc i
  let res ← ins (.bin o lhs rhs)
  setDst i res

/-- width of the four load/store size codes (`BPF_W` 0x00, `BPF_H` 0x08, `BPF_B` 0x10, `BPF_DW` 0x18) -/
def sizeTy (opc : Nat) : Ty :=
  match opc &&& 0x18 with
  | 0x00 => .i32 | 0x08 => .i16 | 0x10 => .i8 | _ => .i64

/-- `LD_ABS_*`, `LD_IND_*` -/
def ldAbsInd (i : Insn) : B Unit := do
  let ty := sizeTy i.opc.toNat
  let ptr ← useVar vMemStart
  let offset ← ins (.iconst .i64 (i.imm.zeroExtend 64))       -- `insn.imm as u32 as i64`
  let addr ← ins (.bin .iadd ptr offset)
  let isInd : Bool := i.opc.toNat &&& 0x40 != 0
  let addr ← if isInd then do
      let srcReg ← insnSrc i
      ins (.bin .iadd addr srcReg)
    else pure addr
  let loaded ← regLoad ty addr 0
  let ext ← if ty ≠ .i64 then ins (.un (.uextend .i64) loaded) else pure loaded
  defVar 0 ext                                                 -- always R0

/-- `LD_*_REG` -/
def ldxReg (i : Insn) : B Unit := do
  let ty := sizeTy i.opc.toNat
  let base ← insnSrc i
  let loaded ← regLoad ty base i.off
  let ext ← if ty ≠ .i64 then ins (.un (.uextend .i64) loaded) else pure loaded
  setDst i ext

/-- `ST_*_IMM`, `ST_*_REG` -/
def stImmReg (isImm : Bool) (i : Insn) : B Unit := do
  let ty := sizeTy i.opc.toNat
  let value ← if isImm then insnImm64 i else insnSrc i
  let narrow ← if ty ≠ .i64 then ins (.un (.ireduce ty) value) else pure value
  let base ← insnDst i
  regStore ty base i.off narrow

/-- `DIV32_REG` / `DIV64_REG` (`w32`: operands through `insn_dst32`/`insn_src32`, result through `set_dst32`) -/
def divReg (w32 : Bool) (i : Insn) : B Unit := do
  let t : Ty := if w32 then .i32 else .i64
  let zero ← ins (.iconst t 0)
  let one ← ins (.iconst t 1)
  let lhs ← if w32 then insnDst32 i else insnDst i
  let rhs ← if w32 then insnSrc32 i else insnSrc i
  let rhsIsZero ← ins (.icmp .eq rhs zero)
  let safeRhs ← ins (.select rhsIsZero one rhs)
  let divRes ← ins (.bin .udiv lhs safeRhs)
  let res ← ins (.select rhsIsZero zero divRes)
  if w32 then setDst32 i res else setDst i res

/-- `MOD32_REG`: the remainder is widened first, a zero divisor keeps the whole 64-bit destination -/
def mod32Reg (i : Insn) : B Unit := do
  let zero ← ins (.iconst .i32 0)
  let one ← ins (.iconst .i32 1)
  let lhs ← insnDst32 i
  let rhs ← insnSrc32 i
  let rhsIsZero ← ins (.icmp .eq rhs zero)
  let safeRhs ← ins (.select rhsIsZero one rhs)
  let divRes ← ins (.bin .urem lhs safeRhs)
  let divRes ← ins (.un (.uextend .i64) divRes)
  let dst ← insnDst i
  let res ← ins (.select rhsIsZero dst divRes)
  setDst i res

/-- `MOD64_REG` -/
def mod64Reg (i : Insn) : B Unit := do
  let zero ← ins (.iconst .i64 0)
  let one ← ins (.iconst .i64 1)
  let lhs ← insnDst i
  let rhs ← insnSrc i
  let rhsIsZero ← ins (.icmp .eq rhs zero)
  let safeRhs ← ins (.select rhsIsZero one rhs)
  let divRes ← ins (.bin .urem lhs safeRhs)
  let res ← ins (.select rhsIsZero lhs divRes)
  setDst i res

/-- the host is x86-64: `self.isa.endianness() == Endianness::Little` -/
def hostLittle : Bool := true

/-- `BE | LE` -/
def endian (i : Insn) : B Unit := do
  let shouldSwap := if i.opc = 0xdc then hostLittle else !hostLittle
  let ty ← (if i.imm = 16 then pure Ty.i16 else if i.imm = 32 then pure Ty.i32 else if i.imm = 64 then pure Ty.i64
            else throw .panic : B Ty)                           -- `_ => unreachable!()`
  if shouldSwap then
    let src ← insnDst i
    let srcNarrow ← if ty ≠ .i64 then ins (.un (.ireduce ty) src) else pure src
    let res ← ins (.un .bswap srcNarrow)
    let resWide ← if ty ≠ .i64 then ins (.un (.uextend .i64) res) else pure res
    setDst i resWide
  else if ty ≠ .i64 then
    let src ← insnDst i
    let srcNarrow ← ins (.un (.ireduce ty) src)
    let resWide ← ins (.un (.uextend .i64) srcNarrow)
    setDst i resWide
  else pure ()

/-- the condition code of a conditional jump (`BPF_JSET` is handled by the caller) -/
def jumpCC (opc : Nat) : Option CC :=
  match opc &&& 0xf0 with
  | 0x10 => some .eq | 0x50 => some .ne
  | 0x20 => some .ugt | 0x30 => some .uge | 0xa0 => some .ult | 0xb0 => some .ule
  | 0x60 => some .sgt | 0x70 => some .sge | 0xc0 => some .slt | 0xd0 => some .sle
  | 0x40 => some .ne
  | _ => none

/-- the opcodes of the conditional-jump arm (`JEQ_IMM` … `JSET_REG32`): class `BPF_JMP` or `BPF_JMP32`, one of
    the eleven comparison codes, immediate or register -/
def isCondJump (opc : Nat) : Bool :=
  (opc &&& 0x07 = 0x05 || opc &&& 0x07 = 0x06) && (jumpCC opc).isSome

/-- the opcodes for which `build_cfg` calls `prepare_jump_blocks` -/
def isJump (opc : Nat) : Bool := opc = 0x05 || isCondJump opc

/-- the jump target of `prepare_jump_blocks`: `(insn_ptr as isize + insn.off as isize + 1).try_into::<u32>().unwrap()` -/
def targetPc (pc : Nat) (i : Insn) : Except Fail Nat :=
  let t : Int := (pc : Int) + i.off.toInt + 1
  if 0 ≤ t ∧ t < 2 ^ 32 then .ok t.toNat else .error .panic

/-- the conditional-jump arm -/
def condJump (pc : Nat) (i : Insn) : B Unit := do
  let opc := i.opc.toNat
  let target ← lift (targetPc pc i)     -- `self.insn_targets[&insn_ptr]`: filled in by `build_cfg`
  let fallthrough := pc + 1
  let isReg : Bool := opc &&& 0x08 != 0
  let is32 : Bool := opc &&& 0x07 == 0x06
  let lhs ← if is32 then insnDst32 i else insnDst i
  let rhs ← match isReg, is32 with
    | true, false => insnSrc i
    | true, true => insnSrc32 i
    | false, false => insnImm64 i
    | false, true => insnImm32 i
  let cmpRes ← if opc &&& 0xf0 = 0x40 then ins (.bin .band lhs rhs)
               else match jumpCC opc with
                 | some cc => ins (.icmp cc lhs rhs)
                 | none => throw .panic                         -- `_ => unreachable!()`: not reached for these opcodes
  emit (.brif cmpRes target fallthrough)

/-- `CALL` -/
def callArm (helpers : Nat → Bool) (i : Insn) : B Unit := do
  if i.src ≠ 0 then throw .err                                  -- unsupported call type
  if !helpers i.imm.toNat then throw .err                       -- `helper_func_refs.get(&(insn.imm as u32))`: unknown helper
  let arg0 ← useVar 1
  let arg1 ← useVar 2
  let arg2 ← useVar 3
  let arg3 ← useVar 4
  let arg4 ← useVar 5
  let ret ← ins (.call i.imm.toNat [arg0, arg1, arg2, arg3, arg4])
  defVar 0 ret                                                  -- always R0

/-! ### `translate_program`: one instruction -/

/-- the body of the `match insn.opc` of `translate_program` for the instruction `i` at slot `pc`
    (`p` is needed for the second slot of `LD_DW_IMM`) -/
def armB (helpers : Nat → Bool) (p : Bytes) (pc : Nat) (i : Insn) : B Unit :=
  match i.opc.toNat with
  -- BPF_LD class
  | 0x30 | 0x28 | 0x20 | 0x38 | 0x50 | 0x48 | 0x40 | 0x58 => ldAbsInd i
  | 0x18 => do
    match getInsn? p (pc + 1) with
    | none => throw .panic                                      -- `get_insn` past the end
    | some nextInsn =>
      -- `((insn.imm as u32) as u64) + ((next_insn.imm as u64) << 32)`
      let iconst ← ins (.iconst .i64 (nextInsn.imm ++ i.imm))
      setDst i iconst
  -- BPF_LDX class
  | 0x71 | 0x69 | 0x61 | 0x79 => ldxReg i
  -- BPF_ST and BPF_STX class
  | 0x72 | 0x6a | 0x62 | 0x7a => stImmReg true i
  | 0x73 | 0x6b | 0x63 | 0x7b => stImmReg false i
  | 0xc3 => do
    let base ← insnDst i
    let val ← insnSrc32 i
    regAtomicAdd .i32 base i.off val
  | 0xdb => do
    let base ← insnDst i
    let val ← insnSrc i
    regAtomicAdd .i64 base i.off val
  -- BPF_ALU class
  | 0x04 => alu32Imm .iadd i | 0x0c => alu32Reg .iadd i
  | 0x14 => alu32Imm .isub i | 0x1c => alu32Reg .isub i
  | 0x24 => alu32Imm .imul i | 0x2c => alu32Reg .imul i
  | 0x34 => do
    let res ← if i.imm = 0 then ins (.iconst .i32 0)
      else do
        let imm ← insnImm32 i
        let src ← insnDst32 i
        ins (.bin .udiv src imm)
    setDst32 i res
  | 0x3c => divReg true i
  | 0x44 => alu32Imm .bor i | 0x4c => alu32Reg .bor i
  | 0x54 => alu32Imm .band i | 0x5c => alu32Reg .band i
  | 0x64 => alu32Imm .ishl i | 0x6c => alu32Reg .ishl i
  | 0x74 => alu32Imm .ushr i | 0x7c => alu32Reg .ushr i
  | 0x84 => do
    let src ← insnDst32 i
    let res ← ins (.un .ineg src)
    setDst32 i res
  | 0x94 =>
    if i.imm ≠ 0 then do
      let imm ← insnImm32 i
      let src ← insnDst32 i
      let res ← ins (.bin .urem src imm)
      setDst32 i res
    else pure ()
  | 0x9c => mod32Reg i
  | 0xa4 => alu32Imm .bxor i | 0xac => alu32Reg .bxor i
  | 0xb4 => do
    let imm ← insnImm32 i
    setDst32 i imm
  | 0xbc => do
    let src ← insnSrc32 i
    setDst32 i src
  | 0xc4 => alu32Imm .sshr i | 0xcc => alu32Reg .sshr i
  | 0xdc | 0xd4 => endian i
  -- BPF_ALU64 class
  | 0x07 => alu64Imm .iadd i | 0x0f => alu64Reg .iadd i
  | 0x17 => alu64Imm .isub i | 0x1f => alu64Reg .isub i
  | 0x27 => alu64Imm .imul i | 0x2f => alu64Reg .imul i
  | 0x37 => do
    let res ← if i.imm = 0 then ins (.iconst .i64 0)
      else do
        let imm ← insnImm64 i
        let src ← insnDst i
        ins (.bin .udiv src imm)
    setDst i res
  | 0x3f => divReg false i
  | 0x97 =>
    if i.imm ≠ 0 then do
      let imm ← insnImm64 i
      let src ← insnDst i
      let res ← ins (.bin .urem src imm)
      setDst i res
    else pure ()
  | 0x9f => mod64Reg i
  | 0x47 => alu64Imm .bor i | 0x4f => alu64Reg .bor i
  | 0x57 => alu64Imm .band i | 0x5f => alu64Reg .band i
  | 0x67 => alu64Imm .ishl i | 0x6f => alu64Reg .ishl i
  | 0x77 => alu64Imm .ushr i | 0x7f => alu64Reg .ushr i
  | 0x87 => do
    let src ← insnDst i
    let res ← ins (.un .ineg src)
    setDst i res
  | 0xa7 => alu64Imm .bxor i | 0xaf => alu64Reg .bxor i
  | 0xb7 => do
    let imm ← insnImm64 i
    defVar (← reg i.dst) imm
  | 0xbf => do
    let src ← insnSrc i
    defVar (← reg i.dst) src
  | 0xc7 => alu64Imm .sshr i | 0xcf => alu64Reg .sshr i
  -- BPF_JMP & BPF_JMP32 class
  | 0x05 => do
    let target ← lift (targetPc pc i)
    emit (.jump target)
  | 0x85 => callArm helpers i
  | 0x8d => throw .panic                                        -- TAIL_CALL: `unimplemented!()`
  | 0x95 => do
    let ret ← useVar 0
    emit (.ret ret)
  | opc =>
    if isCondJump opc then condJump pc i
    else throw .panic                                           -- `unimplemented!("inst: {:?}", insn)`

/-- the ops of one instruction, or how the translation fails there -/
def armR (helpers : Nat → Bool) (p : Bytes) (pc : Nat) (i : Insn) : Except Fail (List Op) :=
  (armB helpers p pc i).run'

/-- the ops `translate_program` emits for the instruction at slot `pc`; `none`: `Err` or panic -/
def arm (helpers : Nat → Bool) (p : Bytes) (pc : Nat) (i : Insn) : Option (List Op) :=
  (armR helpers p pc i).toOption

/-! ### `build_function_prelude` -/

/-- the entry block: the stack slot's addresses, the ends of the two memory areas, R1 and R2, then `jump` to the block
    of instruction 0.  (The helper declarations add no instruction.) -/
def preludeB : B Unit := do
  let stackAddr ← ins (.stackAddr 512)
  defVar 10 stackAddr
  let stackStart ← ins (.stackAddr 0)
  defVar vStackStart stackStart
  let stackEnd ← ins (.stackAddr 512)
  defVar vStackEnd stackEnd
  let memStart := Arg.param 0
  let memLen := Arg.param 1
  let memEnd ← ins (.bin .iadd memStart memLen)
  defVar vMemStart memStart
  defVar vMemEnd memEnd
  let mbufStart := Arg.param 2
  let mbufLen := Arg.param 3
  let mbufEnd ← ins (.bin .iadd mbufStart mbufLen)
  defVar vMbufStart mbufStart
  defVar vMbufEnd mbufEnd
  let mbufExists ← ins (.icmpImm .ne mbufLen 0)
  let memOrMbuf ← ins (.select mbufExists mbufStart memStart)
  defVar 1 memOrMbuf
  let memOrMbufLen ← ins (.select mbufExists mbufLen memLen)
  defVar 2 memOrMbufLen
  emit (.jump 0)

def prelude : List Op :=
  match preludeB.run' with
  | .ok l => l
  | .error _ => []

/-! ### `build_cfg` and the whole program -/

/-- the instruction starts in the order both loops (`build_cfg`, `translate_program`) visit them: a `LD_DW_IMM`
    takes two slots.  `get_insn` panics on an incomplete last slot. -/
def sweep (p : Bytes) : Nat → Nat → Except Fail (List (Nat × Insn))
  | 0, _ => .ok []
  | fuel + 1, pc =>
    if pc * 8 < p.size then
      match getInsn? p pc with
      | none => .error .panic
      | some i => (sweep p fuel (pc + (if i.opc = 0x18 then 2 else 1))).map ((pc, i) :: ·)
    else .ok []

def insns (p : Bytes) : Except Fail (List (Nat × Insn)) := sweep p (p.size / 8 + 1) 0

/-- sorted insertion without duplicates (`BTreeMap::entry(..).or_insert_with`) -/
def insertPc (x : Nat) : List Nat → List Nat
  | [] => [x]
  | y :: ys => if x < y then x :: y :: ys else if x = y then y :: ys else y :: insertPc x ys

/-- the keys `build_cfg` adds to `insn_blocks` for one instruction -/
def cfgStep (acc : List Nat) : Nat × Insn → Except Fail (List Nat)
  | (pc, i) =>
    let opc := i.opc.toNat
    if isJump opc then (targetPc pc i).map fun t => insertPc t (insertPc (pc + 1) acc)   -- `prepare_jump_blocks`
    else if opc = 0x95 ∨ opc = 0x8d then .ok (insertPc (pc + 1) acc)
    else .ok acc

/-- `build_cfg`: the keys of `insn_blocks` after it -/
def buildCfg (p : Bytes) : Except Fail (List Nat) := do
  let is ← insns p
  is.foldlM cfgStep []

/-- the keys of `insn_blocks` after `build_function_prelude` (which adds 0) -/
def blockStartsR (p : Bytes) : Except Fail (List Nat) := (buildCfg p).map (insertPc 0)

/-- the pcs that get a Cranelift block (`[]` when `build_cfg` panics) -/
def blockStarts (p : Bytes) : List Nat :=
  match blockStartsR p with
  | .ok l => l
  | .error _ => []

/-- the instructions that fill their block (`self.filled_blocks.insert(..)`) -/
def fillsBlock (opc : Nat) : Bool := opc = 0x05 || opc = 0x95 || isCondJump opc

/-- one iteration of the loop of `translate_program`, with the `jump` the *next* iteration inserts when it finds a
    block of its own and the current one still open (it is emitted under this instruction's source location) -/
def translateStep (helpers : Nat → Bool) (p : Bytes) (blocks : List Nat) : Nat × Insn → Except Fail (Nat × List Op)
  | (pc, i) => do
    let ops ← armR helpers p pc i
    let next := pc + (if i.opc = 0x18 then 2 else 1)
    let fall := next * 8 < p.size && blocks.contains next && !fillsBlock i.opc.toNat
    pure (pc, if fall then ops ++ [.jump next] else ops)

/-- `build_cfg; build_function_prelude; translate_program` -/
def translateR (helpers : Nat → Bool) (p : Bytes) : Except Fail (List (Nat × List Op)) := do
  let blocks ← blockStartsR p
  let is ← insns p
  is.mapM (translateStep helpers p blocks)

/-- per instruction start the ops of the program's blocks; `none`: `Err` or a panic of `cranelift.rs` itself -/
def translate (p : Bytes) (helpers : Nat → Bool) : Option (List (Nat × List Op)) :=
  (translateR helpers p).toOption

/-! ### What Cranelift accepts

`compile_function` hands the function to `define_function(..).unwrap()`.  Observed (not derived from rbpf's source):
it panics when a block that was entered has no terminator — the program's last instruction is not `exit`, `ja` or a
conditional jump — or when a branch refers to a block that never got an instruction: a target that is not an
instruction start (the second slot of a wide load, or a position at or beyond the end).  The program entry is such
a target of the prelude's `jump`, so the empty program is refused as well. -/

def branchTargets : Op → List Nat
  | .brif _ t f => [t, f]
  | .jump t => [t]
  | _ => []

def blocksFilled (tr : List (Nat × List Op)) : Bool :=
  let starts := tr.map (·.1)
  (match tr.getLast? with
   | some (_, ops) => (match ops.getLast? with | some o => o.isTerminator | none => false)
   | none => false) &&
  (prelude ++ tr.flatMap (·.2)).all (fun o => (branchTargets o).all starts.contains)

/-- the outcome of `compile_function` up to and including `define_function` -/
def compileR (helpers : Nat → Bool) (p : Bytes) : Except Fail (List (Nat × List Op)) := do
  let tr ← translateR helpers p
  if blocksFilled tr then pure tr else throw .panic

end Rbpf.ClifAst
