/-
  Vocabulary of the simulation between the x86-64 machine (`X86`) running the JIT's output and the
  register-transfer description of that output (`EngineSem.jitExec`, which `C03_step` relates to the
  interpreter): where eBPF registers live, how the eBPF-visible memory sits inside the machine's memory, what
  "the code of one arm is at this address" means, and the shape of a per-instruction simulation statement.
  Definitions only; the lemmas are in `Lemmas/X86Sim*.lean`, the property-level theorems in `Props/C03.lean`.
-/
import RbpfModel.Model.X86
import RbpfModel.Model.JitAst
import RbpfModel.Model.EngineSem
namespace Rbpf.JitSim
open Rbpf.X86 (Cfg St Out Instr step readMem writeMem)
open Rbpf.JitAst (AI Tgt checkSeq)

/-- `REGISTER_MAP`: eBPF register `k` lives in x86 register `regOf k` -/
def regOf (k : Nat) : Nat := JitEmit.registerMap.getD k 0

/-- exactly `n` instructions, each of which continues -/
def stepsN (c : Cfg) : Nat → St → Option St
  | 0, s => some s
  | n + 1, s =>
    match step c s with
    | .next s' => stepsN c n s'
    | _ => none

/-- the address ranges of two regions do not intersect (an empty region intersects nothing) -/
def disjoint (r q : Region) : Prop :=
  r.bytes.size = 0 ∨ q.bytes.size = 0 ∨ r.base + r.bytes.size ≤ q.base ∨ q.base + q.bytes.size ≤ r.base

/-- The machine's memory against the eBPF-visible memory `m`: first the native frame — the 512-byte eBPF stack at
    its own address followed by the 56 bytes the prologue's pushes and the caller's return address occupy —, then
    metadata, packet and the registered ranges exactly as in `m`, last the native stack below the frame (at least 64
    bytes: the deepest push sequence of one arm needs 24).  All ranges are pairwise disjoint and end below 2^64. -/
def MemRel (xm : List Region) (m : Memory) : Prop :=
  ∃ frame lower : Region,
    xm = frame :: m.mbuff :: m.mem :: (m.extra ++ [lower]) ∧
    frame.base = m.stack.base ∧ m.stack.bytes.size = 512 ∧ frame.bytes.size = 568 ∧
    (∀ k, k < 512 → frame.bytes[k]? = m.stack.bytes[k]?) ∧
    lower.base + lower.bytes.size = frame.base ∧ 64 ≤ lower.bytes.size ∧
    xm.Pairwise disjoint ∧ (∀ r ∈ xm, r.base + r.bytes.size < 2 ^ 64)

/-- machine state `σ` represents eBPF state `s` between two arms, at any depth of eBPF-to-eBPF calls (`rip` is stated
    separately): registers through the map, memory as above, x86 r10 = packet base; every active local call occupies
    six 8-byte slots of the native stack (r10, rbx, r13, r14, r15 and the return address: `emit_local_call`), so rsp
    is 8 + 48·depth bytes below the eBPF stack, and the slot it points at holds the return address `retAddr` of the
    current activation (the prologue's landing pad at depth 0); at least 64 bytes of native stack remain below rsp -/
structure Rel0 (retAddr : Nat) (σ : St) (s : State) : Prop where
  regs : ∀ k, k < 11 → σ.get (regOf k) = s.reg.getD k 0
  mem : MemRel σ.mem s.mem
  pkt : σ.get 10 = BitVec.ofNat 64 s.mem.mem.base
  rsp : (σ.get X86.RSP).toNat + 8 + 48 * s.frames.length = s.mem.stack.base
  ret : readMem σ.mem (σ.get X86.RSP).toNat 8 = some (leBytes retAddr 8)
  room : ∃ lower, σ.mem.getLast? = some lower ∧ lower.base + 64 ≤ (σ.get X86.RSP).toNat

/-- the native stack between the current return slot and the eBPF stack: the frames of the callers -/
def CallersKept (σ σ' : St) (s : State) : Prop :=
  ∀ a w, (σ.get X86.RSP).toNat + 8 ≤ a → a + w ≤ s.mem.stack.base → readMem σ'.mem a w = readMem σ.mem a w

/-- the 56 bytes above the eBPF stack (the caller's callee-saved registers pushed by the prologue and its return
    address), which the epilogue pops: no arm may change them -/
def topBytes (σ : St) (s : State) : Option (List (BitVec 8)) := readMem σ.mem (s.mem.stack.base + 512) 56

/-- The simulation statement for one eBPF instruction `i`: whenever its arm's instruction sequence `ais` is what
    the code holds from offset `a` to offset `b` (code addresses stay below 2^63), the machine is at `a` representing `s` (whose `pc` is already past
    `i`, as in `jitStep`), and the register-transfer semantics continue with `s'`, then the machine reaches, in
    finitely many steps, a state representing `s'` with the bytes above the eBPF stack untouched and no external call made — at `b` when control falls through to the next instruction, at
    the location of the arm of `s'.pc` when a jump is taken. -/
def ArmSim (i : Insn) : Prop :=
  ∀ (c : Cfg) (tgt : Tgt → Option Nat) (haddr : Nat → Option Nat) (pc n a b retAddr : Nat) (ais : List AI)
    (σ : St) (env : Env) (s s' : State),
    JitAst.arm haddr pc i (getInsn? env.prog (pc + 1)) = .ok (ais, n) →
    checkSeq c.code tgt a ais = some b →
    c.codeBase + b < 2 ^ 63 →
    σ.rip = c.codeBase + a →
    Rel0 retAddr σ s → s.pc = pc + 1 →
    EngineSem.jitExec env s i = .next s' →
    ∃ k σ', stepsN c k σ = some σ' ∧ Rel0 retAddr σ' s' ∧ topBytes σ' s' = topBytes σ s ∧
      σ'.log = σ.log ∧ σ'.misaligned = σ.misaligned ∧ s'.log = s.log ∧
      s'.frames = s.frames ∧ CallersKept σ σ' s ∧
      ((s'.pc = pc + n ∧ σ'.rip = c.codeBase + b) ∨
       (∃ l, tgt (.pc (s'.pc : Int)) = some l ∧ σ'.rip = c.codeBase + l))

-- opcode classes (the partition the simulation lemmas are proved by) ------------------------------------------

/-- register/immediate arithmetic without multiplication/division, moves, negation, shifts, byte swaps, `lddw` -/
def aluOpcodes : List Nat :=
  [0x07, 0x0f, 0x17, 0x1f, 0x47, 0x4f, 0x57, 0x5f, 0x67, 0x6f, 0x77, 0x7f, 0x87, 0xa7, 0xaf, 0xb7, 0xbf, 0xc7, 0xcf,
   0x04, 0x0c, 0x14, 0x1c, 0x44, 0x4c, 0x54, 0x5c, 0x64, 0x6c, 0x74, 0x7c, 0x84, 0xa4, 0xac, 0xb4, 0xbc, 0xc4, 0xcc,
   0xd4, 0xdc, 0x18]

/-- multiplication, division, remainder (32 and 64 bit, immediate and register) -/
def mulDivOpcodes : List Nat := [0x24, 0x2c, 0x34, 0x3c, 0x94, 0x9c, 0x27, 0x2f, 0x37, 0x3f, 0x97, 0x9f]

/-- `ja` and the 44 conditional jumps -/
def jumpOpcodes : List Nat :=
  [0x05,
   0x15, 0x1d, 0x25, 0x2d, 0x35, 0x3d, 0xa5, 0xad, 0xb5, 0xbd, 0x45, 0x4d, 0x55, 0x5d, 0x65, 0x6d, 0x75, 0x7d, 0xc5, 0xcd, 0xd5, 0xdd,
   0x16, 0x1e, 0x26, 0x2e, 0x36, 0x3e, 0xa6, 0xae, 0xb6, 0xbe, 0x46, 0x4e, 0x56, 0x5e, 0x66, 0x6e, 0x76, 0x7e, 0xc6, 0xce, 0xd6, 0xde]

/-- loads, stores, atomic adds, packet loads -/
def memOpcodes : List Nat :=
  [0x61, 0x69, 0x71, 0x79, 0x62, 0x6a, 0x72, 0x7a, 0x63, 0x6b, 0x73, 0x7b, 0xc3, 0xdb,
   0x20, 0x28, 0x30, 0x38, 0x40, 0x48, 0x50, 0x58]

end Rbpf.JitSim
