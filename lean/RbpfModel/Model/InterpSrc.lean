/-
  The *source-shaped* state of `src/interpreter.rs::execute_program` and the primitive operations the translated control
  skeleton (`Generated/InterpCtl.lean`, written by `checklib/gen_interp_ctl.py` from the current source on every run) is
  expressed in.  Unlike `Interp.State` (a list of live frames plus a vector of frame sizes) this state is what the Rust
  locals are: `reg`, `insn_ptr`, `stack_frame_idx` and the array `stacks : [StackFrame; MAX_CALL_DEPTH]` whose dead
  entries keep their old contents.  `Lemmas/InterpCtl*.lean` / `Props/InterpCtl.lean` prove that `Interp.step` is a correct
  abstraction of the translated skeleton (`abs`).

  What is written by hand here is the meaning of the Rust constructs the translator emits (the same role as the emission
  rules of `gen_interp.py`): overflow-checked `+ - *` on `usize`/`u64`/`isize` (the harness is built with overflow-checks = true and debug-assertions = true), wrapping `as`
  casts, array indexing with a bounds panic, `?` on `Err`, `return Ok(..)`, and the accessors of `stack.rs::StackFrame`
  (which are one-line field reads and writes).
-/
import RbpfModel.Model.Interp
namespace Rbpf.Src

/-- `stack.rs::StackFrame`; `stackUsage` is `stack_usage.stack_usage()` (Default = LOCAL_FUNCTION_STACK_SIZE) -/
structure SFrame where
  returnAddress : Nat
  savedRegisters : BitVec 64 × BitVec 64 × BitVec 64 × BitVec 64
  stackUsage : Nat
deriving Repr, Inhabited

/-- the mutable locals of `execute_program` (plus the memory and the helper-call log of the model) -/
structure St where
  reg : Vector (BitVec 64) 11
  insnPtr : Nat                              -- `insn_ptr: usize`
  idx : Nat                                  -- `stack_frame_idx`
  stacks : Vector SFrame 8                   -- `[StackFrame; MAX_CALL_DEPTH]`
  mem : Memory
  log : List (Nat × List (BitVec 64))

inductive Res (α : Type)
  | ok (a : α) (σ : St)
  | done (r0 : BitVec 64) (σ : St)           -- `return Ok(r0)`
  | err (e : ErrKind) (σ : St)               -- `Err(..)?`
  | panic
  | fault

def M (α : Type) := St → Res α

@[inline] def M.pure (a : α) : M α := fun σ => .ok a σ
@[inline] def M.bind (m : M α) (f : α → M β) : M β := fun σ =>
  match m σ with
  | .ok a σ' => f a σ'
  | .done r σ' => .done r σ'
  | .err e σ' => .err e σ'
  | .panic => .panic
  | .fault => .fault
instance : Monad M where
  pure := M.pure
  bind := M.bind

-- control ------------------------------------------------------------------------------------------
def raise (e : ErrKind) : M α := fun σ => .err e σ
def panic : M α := fun _ => .panic
def returnOk (r0 : BitVec 64) : M α := fun σ => .done r0 σ

-- the locals -----------------------------------------------------------------------------------------
def getPtr : M Nat := fun σ => .ok σ.insnPtr σ
def setPtr (v : Nat) : M Unit := fun σ => .ok () { σ with insnPtr := v }
def getIdx : M Nat := fun σ => .ok σ.idx σ
def setIdx (v : Nat) : M Unit := fun σ => .ok () { σ with idx := v }
/-- `reg[i]` as an rvalue: index out of bounds panics -/
def getReg (i : Nat) : M (BitVec 64) := fun σ => match σ.reg[i]? with | some v => .ok v σ | none => .panic
/-- `reg[i] = v` -/
def setReg (i : Nat) (v : BitVec 64) : M Unit := fun σ => if i < 11 then .ok () { σ with reg := σ.reg.setIfInBounds i v } else .panic
/-- `stacks[k]` as an rvalue -/
def getFrame (k : Nat) : M SFrame := fun σ => match σ.stacks[k]? with | some f => .ok f σ | none => .panic
/-- `stacks[k]` updated in place -/
def modFrame (k : Nat) (f : SFrame → SFrame) : M Unit := fun σ =>
  match σ.stacks[k]? with | some x => .ok () { σ with stacks := σ.stacks.setIfInBounds k (f x) } | none => .panic

-- stack.rs accessors -----------------------------------------------------------------------------------
/-- `stacks[k].save_registers(&reg[6..=9])` -/
def saveRegisters (k : Nat) : M Unit := do
  let r6 ← getReg 6; let r7 ← getReg 7; let r8 ← getReg 8; let r9 ← getReg 9
  modFrame k fun f => { f with savedRegisters := (r6, r7, r8, r9) }
/-- `reg[6..=9].copy_from_slice(&stacks[k].get_registers())` -/
def restoreRegisters (k : Nat) : M Unit := do
  let f ← getFrame k
  setReg 6 f.savedRegisters.1; setReg 7 f.savedRegisters.2.1; setReg 8 f.savedRegisters.2.2.1; setReg 9 f.savedRegisters.2.2.2
/-- `stacks[k].save_return_address(a)` -/
def saveReturnAddress (k a : Nat) : M Unit := modFrame k fun f => { f with returnAddress := a }
/-- `stacks[k].get_return_address()` -/
def getReturnAddress (k : Nat) : M Nat := do let f ← getFrame k; pure f.returnAddress
/-- `stacks[k].set_stack_usage(u)` -/
def setStackUsage (k u : Nat) : M Unit := modFrame k fun f => { f with stackUsage := u }
/-- `stacks[k].get_stack_usage().stack_usage()` (a `u16`) -/
def getStackUsage (k : Nat) : M Nat := do let f ← getFrame k; pure f.stackUsage

-- integer arithmetic of a debug build ---------------------------------------------------------------------
/-- `a + b` on an unsigned type of `w` bits: overflow panics -/
def addU (w a b : Nat) : M Nat := if a + b < 2 ^ w then pure (a + b) else panic
/-- `a - b` on an unsigned type: underflow panics -/
def subU (a b : Nat) : M Nat := if b ≤ a then pure (a - b) else panic
/-- `a * b` on an unsigned type of `w` bits -/
def mulU (w a b : Nat) : M Nat := if a * b < 2 ^ w then pure (a * b) else panic
/-- `a + b` on a signed type of `w` bits -/
def addS (w : Nat) (a b : Int) : M Int := if -(2 ^ (w - 1) : Int) ≤ a + b ∧ a + b < 2 ^ (w - 1) then pure (a + b) else panic
/-- `x as uN` (wrapping) -/
def asU (w : Nat) (x : Int) : Nat := (x % 2 ^ w).toNat
/-- `x as iN` (wrapping) -/
def asS (w : Nat) (x : Int) : Int := Int.bmod x (2 ^ w)
/-- `x << k` on an unsigned type of `w` bits, `k < w` a literal: high bits are dropped -/
def shlU (w x k : Nat) : Nat := (x * 2 ^ k) % 2 ^ w

-- the rest of the machine ------------------------------------------------------------------------------------
/-- `ebpf::get_insn(prog, i)`: panics when the slot is not inside the program -/
def getInsn (prog : Bytes) (i : Nat) : M Insn := match getInsn? prog i with | some x => pure x | none => panic
/-- `helpers.get(&id)`; the id is kept with the function for the model's call log -/
def lookupHelper (env : Env) (id : Nat) : Option (Nat × HelperFn) := (env.helpers id).map fun f => (id, f)
/-- `function(a1, a2, a3, a4, a5)`: the registered helper is invoked once -/
def invoke (f : Nat × HelperFn) (a1 a2 a3 a4 a5 : BitVec 64) : M (BitVec 64) := fun σ =>
  .ok (f.2 a1 a2 a3 a4 a5) { σ with log := σ.log ++ [(f.1, [a1, a2, a3, a4, a5])] }

end Rbpf.Src
