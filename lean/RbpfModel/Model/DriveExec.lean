/- protocol glue for the `verify` and `exec` suites (not part of any theorem) -/
import RbpfModel.Model.Hex
import RbpfModel.Model.Verifier
import RbpfModel.Model.WellFormed
import RbpfModel.Model.Interp
import RbpfModel.Model.Isa
import RbpfModel.Model.Taint
import RbpfModel.Model.EngineSem
import RbpfModel.Model.Vm
import RbpfModel.Model.JitEmit
import RbpfModel.Model.ClifCompile
import RbpfModel.Model.X86
import RbpfModel.Model.JitAst
namespace Rbpf.Drive
open Rbpf.Hex

def fnv (bs : Array (BitVec 8)) : UInt64 :=
  bs.foldl (fun h b => (h ^^^ (UInt64.ofNat b.toNat)) * 0x100000001b3) 0xcbf29ce484222325

def fnvList (bs : List (BitVec 8)) : UInt64 :=
  bs.foldl (fun h b => (h ^^^ (UInt64.ofNat b.toNat)) * 0x100000001b3) 0xcbf29ce484222325

def u64Hex (x : UInt64) : String := natHex x.toNat 16

/-- the harness' instrumented helper number `n` -/
def mix (n : Nat) : HelperFn := fun a b c d e =>
  (a * 3 + b * 5 + c * 7 + d * 11 + e * 13) ^^^ (BitVec.ofNat 64 (n + 1) * 0x9e3779b97f4a7c15#64)

def kvOf (toks : List String) : List (String × String) :=
  toks.filterMap fun t => match t.splitOn "=" with
    | [k, v] => some (k, v)
    | _ => none

def look (kv : List (String × String)) (k : String) : Option String := (kv.find? (·.1 == k)).map (·.2)

def parseInt? (s : String) : Option Int :=
  if s.startsWith "-" then (s.drop 1).toString.toNat?.map (fun n => - (n : Int)) else s.toNat?.map (fun n => (n : Int))

def listOf (s : String) (sep : String) : List String := if s == "-" then [] else s.splitOn sep

structure ExecCase where
  prog : Bytes
  mem : Bytes
  mbuff : Bytes
  helpers : List (Nat × Nat)
  calcT : Option (Array Nat)
  extra : List Bytes
  arange : List (Nat × Int × Int)
  patch : List (Nat × String × Int)
  budget : Nat
  membase : Nat
  mbuffbase : Nat
  stackbase : Nat
  extrabase : List Nat
  kind : String
  engines : Bool
  fixoff : Nat × Nat
  fixedbase : Nat

def parseExec? (toks : List String) : Option ExecCase := do
  let kv := kvOf toks
  let bytes (k : String) : Option Bytes := match look kv k with | none => some #[] | some v => parseBytes? v
  let helpers ← (listOf ((look kv "helpers").getD "-") ",").mapM fun e => match e.splitOn ":" with
    | [k, f] => do pure ((← parseNat? k), (← f.toNat?))
    | _ => none
  let calcT ← match look kv "calc" with
    | none => some none
    | some "-" => some none
    | some v => do let l ← (v.splitOn ",").mapM parseNat?; pure (some l.toArray)
  let extra ← (listOf ((look kv "extra").getD "-") ";").mapM parseBytes?
  let arange ← (listOf ((look kv "arange").getD "-") ",").mapM fun e => match e.splitOn ":" with
    | [i, lo, hi] => do pure ((← i.toNat?), (← parseInt? lo), (← parseInt? hi))
    | _ => none
  let patch ← (listOf ((look kv "patch").getD "-") ",").mapM fun e => match e.splitOn ":" with
    | [sl, w, d] => do pure ((← sl.toNat?), w, (← parseInt? d))
    | _ => none
  let budget ← match look kv "budget" with | none => some 10000 | some v => v.toNat?
  let nat (k : String) : Option Nat := match look kv k with | none => some 0 | some v => parseNat? v
  let extrabase ← (listOf ((look kv "extrabase").getD "-") ",").mapM parseNat?
  let fixoff ← match look kv "fixoff" with
    | none => some (0, 8)
    | some v => match v.splitOn ":" with | [a, b] => do pure ((← a.toNat?), (← b.toNat?)) | _ => none
  pure { prog := ← bytes "prog", mem := ← bytes "mem", mbuff := ← bytes "mbuff", helpers, calcT, extra, arange, patch, budget,
         membase := ← nat "membase", mbuffbase := ← nat "mbuffbase", stackbase := ← nat "stackbase", extrabase,
         kind := (look kv "kind").getD "mbuff", engines := match look kv "engines" with | none => false | some v => v != "-" && v != "",
         fixoff, fixedbase := ← nat "fixedbase" }

def wrap64 (base : Nat) (d : Int) : Nat := ((base : Int) + d).emod (2 ^ 64) |>.toNat

def applyPatches (c : ExecCase) : Bytes := Id.run do
  let mut p := c.prog
  for (slot, which, delta) in c.patch do
    let base : Nat :=
      if which == "mem" then c.membase else if which == "mbuff" then c.mbuffbase
      else if which.startsWith "extra" then c.extrabase.getD ((which.drop 5).toString.toNat?.getD 0) 0 else 0
    let v := wrap64 base delta
    if (slot + 2) * 8 ≤ p.size then
      for k in [0:4] do
        p := p.setIfInBounds (slot * 8 + 4 + k) (BitVec.ofNat 8 (v >>> (8 * k)))
        p := p.setIfInBounds (slot * 8 + 12 + k) (BitVec.ofNat 8 (v >>> (32 + 8 * k)))
  return p

def errName : ErrKind → String
  | .oob => "oob" | .unaligned => "unaligned" | .unknownHelper => "unknown-helper" | .callDepth => "call-depth"
  | .callType => "call-type" | .tailCall => "tail-call"

def mkEnv (c : ExecCase) (prog : Bytes) : Env :=
  -- `Interp.stackUsage prog calc`, with the key list computed once per case rather than once per step
  let entries := Interp.stackEntries prog
  { prog := prog
    helpers := fun k => (c.helpers.find? (·.1 == k)).map (fun e => mix (e.2 % 4))
    allowed := c.arange.map fun (i, lo, hi) => (wrap64 (c.extrabase.getD i 0) lo, wrap64 (c.extrabase.getD i 0) hi)
    usage := Interp.usageOf entries (c.calcT.map fun t => fun pc => t.getD (pc % t.size) 0) }

/-- the (mem, mbuff) pair each VM kind hands to the interpreter: `Vm.memOf` -/
def mkMem (c : ExecCase) : Memory :=
  let stack : Region := ⟨c.stackbase, Array.replicate 512 0⟩
  let extra := (c.extra.zip c.extrabase).map fun (b, a) => (⟨a, b⟩ : Region)
  let kind : Vm.Kind := if c.kind == "raw" then .raw else if c.kind == "nodata" then .noData else if c.kind == "fixed" then .fixed else .mbuff
  let (d, e) := c.fixoff
  Vm.memOf kind ⟨c.membase, c.mem⟩ ⟨c.mbuffbase, c.mbuff⟩ c.fixedbase (Array.replicate (Vm.fixedBufLen d e) 0) d e stack extra

def detail (c : ExecCase) (s : State) : String :=
  let extraAll := s.mem.extra.foldl (fun acc r => acc ++ r.bytes) (#[] : Bytes)
  let logBytes : List (BitVec 8) := s.log.flatMap fun (k, args) =>
    let n := ((c.helpers.find? (·.1 == k)).map (·.2 % 4)).getD 0
    leBytes n 8 ++ args.flatMap (fun a => leBytes a.toNat 8)
  let mbuffBytes := if c.kind == "mbuff" then s.mem.mbuff.bytes else c.mbuff     -- other kinds: the harness reports its own (unused) buffer
  let memBytes := if c.kind == "nodata" then c.mem else s.mem.mem.bytes
  s!" mem={u64Hex (fnv memBytes)} mbuff={u64Hex (fnv mbuffBytes)} extra={u64Hex (fnv extraAll)} log={s.log.length}:{u64Hex (fnvList logBytes)}"

/-- the machine code of `JitEmit.compile` executed by the x86-64 model (`X86.run`) from the entry state the
    VM kind's `execute_program_jit` creates (System V: rdi metadata pointer, rsi its length, rdx packet pointer or
    null, rcx packet length, r8/r9 the fixed-metadata offsets).  The native stack (saved registers, the 512-byte
    eBPF stack under rbp, pushes below it) is a region of its own; result in the engines' format. -/
def x86Sem (c : ExecCase) (code : Array UInt8) (hfn : List Nat) (m : Memory) : String :=
  let below := 16384
  let dataRegions := m.mbuff :: m.mem :: m.extra
  let hi := dataRegions.foldl (fun acc r => max acc (r.base + r.bytes.size)) 0
  let sb0 := c.stackbase / 16 * 16
  let clash := sb0 < below + 0x200000 || dataRegions.any fun r => r.bytes.size ≠ 0 && r.base < sb0 + 568 && sb0 - below < r.base + r.bytes.size
  let sb := if clash then (hi + 0x100000) / 16 * 16 else sb0
  let entry := sb + 552
  let sentinel : BitVec 64 := 0xfffffffffffffff0#64
  let frame : Region := Memory.writeRegion ⟨sb, Array.replicate 568 0⟩ entry (leBytes sentinel.toNat 8)
  let lower : Region := ⟨sb - below, Array.replicate below 0⟩
  let fns : List (Nat × Nat) := (List.range 12).filterMap fun n => (hfn[n]?).map fun a => (a, n % 4)
  let cfg : X86.Cfg := { code, codeBase := 0x100000, retSentinel := sentinel,
                         ext := fun a => (fns.find? (·.1 == a)).map fun e => (e.2, mix e.2) }
  let memPtr : Nat := if m.mem.bytes.size = 0 then 0 else m.mem.base
  let regs : Vector (BitVec 64) 16 := Vector.replicate 16 0
  let regs := regs.setIfInBounds X86.RDI (BitVec.ofNat 64 m.mbuff.base)
  let regs := regs.setIfInBounds X86.RSI (BitVec.ofNat 64 m.mbuff.bytes.size)
  let regs := regs.setIfInBounds X86.RDX (BitVec.ofNat 64 memPtr)
  let regs := regs.setIfInBounds X86.RCX (BitVec.ofNat 64 m.mem.bytes.size)
  let regs := regs.setIfInBounds 8 (BitVec.ofNat 64 c.fixoff.1)
  let regs := regs.setIfInBounds 9 (BitVec.ofNat 64 c.fixoff.2)
  let regs := regs.setIfInBounds X86.RSP (BitVec.ofNat 64 entry)
  let s0 : X86.St := { reg := regs, rip := cfg.codeBase, flags := none, mem := frame :: (dataRegions ++ [lower]), log := [] }
  match X86.run cfg s0 (40 * c.budget + 200) with
  | .done r0 s =>
    let mbuffR := (s.mem[1]?).getD default
    let memR := (s.mem[2]?).getD default
    let logBytes : List (BitVec 8) := s.log.flatMap fun (n, args) => leBytes n 8 ++ args.flatMap (fun a => leBytes a.toNat 8)
    let mbuffBytes := if c.kind == "mbuff" then mbuffR.bytes else c.mbuff
    let memBytes := if c.kind == "nodata" then c.mem else memR.bytes
    s!"ok:r0={bvHex r0}:mem={u64Hex (fnv memBytes)}:mbuff={u64Hex (fnv mbuffBytes)}:LOG={s.log.length}:{u64Hex (fnvList logBytes)}:mis={s.misaligned}"
  | .fault w => "fault:" ++ w.replace " " "_"
  | .timeout => "timeout"

def handleExec (toks : List String) : String :=
  match parseExec? toks with
  | none => "bad-op"
  | some c =>
    let prog := applyPatches c
    if (look (kvOf toks) "anyprog").isSome then
      -- compile-only cases on arbitrary byte strings (accept-all verifier): the compile models alone
      let hfn : List Nat := ((look (kvOf toks) "hfn").getD "").splitOn "," |>.filterMap parseNat?
      let haddr (k : Nat) : Option Nat := (c.helpers.find? (·.1 == k)).bind fun e => hfn[e.2 % 12]?
      let jc := match JitEmit.compile prog haddr true false with
        | .ok code => s!"{code.size}.{u64Hex (code.foldl (fun (h : UInt64) (b : UInt8) => (h ^^^ b.toUInt64) * 0x100000001b3) 0xcbf29ce484222325)}"
        | .error .err => "err" | .error .panic => "panic"
      let cs := match ClifCompile.compile prog (fun k => (c.helpers.find? (·.1 == k)).isSome) with
        | .ok => "compiled" | .err => "compile-err" | .panic => "compile-panic"
      let js := match JitEmit.compile prog haddr true false with | .ok _ => "compiled" | .error .err => "compile-err" | .error .panic => "compile-panic"
      "noexec" ++ detail c (Interp.init (mkMem c)) ++ s!" | claim=out | jitsem={js} | clifsem={cs} | jitcodesem={jc}"
    else
    match Verifier.check prog with
    | .ok =>
      let env := mkEnv c prog
      let render (r : Interp.Result) : String := match r with
        | .done r s => s!"ok r0={bvHex r}" ++ detail c s
        | .err e s => s!"err:{errName e}" ++ detail c s
        | .panic => "panic"
        | .fault => "fault"
        | .timeout s => "budget" ++ detail c s
      if c.engines then
        -- engine comparison: the taint run decides whether the case is inside the claim of C03/C04/C08/C09
        let ptrSlots := if c.kind == "fixed" then [c.fixedbase + c.fixoff.1, c.fixedbase + c.fixoff.2] else []
        let (t, r) := Taint.run env ptrSlots (c.patch.map (·.1)) c.budget (Taint.init (mkMem c))
        let f7 := (List.range (prog.size / 8)).any fun k => match getInsn? prog k with | some i => Isa.isF7 i | none => false
        let tags := (if f7 then ["f7"] else []) ++ (if t.f16 then ["f16"] else []) ++ (if t.calls > 0 then ["localcall"] else []) ++
                    (if t.helperCalls > 0 then ["helper"] else [])
        let claim := match r with | .done _ _ => (if t.inClaim then "in" else "out") | _ => "out"
        -- what the generated code is modelled to compute (EngineSem), in the harness' engine format
        let forced (e : String) : Bool := ((look (kvOf toks) "force").getD "").splitOn "," |>.contains e
        -- `norun=1`: the harness only compiles; nothing is executed by the engine models either
        let norun : Bool := (look (kvOf toks) "norun").isSome
        let eng (name : String) (comp : EngineSem.Compile) (res : Unit → Interp.Result) : String :=
          match comp with
          | .err => "compile-err"
          | .panic => "compile-panic"
          | .ok => match (match r with | .done _ _ => !norun | _ => !norun && forced name) with
            | true => (match res () with
              | .done r0 s =>
                let d := detail c s
                -- " mem=A mbuff=B extra=C log=N:D"  ->  "ok:r0=..:mem=A:mbuff=B:LOG=N:D"
                let parts := (d.trimAscii.toString.splitOn " ").filter (· ≠ "")
                let get (k : String) : String := ((parts.find? (·.startsWith (k ++ "="))).map (fun x => (x.drop (k.length + 1)).toString)).getD ""
                s!"ok:r0={bvHex r0}:mem={get "mem"}:mbuff={get "mbuff"}:LOG={get "log"}"
              | .err _ _ => "trap"
              | .panic => "panic" | .fault => "fault" | .timeout _ => "timeout")
            | false => "compiled"
        let m0 := Interp.init (mkMem c)
        -- byte-exact emitter model: length and digest of the machine code (helper addresses as echoed by the harness)
        let hfn : List Nat := ((look (kvOf toks) "hfn").getD "").splitOn "," |>.filterMap parseNat?
        let haddr (k : Nat) : Option Nat := (c.helpers.find? (·.1 == k)).bind fun e => hfn[e.2 % 12]?
        let (um, ud) := if c.kind == "mbuff" then (true, false) else if c.kind == "fixed" then (true, true) else (false, false)
        let compiled := JitEmit.compile prog haddr um ud
        let jitcode := match compiled with
          | .ok code => s!"{code.size}.{u64Hex (code.foldl (fun (h : UInt64) (b : UInt8) => (h ^^^ b.toUInt64) * 0x100000001b3) 0xcbf29ce484222325)}"
          | .error .err => "err"
          | .error .panic => "panic"
        -- the same bytes run by the x86-64 model (only when the real engines run the code: the interpreter returned a value)
        -- instruction-level description checked against the same bytes (JitAst.validate)
        let x86valid := match JitEmit.compileWithLayout prog haddr um ud with
          | .ok (code, locs, ex) => if JitAst.validate prog haddr um ud code { pcLocs := locs, exitLoc := ex } then "1" else "0"
          | .error _ => "-"
        let x86sem := match compiled, r with
          | .ok code, .done _ _ => if norun then "compiled" else x86Sem c code hfn (mkMem c)
          | .ok _, _ => "compiled"
          | .error .err, _ => "compile-err"
          | .error .panic, _ => "compile-panic"
        -- `again=L`: a second execution on the same VM with the packet cut to its first L bytes.  The probes that carry it store
        -- only to the private stack, so the second execution starts from the same buffers (C09: on EVERY execution the
        -- fixed-metadata slots describe the packet of that execution)
        let againS := match (look (kvOf toks) "again").bind (·.toNat?) with
          | some l2 =>
            if l2 ≤ c.mem.size then
              let c2 := { c with mem := c.mem.extract 0 l2 }
              let (t2, r2) := Taint.run env ptrSlots (c.patch.map (·.1)) c.budget (Taint.init (mkMem c2))
              let s2 := match r2 with
                | .done v _ => s!"ok:r0={bvHex v}"
                | .err e _ => s!"err:{errName e}"
                | .panic => "panic" | .fault => "fault" | .timeout _ => "budget"
              " | againsem=" ++ s2 ++ " | claim2=" ++ (match r2 with | .done _ _ => (if t2.inClaim then "in" else "out") | _ => "out")
            else ""
          | none => ""
        render r ++ againS ++ " | claim=" ++ claim ++ (if tags.isEmpty then "" else " | tags=" ++ ",".intercalate tags) ++
          " | jitsem=" ++ eng "jit" (EngineSem.jitCompile env) (fun _ => EngineSem.jitRun env m0 c.budget) ++
          " | clifsem=" ++ eng "clif" (EngineSem.clifCompile env) (fun _ => EngineSem.clifRun env m0 c.budget) ++ " | jitcodesem=" ++ jitcode ++ " | x86sem=" ++ x86sem ++ " | x86valid=" ++ x86valid
      else
      let m := render (Interp.run env (Interp.init (mkMem c)) c.budget)
      if (look (kvOf toks) "spec") == some "isa" then
        let f7 := (List.range (prog.size / 8)).any fun k => match getInsn? prog k with | some i => Isa.isF7 i | none => false
        m ++ " | spec=" ++ render (Isa.run env (Interp.init (mkMem c)) c.budget) ++ (if f7 then " | tags=f7" else "")
      else m
    | _ => "rejected"

def vres : Verifier.VRes → String | .ok => "ok" | .err => "err" | .panic => "panic"

def handleVerify (prog : String) : String :=
  match parseBytes? prog with
  | none => "bad-op"
  | some p =>
    let r := vres (Verifier.check p)
    -- the declarative oracle is quadratic in the number of jumps and calls (membership of the target in the list of instruction
    -- starts); evaluated for programs up to 4096 slots and for longer ones with at most 64 jumps / calls (the length-limit cases)
    let jumps := (List.range (p.size / 8)).foldl (fun n k => if WF.isJump (p.getD (8 * k) 0) || WF.isCall (p.getD (8 * k) 0) then n + 1 else n) 0
    if p.size ≤ 8 * 4096 || jumps ≤ 64 then r ++ " | spec=" ++ (if decide (WellFormed p) then "ok" else "err") else r

end Rbpf.Drive
