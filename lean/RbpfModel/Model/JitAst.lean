/-
  The JIT's output at the level of x86-64 instructions: for every eBPF instruction the sequence of `X86.Instr`
  its arm of `jit_compile` emits (jump targets still symbolic), the prologue per VM kind and the epilogue; and
  `validate`, a checker that decodes a machine-code buffer with `X86.decode` and compares it, instruction by
  instruction, with those sequences laid out at the addresses of a location table.

  `validate` is run by the driver on the bytes of `JitEmit.compile` for every program of the engine suites
  (and those bytes are compared with the real JIT's through the hook), so the instruction-level description
  is tied to the code the same way the byte-level one is.  The simulation theorems (`Lemmas/X86Sim*`,
  `Props/C03.lean`) are stated over these sequences.
-/
import RbpfModel.Model.X86
import RbpfModel.Model.JitEmit
namespace Rbpf.JitAst
open Rbpf.X86 (Instr AluOp ShOp Cc)
open Rbpf.JitEmit (Fail mapRegister? targetPcExit rexWouldSetBits)

/-- a jump target before layout: the arm of eBPF instruction `t`, or the epilogue -/
inductive Tgt | pc (t : Int) | exit deriving DecidableEq, Repr

inductive AI
  | i (x : Instr)                     -- anything whose bytes do not depend on the layout (incl. fixed-distance `jcc`)
  | jcc (cc : Cc) (t : Tgt) | jmp (t : Tgt) | call (t : Tgt)
deriving DecidableEq, Repr

-- x86 register numbers used besides the mapped ones
def RAX := 0
def RCX := 1
def RDX := 2
def RBX := 3
def RSP := 4
def RBP := 5
def RSI := 6
def RDI := 7
def R8 := 8
def R9 := 9
def R10 := 10
def R11 := 11
def R13 := 13
def R14 := 14
def R15 := 15

/-- `emit_load_imm(dst, imm: i64)` -/
def loadImm (dst : Nat) (imm : Int) : Instr :=
  if -2147483648 ≤ imm ∧ imm ≤ 2147483647 then .aluRI true .mov dst (BitVec.ofInt 32 imm) else .movabs dst (BitVec.ofInt 64 imm)

def movRR (src dst : Nat) : Instr := .aluRR true .mov src dst

/-- `emit_muldivmod` -/
def muldivmod (pc : Nat) (opc src dst : Nat) (imm : BitVec 32) : List AI :=
  let mul := (opc &&& 0xf0) = 0x20
  let div := (opc &&& 0xf0) = 0x30
  let md := (opc &&& 0xf0) = 0x90
  let is64 := (opc &&& 0x07) = 0x07
  let isReg := (opc &&& 0x08) = 0x08
  if (div ∨ mul) ∧ ¬ isReg ∧ imm = 0 then [.i (.aluRR false .xor dst dst)]
  else if md ∧ ¬ isReg ∧ imm = 0 then []
  else
    (if (div ∨ md) ∧ isReg then
      [AI.i (loadImm RCX (pc : Int)), .i (.aluRR is64 .test src src)] ++
      (if div then [AI.i (.jcc .ne (BitVec.ofNat 32 (if rexWouldSetBits 0 dst dst then 8 else 7))), .i (.aluRR false .xor dst dst), .jmp (.pc (pc + 1))] else []) ++
      (if md then [AI.jcc .e (.pc (pc + 1))] else [])
     else []) ++
    (if dst ≠ RAX then [AI.i (.push RAX)] else []) ++
    (if dst ≠ RDX then [AI.i (.push RDX)] else []) ++
    [AI.i (if ¬ isReg then loadImm RCX imm.toInt else movRR src RCX), .i (movRR dst RAX)] ++
    (if div ∨ md then [AI.i (.aluRR false .xor RDX RDX)] else []) ++
    [AI.i (if mul then .mul is64 RCX else .div is64 RCX)] ++
    (if dst ≠ RDX then (if md then [AI.i (movRR RDX dst)] else []) ++ [AI.i (.pop RDX)] else []) ++
    (if dst ≠ RAX then (if div ∨ mul then [AI.i (movRR RAX dst)] else []) ++ [AI.i (.pop RAX)] else [])

/-- `emit_load_packet`: `[base + zero-extended imm]` into RAX -/
def loadPacket (sz base : Nat) (imm : BitVec 32) : List AI :=
  if 0 ≤ imm.toInt then [.i (.load sz RAX base imm.toInt)]
  else [.i (loadImm RCX (imm.toNat : Int)), .i (.aluRR true .add base RCX), .i (.load sz RAX RCX 0)]

/-- the immediate a `storeI` of `sz` bits carries once decoded -/
def storeImm (sz : Nat) (imm : BitVec 32) : BitVec 32 :=
  if sz = 8 then imm &&& 0xff#32 else if sz = 16 then imm &&& 0xffff#32 else imm

/-- the arm of `jit_compile` for instruction `i` at index `pc`, as instructions; second component: slots consumed -/
def arm (helperAddr : Nat → Option Nat) (pc : Nat) (i : Insn) (next : Option Insn) : Except Fail (List AI × Nat) :=
  match mapRegister? i.dst.toNat, mapRegister? i.src.toNat with
  | none, _ => .error .panic
  | _, none => .error .panic
  | some dst, some src =>
    let opc := i.opc.toNat
    let imm := i.imm
    let off : Int := i.off.toInt
    let t : Tgt := .pc ((pc : Int) + off + 1)
    let ok (l : List AI) : Except Fail (List AI × Nat) := .ok (l, 1)
    let one (x : Instr) : Except Fail (List AI × Nat) := .ok ([.i x], 1)
    let jImm (w : Bool) (cc : Cc) := ok [.i (.aluRI w .cmp dst imm), .jcc cc t]
    let jReg (w : Bool) (cc : Cc) := ok [.i (.aluRR w .cmp src dst), .jcc cc t]
    let ldAbs (sz : Nat) := ok (loadPacket sz R10 imm)
    let ldInd (sz : Nat) := ok ([.i (movRR R10 R11), .i (.aluRR true .add src R11)] ++ loadPacket sz R11 imm)
    let shReg (w : Bool) (s : ShOp) := ok [.i (movRR src RCX), .i (.shiftCl w s dst)]
    let shImm (w : Bool) (s : ShOp) := one (.shiftI (if w then 64 else 32) s dst (imm.toNat % 256))
    match opc with
    | 0x30 => ldAbs 8 | 0x28 => ldAbs 16 | 0x20 => ldAbs 32 | 0x38 => ldAbs 64
    | 0x50 => ldInd 8 | 0x48 => ldInd 16 | 0x40 => ldInd 32 | 0x58 => ldInd 64
    | 0x18 =>
      match next with
      | none => .error .panic
      | some nx => .ok ([.i (loadImm dst (nx.imm ++ i.imm).toInt)], 2)
    | 0x71 => one (.load 8 dst src off) | 0x69 => one (.load 16 dst src off)
    | 0x61 => one (.load 32 dst src off) | 0x79 => one (.load 64 dst src off)
    | 0x72 => one (.storeI 8 dst off (storeImm 8 imm)) | 0x6a => one (.storeI 16 dst off (storeImm 16 imm))
    | 0x62 => one (.storeI 32 dst off imm) | 0x7a => one (.storeI 64 dst off imm)
    | 0x73 => one (.store 8 src dst off) | 0x6b => one (.store 16 src dst off)
    | 0x63 => one (.store 32 src dst off) | 0x7b => one (.store 64 src dst off)
    | 0xc3 => one (.lockAdd false src dst off) | 0xdb => one (.lockAdd true src dst off)
    -- BPF_ALU
    | 0x04 => one (.aluRI false .add dst imm) | 0x0c => one (.aluRR false .add src dst)
    | 0x14 => one (.aluRI false .sub dst imm) | 0x1c => one (.aluRR false .sub src dst)
    | 0x24 | 0x2c | 0x34 | 0x3c | 0x94 | 0x9c => ok (muldivmod pc opc src dst imm)
    | 0x44 => one (.aluRI false .or dst imm) | 0x4c => one (.aluRR false .or src dst)
    | 0x54 => one (.aluRI false .and dst imm) | 0x5c => one (.aluRR false .and src dst)
    | 0x64 => shImm false .shl | 0x6c => shReg false .shl
    | 0x74 => shImm false .shr | 0x7c => shReg false .shr
    | 0x84 => one (.neg false dst)
    | 0xa4 => one (.aluRI false .xor dst imm) | 0xac => one (.aluRR false .xor src dst)
    | 0xb4 => one (.aluRI false .mov dst imm) | 0xbc => one (.aluRR false .mov src dst)
    | 0xc4 => shImm false .sar | 0xcc => shReg false .sar
    | 0xd4 =>
      if imm = 16 then one (.aluRI false .and dst 0xffff#32) else if imm = 32 then one (.aluRR false .mov dst dst)
      else if imm = 64 then ok [] else .error .panic
    | 0xdc =>
      if imm = 16 then ok [.i (.shiftI 16 .rol dst 8), .i (.aluRI false .and dst 0xffff#32)]
      else if imm = 32 then one (.bswap false dst) else if imm = 64 then one (.bswap true dst)
      else .error .panic
    -- BPF_ALU64
    | 0x07 => one (.aluRI true .add dst imm) | 0x0f => one (.aluRR true .add src dst)
    | 0x17 => one (.aluRI true .sub dst imm) | 0x1f => one (.aluRR true .sub src dst)
    | 0x27 | 0x2f | 0x37 | 0x3f | 0x97 | 0x9f => ok (muldivmod pc opc src dst imm)
    | 0x47 => one (.aluRI true .or dst imm) | 0x4f => one (.aluRR true .or src dst)
    | 0x57 => one (.aluRI true .and dst imm) | 0x5f => one (.aluRR true .and src dst)
    | 0x67 => shImm true .shl | 0x6f => shReg true .shl
    | 0x77 => shImm true .shr | 0x7f => shReg true .shr
    | 0x87 => one (.neg true dst)
    | 0xa7 => one (.aluRI true .xor dst imm) | 0xaf => one (.aluRR true .xor src dst)
    | 0xb7 => one (loadImm dst imm.toInt) | 0xbf => one (movRR src dst)
    | 0xc7 => shImm true .sar | 0xcf => shReg true .sar
    -- BPF_JMP
    | 0x05 => ok [.jmp t]
    | 0x15 => jImm true .e | 0x1d => jReg true .e | 0x25 => jImm true .a | 0x2d => jReg true .a
    | 0x35 => jImm true .ae | 0x3d => jReg true .ae | 0xa5 => jImm true .b | 0xad => jReg true .b
    | 0xb5 => jImm true .be | 0xbd => jReg true .be
    | 0x45 => ok [.i (.aluRI true .test dst imm), .jcc .ne t] | 0x4d => ok [.i (.aluRR true .test src dst), .jcc .ne t]
    | 0x55 => jImm true .ne | 0x5d => jReg true .ne | 0x65 => jImm true .g | 0x6d => jReg true .g
    | 0x75 => jImm true .ge | 0x7d => jReg true .ge | 0xc5 => jImm true .l | 0xcd => jReg true .l
    | 0xd5 => jImm true .le | 0xdd => jReg true .le
    -- BPF_JMP32
    | 0x16 => jImm false .e | 0x1e => jReg false .e | 0x26 => jImm false .a | 0x2e => jReg false .a
    | 0x36 => jImm false .ae | 0x3e => jReg false .ae | 0xa6 => jImm false .b | 0xae => jReg false .b
    | 0xb6 => jImm false .be | 0xbe => jReg false .be
    | 0x46 => ok [.i (.aluRI false .test dst imm), .jcc .ne t] | 0x4e => ok [.i (.aluRR false .test src dst), .jcc .ne t]
    | 0x56 => jImm false .ne | 0x5e => jReg false .ne | 0x66 => jImm false .g | 0x6e => jReg false .g
    | 0x76 => jImm false .ge | 0x7e => jReg false .ge | 0xc6 => jImm false .l | 0xce => jReg false .l
    | 0xd6 => jImm false .le | 0xde => jReg false .le
    | 0x85 =>
      if i.src = 0 then
        match helperAddr i.imm.toNat with
        | some addr => ok [.i (.push R10), .i (movRR R9 RCX), .i (loadImm RAX (BitVec.ofNat 64 addr).toInt), .i (.callReg RAX), .i (.pop R10)]
        | none => .error .err
      else if i.src = 1 then
        ok [.i (.push R10), .i (.push RBX), .i (.push R13), .i (.push R14), .i (.push R15), .call (.pc ((pc : Int) + imm.toInt + 1)),
            .i (.pop R15), .i (.pop R14), .i (.pop R13), .i (.pop RBX), .i (.pop R10)]
      else .error .err
    | 0x8d => .error .panic
    | 0x95 => one .ret
    | _ => .error .err

/-- the prologue for (use_mbuff, update_data_ptr) -/
def prologue (useMbuff updateDataPtr : Bool) : List AI :=
  [.i (.push RBP), .i (.push RBX), .i (.push R13), .i (.push R14), .i (.push R15), .i (movRR RDX R10)] ++
  (if ¬ useMbuff then [AI.i (movRR RDX RDI)]
   else if ¬ updateDataPtr then [AI.i (.aluRR true .test RSI RSI), .i (.cmovz RDI RDX)]
   else [AI.i (.aluRR true .add RDI R8), .i (.store 64 RDX R8 0), .i (movRR RDX R8), .i (.aluRR true .add RCX R8),
         .i (.aluRR true .add RDI R9), .i (.store 64 R8 R9 0)]) ++
  [.i (movRR RSP RBP), .i (.aluRI true .sub RSP 512#32), .i (.call 5#32), .jmp .exit]

def epilogue : List AI :=
  [.i (.aluRI true .add RSP 512#32), .i (.pop R15), .i (.pop R14), .i (.pop R13), .i (.pop RBX), .i (.pop RBP), .i .ret]

-- ---------------------------------------------------------------------------------------------------------
-- the checker

/-- where things are in a code buffer (offsets from its first byte) -/
structure Layout where
  pcLocs : Array Nat
  exitLoc : Nat

def window (code : Array UInt8) (a : Nat) : List Nat := (List.range 15).filterMap fun k => (code[a + k]?).map (·.toNat)

/-- the code at offset `a` decodes to exactly the instructions `ais`, each jump landing on its target; returns the end offset -/
def checkSeq (code : Array UInt8) (tgt : Tgt → Option Nat) : Nat → List AI → Option Nat
  | a, [] => some a
  | a, ai :: rest =>
    match X86.decode (window code a) with
    | none => none
    | some (ins, n) =>
      let lands (t : Tgt) (rel : BitVec 32) : Bool :=
        match tgt t with
        | some l => ((a + n : Nat) : Int) + rel.toInt == (l : Int)
        | none => false
      let good : Bool := match ai, ins with
        | .i x, y => x == y
        | .jcc cc t, .jcc cc' rel => cc == cc' && lands t rel
        | .jmp t, .jmp rel => lands t rel
        | .call t, .call rel => lands t rel
        | _, _ => false
      if good then checkSeq code tgt (a + n) rest else none

/-- instruction starts by linear sweep, with the slot count of each -/
def sweep (p : Bytes) : Nat → Nat → List (Nat × Insn)
  | 0, _ => []
  | fuel + 1, pc =>
    if pc * 8 < p.size then
      match getInsn? p pc with
      | some i => (pc, i) :: sweep p fuel (pc + (if i.opc = 0x18 then 2 else 1))
      | none => []
    else []

/-- the code buffer is: prologue, then for every instruction start `pc` the arm's instructions at `pcLocs[pc]`
    ending where the next arm (or the epilogue) begins, then the epilogue up to the end of the buffer; jumps land
    on arms of instruction starts only; every recorded location lies inside the buffer -/
def validate (p : Bytes) (helperAddr : Nat → Option Nat) (useMbuff updateDataPtr : Bool) (code : Array UInt8) (L : Layout) : Bool :=
  let starts := sweep p (p.size / 8 + 1) 0
  let locOf (k : Nat) : Option Nat := if k * 8 < p.size then L.pcLocs[k]? else some L.exitLoc
  let tgt : Tgt → Option Nat
    | .exit => some L.exitLoc
    | .pc t => if 0 ≤ t ∧ starts.any (fun (k, _) => (k : Int) == t) then L.pcLocs[t.toNat]? else none
  L.pcLocs.all (· ≤ code.size) && L.exitLoc ≤ code.size &&
  checkSeq code tgt 0 (prologue useMbuff updateDataPtr) == locOf 0 &&
  starts.all (fun (pc, i) =>
    match arm helperAddr pc i (getInsn? p (pc + 1)), L.pcLocs[pc]? with
    | .ok (ais, n), some a => checkSeq code tgt a ais == locOf (pc + n) && (locOf (pc + n)).isSome
    | _, _ => false) &&
  checkSeq code tgt L.exitLoc epilogue == some code.size

end Rbpf.JitAst
