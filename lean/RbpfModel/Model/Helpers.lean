/-
  Model of the built-in helpers in `src/helpers.rs`: `gather_bytes`, `memfrob`, `strcmp`,
  `bpf_trace_printf` (its return value and the text it prints), `rand`'s range reduction, `sqrti`
  (IEEE-754 double conversion, correctly rounded square root and truncation, in exact integer
  arithmetic).
-/
namespace Rbpf.Helpers

/-- `gather_bytes` -/
def gatherBytes (a1 a2 a3 a4 a5 : BitVec 64) : BitVec 64 :=
  (a1 <<< (32 : Nat)) ||| (a2 <<< (24 : Nat)) ||| (a3 <<< (16 : Nat)) ||| (a4 <<< (8 : Nat)) ||| a5

/-- `memfrob(ptr, len)` on a buffer that starts at address `base`: XOR the `len` bytes at `ptr` with 0x2a.
    `none` = the helper would touch a byte outside the buffer (its pointer precondition is violated). -/
def memfrob (buf : List (BitVec 8)) (base ptr len : Nat) : Option (List (BitVec 8)) :=
  if len = 0 then some buf
  else if base ≤ ptr ∧ ptr + len ≤ base + buf.length then
    some ((List.range buf.length).map fun k => if ptr - base ≤ k ∧ k < ptr - base + len then buf.getD k 0 ^^^ 0x2a else buf.getD k 0)
  else none

/-- the comparison loop of `strcmp` on the bytes found at the two pointers; `none` = ran off the modelled bytes
    (a string without terminating NUL) -/
def strcmpBytes : List (BitVec 8) → List (BitVec 8) → Option (BitVec 64)
  | x :: xs, y :: ys =>
    if x = y ∧ x ≠ 0 then strcmpBytes xs ys
    else some (if y.ule x then (x - y).setWidth 64 else (y - x).setWidth 64)
  | _, _ => none

/-- `strcmp(arg1, arg2)`: all-ones when either pointer is null -/
def strcmp (p1 p2 : Nat) (s1 s2 : List (BitVec 8)) : Option (BitVec 64) :=
  if p1 = 0 ∨ p2 = 0 then some (BitVec.allOnes 64) else strcmpBytes s1 s2

/-- number of hexadecimal digits of `x` as computed by the helper: 1 for 0, else ⌈bit length / 4⌉ -/
def hexLen (x : Nat) : Nat := if x = 0 then 1 else (Nat.log2 x + 1 + 3) / 4

def hexDigit (n : Nat) : Char := if n < 10 then Char.ofNat (48 + n) else Char.ofNat (87 + n)
def hexDigits (n : Nat) : List Char :=
  if _h : n < 16 then [hexDigit n] else hexDigits (n / 16) ++ [hexDigit (n % 16)]
decreasing_by omega

/-- what `bpf_trace_printf` prints: `println!("bpf_trace_printf: {arg3:#x}, {arg4:#x}, {arg5:#x}")` -/
def printfText (a3 a4 a5 : Nat) : List Char :=
  "bpf_trace_printf: 0x".toList ++ hexDigits a3 ++ ", 0x".toList ++ hexDigits a4 ++ ", 0x".toList ++ hexDigits a5 ++ ['\n']

/-- the value `bpf_trace_printf` returns -/
def printfRet (a3 a4 a5 : Nat) : Nat := 29 + hexLen a3 + hexLen a4 + hexLen a5

/-- the range reduction of `rand(min, max)` applied to a raw 64-bit random number `n` -/
def randRange (n min max : Nat) : Nat :=
  if min < max then
    if max - min = 2 ^ 64 - 1 then n else n % (max - min + 1) + min
  else n

-- sqrti ------------------------------------------------------------------------------------------------

/-- `n as f64` for a `u64`: round to nearest, ties to even, to 53 significant bits; the result is the exact
    integer value of the double -/
def toF64 (n : Nat) : Nat :=
  if n < 2 ^ 53 then n
  else
    let e := Nat.log2 n - 52                 -- number of low bits dropped
    let q := n / 2 ^ e
    let r := n % 2 ^ e
    let half := 2 ^ (e - 1)
    let q' := if r > half ∨ (r = half ∧ q % 2 = 1) then q + 1 else q
    q' * 2 ^ e

/-- ⌊ RN(√x) ⌋ for a double with non-negative integer value `x`, RN = correct rounding to 53 bits
    (`f64::sqrt` is correctly rounded by IEEE-754).  The square root is computed with 2·60 extra fractional bits
    (a square root of a double is never exactly half-way between two doubles, so nearest is decided by a
    strict comparison). -/
def sqrtTrunc (x : Nat) : Nat :=
  if x = 0 then 0
  else
    let k := 60
    let s := Nat.sqrt (x * 4 ^ k)            -- ⌊√x · 2^k⌋
    let bits := Nat.log2 s + 1
    if bits ≤ 53 then s / 2 ^ k
    else
      let d := bits - 53                      -- low bits to round away
      let q := s / 2 ^ d
      let lower := q * 2 ^ d                  -- candidate doubles (scaled by 2^k): lower, lower + 2^d
      let mid := 2 * lower + 2 ^ d            -- 2·midpoint
      -- √x·2^k ≥ midpoint  ⇔  4·x·4^k ≥ mid²
      let up := mid * mid ≤ 4 * (x * 4 ^ k)
      (if up then lower + 2 ^ d else lower) / 2 ^ k

/-- `sqrti`: `(arg1 as f64).sqrt() as u64` -/
def sqrti (n : Nat) : Nat := sqrtTrunc (toF64 n)

end Rbpf.Helpers
