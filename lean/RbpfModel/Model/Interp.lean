/-
  Model of `src/interpreter.rs::execute_program`, arm by arm, and of the frame bookkeeping in
  `src/stack.rs`.  Every place the Rust code can panic is `.panic`, every `Err(..)?` is `.err`.
  `.fault` marks an access that `check_mem` admitted but that no modelled region backs (only
  possible for a registered range without backing store; the harness never builds one).
-/
import RbpfModel.Model.Insn
import RbpfModel.Model.Mem
namespace Rbpf

inductive ErrKind | oob | unaligned | unknownHelper | callDepth | callType | tailCall
  deriving DecidableEq, Repr

/-- a registered helper: a pure function of r1..r5 (the harness registers only such helpers) -/
abbrev HelperFn := BitVec 64 → BitVec 64 → BitVec 64 → BitVec 64 → BitVec 64 → BitVec 64

structure Env where
  prog : Bytes
  helpers : Nat → Option HelperFn            -- `HashMap<u32, Helper>`
  allowed : List (Nat × Nat)                 -- `HashSet<Range<u64>>`, as [start, end)
  usage : Nat → Option Nat                   -- `StackUsage`: function entry ↦ frame size in bytes

/-- `StackFrame` without its `stack_usage` field (kept in `State.usage`, indexed by depth) -/
structure Frame where
  ret : Nat
  saved : BitVec 64 × BitVec 64 × BitVec 64 × BitVec 64
deriving Repr, Inhabited

structure State where
  reg : Vector (BitVec 64) 11
  pc : Nat                                   -- `insn_ptr`
  frames : List Frame                        -- `stacks[0..stack_frame_idx]`, innermost first
  usage : Vector Nat 8                       -- `stacks[k].stack_usage.stack_usage()`, k = 0..7
  mem : Memory
  log : List (Nat × List (BitVec 64))        -- helper calls made so far: (id, [r1..r5])

def State.depth (s : State) : Nat := s.frames.length

inductive Outcome
  | next (s : State)
  | done (r0 : BitVec 64) (s : State)
  | err (e : ErrKind) (s : State)          -- the state when the error was raised (the refused step changed nothing)
  | panic
  | fault

namespace Interp

-- cast helpers: the Rust `as` chains --------------------------------------------------------------
/-- `x as u32` / `x as i32` of a `u64` -/
@[inline] def lo32 (x : BitVec 64) : BitVec 32 := x.setWidth 32
/-- `y as u64` of a `u32` -/
@[inline] def zx32 (y : BitVec 32) : BitVec 64 := y.setWidth 64
/-- `y as u64` of an `i32` (also `as i64`) -/
@[inline] def sx32 (y : BitVec 32) : BitVec 64 := y.signExtend 64

@[inline] def rd (s : State) (i : Nat) (k : BitVec 64 → Outcome) : Outcome :=
  match s.reg[i]? with
  | some v => k v
  | none => .panic                           -- `reg[i]` with i ≥ 11: index out of bounds

@[inline] def wr (s : State) (i : Nat) (v : BitVec 64) : Outcome :=
  if i < 11 then .next { s with reg := s.reg.setIfInBounds i v } else .panic

/-- `do_jump` (after `insn_ptr += 1`): `insn_ptr = (insn_ptr as isize + off as isize) as usize`;
    a negative result makes the next `insn_ptr * INSN_SIZE` overflow, i.e. panic -/
@[inline] def jumpTo (s : State) (t : Int) : Outcome :=
  if t < 0 then .panic else .next { s with pc := t.toNat }

@[inline] def branch (s : State) (off : BitVec 16) (c : Bool) : Outcome :=
  if c then jumpTo s ((s.pc : Int) + off.toInt) else .next s

/-- load of `w` bytes at `addr`: `check_mem_load`, then `read_unaligned`, zero-extended -/
def load (env : Env) (s : State) (addr : BitVec 64) (w : Nat) (dst : Nat) : Outcome :=
  if checkMem s.mem env.allowed addr w then
    match s.mem.readBytes? addr.toNat w with
    | some bs => wr s dst (BitVec.ofNat 64 (leValue bs))
    | none => .fault
  else .err .oob s

/-- store of the `w` low-order bytes of `v` at `addr`: `check_mem_store`, then `write_unaligned` -/
def store (env : Env) (s : State) (addr : BitVec 64) (w : Nat) (v : BitVec 64) : Outcome :=
  if checkMem s.mem env.allowed addr w then
    match s.mem.writeBytes? addr.toNat (leBytes v.toNat w) with
    | some m => .next { s with mem := m }
    | none => .fault
  else .err .oob s

/-- `ST_W_XADD` / `ST_DW_XADD`: bounds check, natural alignment, `fetch_add` (wrapping) -/
def xadd (env : Env) (s : State) (addr : BitVec 64) (w : Nat) (v : BitVec 64) : Outcome :=
  if checkMem s.mem env.allowed addr w then
    if addr.toNat % w = 0 then
      match s.mem.readBytes? addr.toNat w with
      | some bs =>
        match s.mem.writeBytes? addr.toNat (leBytes (leValue bs + v.toNat) w) with
        | some m => .next { s with mem := m }
        | none => .fault
      | none => .fault
    else .err .unaligned s
  else .err .oob s

/-- byte swap of the `w` low-order bytes (`to_be` on a little-endian host), zero-extended -/
def bswap (v : BitVec 64) (w : Nat) : BitVec 64 := BitVec.ofNat 64 (leValue (leBytes v.toNat w).reverse)

/-- `ldabs`/`ldind` address: `mem.as_ptr() as u64 + …` (checked for ldabs, wrapping for ldind) -/
def pktAbs (s : State) (imm : BitVec 32) (k : BitVec 64 → Outcome) : Outcome :=
  if s.mem.mem.base + imm.toNat ≥ 2 ^ 64 then .panic else k (BitVec.ofNat 64 (s.mem.mem.base + imm.toNat))

/-- `CALL` with `src = 0`: the registered helper is invoked once with (r1..r5), its result goes to r0 -/
def callHelper (env : Env) (s : State) (imm : BitVec 32) : Outcome :=
  match env.helpers imm.toNat with
  | some f =>
    rd s 1 fun a1 => rd s 2 fun a2 => rd s 3 fun a3 => rd s 4 fun a4 => rd s 5 fun a5 =>
      wr { s with log := s.log ++ [(imm.toNat, [a1, a2, a3, a4, a5])] } 0 (f a1 a2 a3 a4 a5)
  | none => .err .unknownHelper s

/-- `CALL` with `src = 1` (eBPF-to-eBPF call); `s.pc` is the return address -/
def callLocal (s : State) (imm : BitVec 32) : Outcome :=
  if s.depth ≥ 8 then .err .callDepth s
  else
    rd s 6 fun r6 => rd s 7 fun r7 => rd s 8 fun r8 => rd s 9 fun r9 => rd s 10 fun r10 =>
      let u := (s.usage[s.depth]?).getD 0
      if r10.toNat < u then .panic           -- `reg[10] -= …` underflow (overflow-checked build)
      else
        let s' := { s with reg := s.reg.setIfInBounds 10 (r10 - BitVec.ofNat 64 u),
                           frames := { ret := s.pc, saved := (r6, r7, r8, r9) } :: s.frames }
        jumpTo s' ((s.pc : Int) + imm.toInt)

/-- `EXIT`: return from a local function, or end of the program at depth 0 -/
def exitInsn (s : State) : Outcome :=
  match s.frames with
  | [] => rd s 0 fun r0 => .done r0 s
  | f :: rest =>
    rd s 10 fun r10 =>
      let u := (s.usage[rest.length]?).getD 0
      if r10.toNat + u ≥ 2 ^ 64 then .panic    -- `reg[10] += …` overflow
      else
        .next { s with
          reg := ((((s.reg.setIfInBounds 6 f.saved.1).setIfInBounds 7 f.saved.2.1).setIfInBounds 8 f.saved.2.2.1).setIfInBounds 9
                   f.saved.2.2.2).setIfInBounds 10 (r10 + BitVec.ofNat 64 u),
          pc := f.ret, frames := rest }

/-- the body of the interpreter's `match insn.opc` for one instruction; `s.pc` is already `insn_ptr + 1` -/
def exec (env : Env) (s : State) (insn : Insn) : Outcome :=
  let dst := insn.dst.toNat
  let src := insn.src.toNat
  let off := insn.off
  let imm := insn.imm
  let immS : BitVec 64 := sx32 imm          -- `insn.imm as u64`, `insn.imm as i64`
  let immZ : BitVec 64 := zx32 imm          -- `(insn.imm as u32) as u64`
  let ea (base : BitVec 64) : BitVec 64 := base + off.signExtend 64     -- `wrapping_offset(insn.off as isize)`
  match insn.opc.toNat with
  -- BPF_LD class ---------------------------------------------------------------------------------
  | 0x30 => pktAbs s imm fun a => load env s a 1 0
  | 0x28 => pktAbs s imm fun a => load env s a 2 0
  | 0x20 => pktAbs s imm fun a => load env s a 4 0
  | 0x38 => pktAbs s imm fun a => load env s a 8 0
  | 0x50 => rd s src fun x => load env s (BitVec.ofNat 64 s.mem.mem.base + x + immZ) 1 0
  | 0x48 => rd s src fun x => load env s (BitVec.ofNat 64 s.mem.mem.base + x + immZ) 2 0
  | 0x40 => rd s src fun x => load env s (BitVec.ofNat 64 s.mem.mem.base + x + immZ) 4 0
  | 0x58 => rd s src fun x => load env s (BitVec.ofNat 64 s.mem.mem.base + x + immZ) 8 0
  | 0x18 =>
    match getInsn? env.prog s.pc with
    | none => .panic
    | some next => wr { s with pc := s.pc + 1 } dst (immZ + (sx32 next.imm <<< (32 : Nat)))
  -- BPF_LDX class --------------------------------------------------------------------------------
  | 0x71 => rd s src fun x => load env s (ea x) 1 dst
  | 0x69 => rd s src fun x => load env s (ea x) 2 dst
  | 0x61 => rd s src fun x => load env s (ea x) 4 dst
  | 0x79 => rd s src fun x => load env s (ea x) 8 dst
  -- BPF_ST class ---------------------------------------------------------------------------------
  | 0x72 => rd s dst fun d => store env s (ea d) 1 immS
  | 0x6a => rd s dst fun d => store env s (ea d) 2 immS
  | 0x62 => rd s dst fun d => store env s (ea d) 4 immS
  | 0x7a => rd s dst fun d => store env s (ea d) 8 immS
  -- BPF_STX class --------------------------------------------------------------------------------
  | 0x73 => rd s dst fun d => rd s src fun x => store env s (ea d) 1 x
  | 0x6b => rd s dst fun d => rd s src fun x => store env s (ea d) 2 x
  | 0x63 => rd s dst fun d => rd s src fun x => store env s (ea d) 4 x
  | 0x7b => rd s dst fun d => rd s src fun x => store env s (ea d) 8 x
  | 0xc3 => rd s dst fun d => rd s src fun x => xadd env s (ea d) 4 (zx32 (lo32 x))
  | 0xdb => rd s dst fun d => rd s src fun x => xadd env s (ea d) 8 x
  -- BPF_ALU class --------------------------------------------------------------------------------
  | 0x04 => rd s dst fun d => wr s dst (zx32 (lo32 d + imm))
  | 0x0c => rd s dst fun d => rd s src fun x => wr s dst (zx32 (lo32 d + lo32 x))
  | 0x14 => rd s dst fun d => wr s dst (zx32 (lo32 d - imm))
  | 0x1c => rd s dst fun d => rd s src fun x => wr s dst (zx32 (lo32 d - lo32 x))
  | 0x24 => rd s dst fun d => wr s dst (zx32 (lo32 d * imm))
  | 0x2c => rd s dst fun d => rd s src fun x => wr s dst (zx32 (lo32 d * lo32 x))
  | 0x34 => if imm = 0 then wr s dst 0 else rd s dst fun d => wr s dst (zx32 (lo32 d / imm))
  | 0x3c => rd s src fun x => if lo32 x = 0 then wr s dst 0 else rd s dst fun d => wr s dst (zx32 (lo32 d / lo32 x))
  | 0x44 => rd s dst fun d => wr s dst (zx32 (lo32 d ||| imm))
  | 0x4c => rd s dst fun d => rd s src fun x => wr s dst (zx32 (lo32 d ||| lo32 x))
  | 0x54 => rd s dst fun d => wr s dst (zx32 (lo32 d &&& imm))
  | 0x5c => rd s dst fun d => rd s src fun x => wr s dst (zx32 (lo32 d &&& lo32 x))
  | 0x64 => rd s dst fun d => wr s dst (zx32 (lo32 d <<< (imm.toNat % 32)))
  | 0x6c => rd s dst fun d => rd s src fun x => wr s dst (zx32 (lo32 d <<< ((lo32 x).toNat % 32)))
  | 0x74 => rd s dst fun d => wr s dst (zx32 (lo32 d >>> (imm.toNat % 32)))
  | 0x7c => rd s dst fun d => rd s src fun x => wr s dst (zx32 (lo32 d >>> ((lo32 x).toNat % 32)))
  | 0x84 => rd s dst fun d => wr s dst (sx32 (- lo32 d) &&& 0xffffffff#64)
  | 0x94 => if imm = 0 then .next s else rd s dst fun d => wr s dst (zx32 (lo32 d % imm))
  | 0x9c => rd s src fun x => if lo32 x = 0 then .next s else rd s dst fun d => wr s dst (zx32 (lo32 d % lo32 x))
  | 0xa4 => rd s dst fun d => wr s dst (zx32 (lo32 d ^^^ imm))
  | 0xac => rd s dst fun d => rd s src fun x => wr s dst (zx32 (lo32 d ^^^ lo32 x))
  | 0xb4 => wr s dst immZ
  | 0xbc => rd s src fun x => wr s dst (zx32 (lo32 x))
  | 0xc4 => rd s dst fun d => wr s dst (sx32 ((lo32 d).sshiftRight (imm.toNat % 32)) &&& 0xffffffff#64)
  | 0xcc => rd s dst fun d => rd s src fun x => wr s dst (sx32 ((lo32 d).sshiftRight ((lo32 x).toNat % 32)) &&& 0xffffffff#64)
  | 0xd4 => rd s dst fun d =>
      if imm = 16 then wr s dst ((d.setWidth 16).setWidth 64)
      else if imm = 32 then wr s dst (zx32 (lo32 d))
      else if imm = 64 then wr s dst d
      else .panic                              -- `unreachable!()`
  | 0xdc => rd s dst fun d =>
      if imm = 16 then wr s dst (bswap d 2)
      else if imm = 32 then wr s dst (bswap d 4)
      else if imm = 64 then wr s dst (bswap d 8)
      else .panic
  -- BPF_ALU64 class ------------------------------------------------------------------------------
  | 0x07 => rd s dst fun d => wr s dst (d + immS)
  | 0x0f => rd s dst fun d => rd s src fun x => wr s dst (d + x)
  | 0x17 => rd s dst fun d => wr s dst (d - immS)
  | 0x1f => rd s dst fun d => rd s src fun x => wr s dst (d - x)
  | 0x27 => rd s dst fun d => wr s dst (d * immS)
  | 0x2f => rd s dst fun d => rd s src fun x => wr s dst (d * x)
  | 0x37 => if imm = 0 then wr s dst 0 else rd s dst fun d => wr s dst (d / immS)
  | 0x3f => rd s src fun x => if x = 0 then wr s dst 0 else rd s dst fun d => wr s dst (d / x)
  | 0x47 => rd s dst fun d => wr s dst (d ||| immS)
  | 0x4f => rd s dst fun d => rd s src fun x => wr s dst (d ||| x)
  | 0x57 => rd s dst fun d => wr s dst (d &&& immS)
  | 0x5f => rd s dst fun d => rd s src fun x => wr s dst (d &&& x)
  | 0x67 => rd s dst fun d => wr s dst (d <<< (immS.toNat % 64))
  | 0x6f => rd s dst fun d => rd s src fun x => wr s dst (d <<< (x.toNat % 64))
  | 0x77 => rd s dst fun d => wr s dst (d >>> (immS.toNat % 64))
  | 0x7f => rd s dst fun d => rd s src fun x => wr s dst (d >>> (x.toNat % 64))
  | 0x87 => rd s dst fun d => wr s dst (- d)
  | 0x97 => if imm = 0 then .next s else rd s dst fun d => wr s dst (d % immS)
  | 0x9f => rd s src fun x => if x = 0 then .next s else rd s dst fun d => wr s dst (d % x)
  | 0xa7 => rd s dst fun d => wr s dst (d ^^^ immS)
  | 0xaf => rd s dst fun d => rd s src fun x => wr s dst (d ^^^ x)
  | 0xb7 => wr s dst immS
  | 0xbf => rd s src fun x => wr s dst x
  | 0xc7 => rd s dst fun d => wr s dst (d.sshiftRight (immS.toNat % 64))
  | 0xcf => rd s dst fun d => rd s src fun x => wr s dst (d.sshiftRight (x.toNat % 64))
  -- BPF_JMP class --------------------------------------------------------------------------------
  | 0x05 => branch s off true
  | 0x15 => rd s dst fun d => branch s off (d == immZ)
  | 0x1d => rd s dst fun d => rd s src fun x => branch s off (d == x)
  | 0x25 => rd s dst fun d => branch s off (immZ.ult d)
  | 0x2d => rd s dst fun d => rd s src fun x => branch s off (x.ult d)
  | 0x35 => rd s dst fun d => branch s off (immZ.ule d)
  | 0x3d => rd s dst fun d => rd s src fun x => branch s off (x.ule d)
  | 0xa5 => rd s dst fun d => branch s off (d.ult immZ)
  | 0xad => rd s dst fun d => rd s src fun x => branch s off (d.ult x)
  | 0xb5 => rd s dst fun d => branch s off (d.ule immZ)
  | 0xbd => rd s dst fun d => rd s src fun x => branch s off (d.ule x)
  | 0x45 => rd s dst fun d => branch s off (d &&& immS != 0)
  | 0x4d => rd s dst fun d => rd s src fun x => branch s off (d &&& x != 0)
  | 0x55 => rd s dst fun d => branch s off (d != immZ)
  | 0x5d => rd s dst fun d => rd s src fun x => branch s off (d != x)
  | 0x65 => rd s dst fun d => branch s off (immS.slt d)
  | 0x6d => rd s dst fun d => rd s src fun x => branch s off (x.slt d)
  | 0x75 => rd s dst fun d => branch s off (immS.sle d)
  | 0x7d => rd s dst fun d => rd s src fun x => branch s off (x.sle d)
  | 0xc5 => rd s dst fun d => branch s off (d.slt immS)
  | 0xcd => rd s dst fun d => rd s src fun x => branch s off (d.slt x)
  | 0xd5 => rd s dst fun d => branch s off (d.sle immS)
  | 0xdd => rd s dst fun d => rd s src fun x => branch s off (d.sle x)
  -- BPF_JMP32 class ------------------------------------------------------------------------------
  | 0x16 => rd s dst fun d => branch s off (lo32 d == imm)
  | 0x1e => rd s dst fun d => rd s src fun x => branch s off (lo32 d == lo32 x)
  | 0x26 => rd s dst fun d => branch s off (imm.ult (lo32 d))
  | 0x2e => rd s dst fun d => rd s src fun x => branch s off ((lo32 x).ult (lo32 d))
  | 0x36 => rd s dst fun d => branch s off (imm.ule (lo32 d))
  | 0x3e => rd s dst fun d => rd s src fun x => branch s off ((lo32 x).ule (lo32 d))
  | 0xa6 => rd s dst fun d => branch s off ((lo32 d).ult imm)
  | 0xae => rd s dst fun d => rd s src fun x => branch s off ((lo32 d).ult (lo32 x))
  | 0xb6 => rd s dst fun d => branch s off ((lo32 d).ule imm)
  | 0xbe => rd s dst fun d => rd s src fun x => branch s off ((lo32 d).ule (lo32 x))
  | 0x46 => rd s dst fun d => branch s off (lo32 d &&& imm != 0)
  | 0x4e => rd s dst fun d => rd s src fun x => branch s off (lo32 d &&& lo32 x != 0)
  | 0x56 => rd s dst fun d => branch s off (lo32 d != imm)
  | 0x5e => rd s dst fun d => rd s src fun x => branch s off (lo32 d != lo32 x)
  | 0x66 => rd s dst fun d => branch s off (imm.slt (lo32 d))
  | 0x6e => rd s dst fun d => rd s src fun x => branch s off ((lo32 x).slt (lo32 d))
  | 0x76 => rd s dst fun d => branch s off (imm.sle (lo32 d))
  | 0x7e => rd s dst fun d => rd s src fun x => branch s off ((lo32 x).sle (lo32 d))
  | 0xc6 => rd s dst fun d => branch s off ((lo32 d).slt imm)
  | 0xce => rd s dst fun d => rd s src fun x => branch s off ((lo32 d).slt (lo32 x))
  | 0xd6 => rd s dst fun d => branch s off ((lo32 d).sle imm)
  | 0xde => rd s dst fun d => rd s src fun x => branch s off ((lo32 d).sle (lo32 x))
  -- calls and exit -------------------------------------------------------------------------------
  | 0x85 =>
    if src = 0 then callHelper env s imm
    else if src = 1 then callLocal s imm
    else .err .callType s
  | 0x8d => .err .tailCall s
  | 0x95 => exitInsn s
  | _ => .panic                                  -- `unreachable!()`

/-- one iteration of the `while insn_ptr * INSN_SIZE < prog.len()` loop -/
def step (env : Env) (s : State) : Outcome :=
  if s.pc * 8 < env.prog.size then
    match getInsn? env.prog s.pc with
    | none => .panic
    | some insn =>
      let s1 : State :=
        if s.depth < 8 then
          match env.usage s.pc with
          | some u => { s with usage := s.usage.setIfInBounds s.depth u }
          | none => s
        else s
      exec env { s1 with pc := s.pc + 1 } insn
  else .panic                                    -- loop exit reaches the final `unreachable!()`

inductive Result
  | done (r0 : BitVec 64) (s : State)
  | err (e : ErrKind) (s : State)
  | panic
  | fault
  | timeout (s : State)                          -- fuel (the harness' instruction budget) exhausted

def run (env : Env) (s : State) : Nat → Result
  | 0 => .timeout s
  | fuel + 1 =>
    match step env s with
    | .next s' => run env s' fuel
    | .done r s' => .done r s'
    | .err e s' => .err e s'
    | .panic => .panic
    | .fault => .fault

/-- the keys of the `StackUsage` map built by `StackVerifier::stack_validate`: pc 0 and every local-call target -/
def stackEntries (p : Bytes) : List Nat :=
  0 :: (List.range (p.size / 8)).filterMap (fun idx =>
    match getInsn? p idx with
    | some i => if i.opc = 0x85 ∧ i.src = 1 then
        let t := (idx : Int) + 1 + i.imm.toInt
        some (if t < 0 then (2 ^ 64 - (-t).toNat) else t.toNat)    -- `dst_insn_ptr as usize`
      else none
    | none => none)

/-- `StackUsage::stack_usage_for_local_func` over a given key list, with calculator `calcFn`
    (`none` = no calculator: 256 bytes) -/
def usageOf (entries : List Nat) (calcFn : Option (Nat → Nat)) (pc : Nat) : Option Nat :=
  if entries.contains pc then some (match calcFn with | some c => c pc | none => 256) else none

/-- `StackVerifier::stack_validate` with calculator `calcFn`: pc 0 and every local-call target are
    function entries -/
def stackUsage (p : Bytes) (calcFn : Option (Nat → Nat)) : Nat → Option Nat :=
  usageOf (stackEntries p) calcFn

/-- the initial state of `execute_program` -/
def init (m : Memory) : State :=
  let r1 : Nat := if m.mbuff.bytes.size ≠ 0 then m.mbuff.base else if m.mem.bytes.size ≠ 0 then m.mem.base else 0
  { reg := (((Vector.replicate 11 (0 : BitVec 64)).setIfInBounds 1 (BitVec.ofNat 64 r1)).setIfInBounds 10
             (BitVec.ofNat 64 (m.stack.base + m.stack.bytes.size))),
    pc := 0, frames := [], usage := Vector.replicate 8 256, mem := m, log := [] }

end Interp
end Rbpf
