/- protocol glue for the `xadd` suite (C18) -/
import RbpfModel.Model.Hex
import RbpfModel.Model.Atomic
import RbpfModel.Model.DriveExec
namespace Rbpf.Drive
open Rbpf.Hex

def handleXadd (toks : List String) : String :=
  let kv := kvOf toks
  let get (k : String) (d : Nat) : Nat := ((look kv k).bind parseNat?).getD d
  let threads := get "threads" 4; let k := get "k" 1000; let width := get "width" 8
  let addend := get "addend" 1; let init := get "init" 0; let off := get "off" 8
  if (off - 8) % width ≠ 0 ∨ off < 8 ∨ off + width > 16 then
    -- misaligned (or outside the cell's word): interpreter threads refuse, the word is unchanged
    s!"unaligned word={natHex init 16} canary=ok"
  else
    -- every interleaving gives the same word (C18_interleaving_sum): run one schedule of the model
    let w := 8 * width
    let low := init % 2 ^ w
    let fin := Atomic.runSchedule w low (List.replicate (threads * k) addend)
    s!"ok word={natHex ((init / 2 ^ w) * 2 ^ w + fin) 16} canary=ok"

end Rbpf.Drive
