/-
  Register-transfer semantics of what the two compilers generate, stated as the interpreter model
  with exactly the departures the generated code has (DESIGN.md §7 C03/C04):

  x86-64 JIT (`jit.rs`):
    * no bounds checks: every load/store is performed (here: the model only speaks about runs whose
      accesses the interpreter admits — C03's hypothesis — and reports `.fault` otherwise);
    * `cmp r/m64, imm32` sign-extends: unsigned compare-with-immediate uses the sign-extended immediate
      (the instruction set's meaning; the interpreter zero-extends — finding F7);
    * local calls push r6..r9 and the return address on the native stack and do NOT lower the eBPF frame
      pointer; there is no depth limit (finding F16);
    * unknown helper / unsupported call kind: compile-time error.
  Cranelift (`cranelift.rs`):
    * compare-with-immediate sign-extends (`insn_imm64`), as the instruction set says;
    * every access is guarded by `insert_bounds_check` over stack / packet / metadata only (no registered
      ranges), a failed check traps;
    * local calls and unknown helpers are compile-time errors.
-/
import RbpfModel.Model.Interp
import RbpfModel.Model.Isa
namespace Rbpf.EngineSem
open Rbpf.Interp

inductive Compile | ok | err | panic deriving DecidableEq, Repr

/-- instruction starts by linear sweep (what both compilers iterate over) -/
def sweep (p : Bytes) : Nat → Nat → List (Nat × Insn)
  | 0, _ => []
  | fuel + 1, pc =>
    if pc * 8 < p.size then
      match getInsn? p pc with
      | some i => (pc, i) :: sweep p fuel (pc + (if i.opc = 0x18 then 2 else 1))
      | none => []
    else []

def insns (p : Bytes) : List (Nat × Insn) := sweep p (p.size / 8 + 1) 0

/-- x86-64 JIT compile-time outcome: unknown helper ids and call kinds other than 0/1 are errors -/
def jitCompile (env : Env) : Compile :=
  if (insns env.prog).all (fun (_, i) =>
      if i.opc = 0x85 then (if i.src = 0 then (env.helpers i.imm.toNat).isSome else i.src = 1) else true)
  then .ok else .err

/-- Cranelift compile-time outcome: additionally refuses eBPF-to-eBPF calls -/
def clifCompile (env : Env) : Compile :=
  if (insns env.prog).all (fun (_, i) =>
      if i.opc = 0x85 then (i.src = 0 && (env.helpers i.imm.toNat).isSome) else true)
  then .ok else .err

/-- the six opcodes whose immediate the interpreter zero-extends and the compilers sign-extend -/
def cmpImmSigned (s : State) (insn : Insn) : Option Outcome :=
  let immS : BitVec 64 := sx32 insn.imm
  let dst := insn.dst.toNat
  match insn.opc.toNat with
  | 0x15 => some (rd s dst fun d => branch s insn.off (d == immS))
  | 0x25 => some (rd s dst fun d => branch s insn.off (immS.ult d))
  | 0x35 => some (rd s dst fun d => branch s insn.off (immS.ule d))
  | 0xa5 => some (rd s dst fun d => branch s insn.off (d.ult immS))
  | 0xb5 => some (rd s dst fun d => branch s insn.off (d.ule immS))
  | 0x55 => some (rd s dst fun d => branch s insn.off (d != immS))
  | _ => none

/-- atomic add as generated code performs it: `lock add` / `atomic_rmw` work at any alignment on x86-64, so there is no
    alignment test (the interpreter refuses a misaligned one with an error; C18) -/
def xaddAnyAlign (env : Env) (s : State) (addr : BitVec 64) (w : Nat) (v : BitVec 64) : Outcome :=
  if checkMem s.mem env.allowed addr w then
    match s.mem.readBytes? addr.toNat w with
    | some bs =>
      match s.mem.writeBytes? addr.toNat (leBytes (leValue bs + v.toNat) w) with
      | some m => .next { s with mem := m }
      | none => .fault
    | none => .fault
  else .err .oob s

/-- the two atomic-add opcodes in generated code -/
def xaddInsn (env : Env) (s : State) (insn : Insn) : Option Outcome :=
  let ea (base : BitVec 64) : BitVec 64 := base + insn.off.signExtend 64
  match insn.opc.toNat with
  | 0xc3 => some (rd s insn.dst.toNat fun d => rd s insn.src.toNat fun x => xaddAnyAlign env s (ea d) 4 (zx32 (lo32 x)))
  | 0xdb => some (rd s insn.dst.toNat fun d => rd s insn.src.toNat fun x => xaddAnyAlign env s (ea d) 8 x)
  | _ => none

/-- JIT local call: r6..r9 and the return address are saved, the frame pointer is left alone -/
def jitCallLocal (s : State) (imm : BitVec 32) : Outcome :=
  rd s 6 fun r6 => rd s 7 fun r7 => rd s 8 fun r8 => rd s 9 fun r9 =>
    jumpTo { s with frames := { ret := s.pc, saved := (r6, r7, r8, r9) } :: s.frames } ((s.pc : Int) + imm.toInt)

def jitExit (s : State) : Outcome :=
  match s.frames with
  | [] => rd s 0 fun r0 => .done r0 s
  | f :: rest =>
    .next { s with
      reg := (((s.reg.setIfInBounds 6 f.saved.1).setIfInBounds 7 f.saved.2.1).setIfInBounds 8 f.saved.2.2.1).setIfInBounds 9 f.saved.2.2.2,
      pc := f.ret, frames := rest }

def jitExec (env : Env) (s : State) (insn : Insn) : Outcome :=
  match cmpImmSigned s insn with
  | some o => o
  | none =>
    match xaddInsn env s insn with
    | some o => o
    | none =>
      if insn.opc = 0x85 ∧ insn.src = 1 then jitCallLocal s insn.imm
      else if insn.opc = 0x95 then jitExit s
      else Interp.exec env s insn

def jitStep (env : Env) (s : State) : Outcome :=
  if s.pc * 8 < env.prog.size then
    match getInsn? env.prog s.pc with
    | none => .panic
    | some insn => jitExec env { s with pc := s.pc + 1 } insn
  else .panic

def jitRun (env : Env) (s : State) : Nat → Interp.Result
  | 0 => .timeout s
  | fuel + 1 =>
    match jitStep env s with
    | .next s' => jitRun env s' fuel
    | .done r s' => .done r s'
    | .err e s' => .err e s'
    | .panic => .panic
    | .fault => .fault

/-- Cranelift's `insert_bounds_check`, comparison by comparison: the access [start, start+w) must not wrap and
    must lie inside the stack, or inside packet / metadata when their base pointer is non-null -/
def clifBoundsOk (m : Memory) (base : BitVec 64) (off : BitVec 16) (w : Nat) : Bool :=
  let start := base + off.signExtend 64
  let endA := start + BitVec.ofNat 64 w
  let doesNotOverflow := start.ule endA
  let within (lo hi : BitVec 64) : Bool := lo.ule start && endA.ule hi
  let stackValid := within (BitVec.ofNat 64 m.stack.base) (BitVec.ofNat 64 m.stack.base + BitVec.ofNat 64 m.stack.bytes.size)
  let memValid := within (BitVec.ofNat 64 m.mem.base) (BitVec.ofNat 64 m.mem.base + BitVec.ofNat 64 m.mem.bytes.size) && m.mem.base % 2 ^ 64 != 0
  let mbufValid := within (BitVec.ofNat 64 m.mbuff.base) (BitVec.ofNat 64 m.mbuff.base + BitVec.ofNat 64 m.mbuff.bytes.size) && m.mbuff.base % 2 ^ 64 != 0
  doesNotOverflow && (stackValid || memValid || mbufValid)

def clifExec (env : Env) (s : State) (insn : Insn) : Outcome :=
  match cmpImmSigned s insn with
  | some o => o
  | none =>
    match xaddInsn { env with allowed := [] } s insn with
    | some o => o
    | none => Interp.exec { env with allowed := [] } s insn      -- no registered ranges in compiled code

def clifStep (env : Env) (s : State) : Outcome :=
  if s.pc * 8 < env.prog.size then
    match getInsn? env.prog s.pc with
    | none => .panic
    | some insn => clifExec env { s with pc := s.pc + 1 } insn
  else .panic

def clifRun (env : Env) (s : State) : Nat → Interp.Result
  | 0 => .timeout s
  | fuel + 1 =>
    match clifStep env s with
    | .next s' => clifRun env s' fuel
    | .done r s' => .done r s'
    | .err e s' => .err e s'
    | .panic => .panic
    | .fault => .fault

end Rbpf.EngineSem
