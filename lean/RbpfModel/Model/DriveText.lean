/- protocol glue for the `asm`, `dis`, `rt` suites (not part of any theorem) -/
import RbpfModel.Model.Hex
import RbpfModel.Model.Asm
import RbpfModel.Model.Disasm
import RbpfModel.Model.AsmSpec
import RbpfModel.Model.RtSpec
namespace Rbpf.Drive
open Rbpf.Hex

/-- Rust's `char::is_whitespace` (Unicode White_Space) -/
def rustIsWhitespace (c : Char) : Bool :=
  let n := c.toNat
  (9 ≤ n && n ≤ 13) || n == 0x20 || n == 0x85 || n == 0xa0 || n == 0x1680 || (0x2000 ≤ n && n ≤ 0x200a) ||
  n == 0x2028 || n == 0x2029 || n == 0x202f || n == 0x205f || n == 0x3000

/-- non-ASCII alphabetic characters the generators use: é Ω ß 中 𝐀 -/
def extraAlpha : List Nat := [0xe9, 0x3a9, 0xdf, 0x4e2d, 0x1d400]
/-- non-ASCII numeric (not alphabetic) characters the generators use: ٣ ½ and the fullwidth digits -/
def extraNum : List Nat := [0x663, 0xbd, 0xff10, 0xff11, 0xff12, 0xff13, 0xff14, 0xff15, 0xff16, 0xff17, 0xff18, 0xff19]

/-- Rust's `char::is_alphanumeric`, on the characters the generators use: ASCII plus a few samples -/
def rustIsAlphanumeric (c : Char) : Bool :=
  c.isAlphanum || extraAlpha.contains c.toNat || extraNum.contains c.toNat

/-- Rust's `char::is_alphabetic` on the same character set -/
def rustIsAlphabetic (c : Char) : Bool := c.isAlpha || extraAlpha.contains c.toNat

def cc : Asm.CharClass := { isWs := rustIsWhitespace, isAlnum := rustIsAlphanumeric, isAlpha := rustIsAlphabetic }

def textOf (hex : String) : Option (List Char) := do
  let bs ← parseBytes? hex
  let s ← String.fromUTF8? (ByteArray.mk (bs.map (fun b => UInt8.ofNat b.toNat)))
  pure s.toList

def handleAsm (hex : String) : String :=
  match textOf hex with
  | none => "bad-op"
  | some t =>
    match Asm.assemble cc t with
    | .ok bs => "ok " ++ bytesHex bs
    | .err => "err"
    | .panic => "panic"

def hexOfString (s : String) : String := bytesHex (s.toUTF8.toList.map (fun b => BitVec.ofNat 8 b.toNat))

def entryStr (e : Disasm.HLInsn) : String :=
  s!"{bvHex e.opc}~{e.name}~{e.desc}~{bvHex e.dst}~{bvHex e.src}~{bvHex e.off}~{bvHex e.imm}"

def handleDis (prog : String) : String :=
  match parseBytes? prog with
  | none => "bad-op"
  | some p =>
    let r := match Disasm.toInsnVec p with
      | none => "panic"
      | some es => "ok " ++ ";".intercalate (es.map entryStr)
    -- C15's domain: on it the disassembler must not panic
    r ++ (if decide (RtSpec.DisasmOk p) then " | dom=in" else " | dom=out")

/-- `dis` with the implementation's own texts echoed back: they are read by the assembler model (proved to implement the
    documented syntax, C13); for a canonical program they must denote exactly the program's instructions -/
def handleDisT (prog texts : String) : String :=
  let base := handleDis prog
  match parseBytes? prog, (if texts == "texts=-" then some [] else textOf (texts.drop 6).toString) with
  | some p, some t =>
    let r := match Asm.assemble cc t with
      | .ok bs => bytesHex bs
      | .err => "err"
      | .panic => "panic"
    let canon := match RtSpec.canon p with | some xs => bytesHex (xs.flatMap Insn.toArray) | none => "none"
    -- the model's own texts read back (err exactly when the syntax cannot express an operand, e.g. a negative 32-bit immediate)
    let rm := match Disasm.toInsnVec p with
      | none => "none"
      | some es => match Asm.assemble cc ("\n".intercalate (es.map (·.desc))).toList with
        | .ok bs => bytesHex bs
        | .err => "err"
        | .panic => "panic"
    base ++ " | textasm=" ++ (if r == "" then "-" else r) ++ " | mtextasm=" ++ (if rm == "" then "-" else rm) ++ " | canon=" ++ (if canon == "" then "-" else canon)
  | _, _ => base

/-- disassemble, join the texts with newlines, assemble -/
def handleRt (prog : String) : String :=
  match parseBytes? prog with
  | none => "bad-op"
  | some p =>
    match Disasm.toInsnVec p with
    | none => "dis-panic"
    | some es =>
      let text := "\n".intercalate (es.map (·.desc))
      let r := match Asm.assemble cc text.toList with
        | .ok bs => "ok " ++ bytesHex bs
        | .err => "asm-err"
        | .panic => "asm-panic"
      -- C16: (a) a canonical program must come back unchanged; (b) any accepted text yields the canonical form
      let canon := match RtSpec.canon p with | some xs => bytesHex (xs.flatMap Insn.toArray) | none => "none"
      r ++ (if decide (RtSpec.Canonical p) then " | spec=ok " ++ bytesHex p.toList else "") ++ " | canon=" ++ canon

end Rbpf.Drive
