/-
  Model of the compile-time bookkeeping of `src/cranelift.rs` that can fail or panic before Cranelift itself runs:
  `build_cfg` / `prepare_jump_blocks` (the `try_into().unwrap()` of a jump target), and per instruction of
  `translate_program`: register-array indexing (`self.registers[insn.dst as usize]`, 11 entries), the wide load's
  second slot, `unreachable!()` for a byte-swap width other than 16/32/64, `unimplemented!()` for tail calls and
  unknown opcodes, `Err` for unknown helpers and for call kinds other than helper calls.
  (Failures inside Cranelift's own `define_function` are outside this model.)
-/
import RbpfModel.Model.Insn
import RbpfModel.Model.EngineSem
namespace Rbpf.ClifCompile
open Rbpf.EngineSem (Compile insns)

def isCondJump (opc : Nat) : Bool :=
  (opc % 8 = 5 ∨ opc % 8 = 6) ∧ (opc / 16) ∈ [1, 2, 3, 4, 5, 6, 7, 10, 11, 12, 13]

/-- `build_cfg`: every jump's target index is converted with `try_into::<u32>().unwrap()` -/
def cfgCheck (p : Bytes) : Compile :=
  if (insns p).all (fun (pc, i) =>
      if i.opc = 0x05 ∨ isCondJump i.opc.toNat then 0 ≤ (pc : Int) + i.off.toInt + 1 ∧ (pc : Int) + i.off.toInt + 1 < 2 ^ 32 else true)
  then .ok else .panic

/-- what Cranelift's own function verifier insists on (observed, not derived from rbpf's source): every block that is
    referenced or entered ends in a terminator — i.e. the last instruction is `exit` or `ja` and no jump targets the
    position one past the end or the second slot of a wide load (those blocks would stay empty) -/
def blocksFilled (p : Bytes) : Bool :=
  let is := insns p
  (match is.getLast? with | some (_, i) => i.opc = 0x95 || i.opc = 0x05 | none => false) &&
  is.all (fun (pc, i) =>
    if i.opc = 0x05 ∨ isCondJump i.opc.toNat then
      let t := (pc : Int) + i.off.toInt + 1
      is.any (fun (q, _) => (q : Int) = t)
    else true)

def regOk (r : BitVec 8) : Bool := r.toNat < 11

/-- outcome of translating one instruction (`next` = the following slot, for a wide load) -/
def armCheck (helpers : Nat → Bool) (i : Insn) (next : Option Insn) : Compile :=
  let opc := i.opc.toNat
  let cls := opc % 8
  let need (b : Bool) : Compile := if b then .ok else .panic
  if opc = 0x18 then (match next with | none => .panic | some _ => need (regOk i.dst))
  else if cls = 0 then
    if opc / 32 = 1 ∧ opc ∈ [0x20, 0x28, 0x30, 0x38] then .ok
    else if opc ∈ [0x40, 0x48, 0x50, 0x58] then need (regOk i.src)
    else .panic
  else if cls = 1 then (if opc ∈ [0x61, 0x69, 0x71, 0x79] then need (regOk i.src && regOk i.dst) else .panic)
  else if cls = 2 then (if opc ∈ [0x62, 0x6a, 0x72, 0x7a] then need (regOk i.dst) else .panic)
  else if cls = 3 then (if opc ∈ [0x63, 0x6b, 0x73, 0x7b, 0xc3, 0xdb] then need (regOk i.dst && regOk i.src) else .panic)
  else if cls = 4 ∨ cls = 7 then
    let hi := opc / 16
    let isReg := (opc / 8) % 2 = 1
    if hi = 13 then
      -- le on a little-endian host only truncates (16/32), be always swaps: `le64` never touches the register array
      if cls = 4 then (if i.imm = 16 ∨ i.imm = 32 then need (regOk i.dst) else if i.imm = 64 then (if isReg then need (regOk i.dst) else .ok) else .panic) else .panic
    else if hi = 8 then (if isReg then .panic else need (regOk i.dst))
    else if hi ≤ 12 then
      -- division / modulo by a zero immediate and `mod` with immediate 0 touch fewer registers; the destination is always indexed
      -- except for `mod imm 0`, which emits nothing
      if hi = 9 ∧ ¬ isReg ∧ i.imm = 0 then .ok
      else need (regOk i.dst && (if isReg then regOk i.src else true))
    else .panic
  else if opc = 0x05 then .ok
  else if isCondJump opc then need (regOk i.dst && (if (opc / 8) % 2 = 1 then regOk i.src else true))
  else if opc = 0x85 then (if i.src ≠ 0 then .err else if helpers i.imm.toNat then .ok else .err)
  else if opc = 0x95 then .ok
  else .panic          -- TAIL_CALL: unimplemented!(); anything else: unimplemented!("inst: …")

/-- `translate_program`: instructions in order, the first failure decides -/
def translate (p : Bytes) (helpers : Nat → Bool) : List (Nat × Insn) → Compile
  | [] => .ok
  | (pc, i) :: rest =>
    match armCheck helpers i (getInsn? p (pc + 1)) with
    | .ok => translate p helpers rest
    | r => r

/-- `compile_function` up to the hand-over to Cranelift -/
def compile (p : Bytes) (helpers : Nat → Bool) : Compile :=
  match cfgCheck p with
  | .ok =>
    match translate p helpers (insns p) with
    | .ok => if blocksFilled p then .ok else .panic      -- `define_function(..).unwrap()`
    | r => r
  | r => r

end Rbpf.ClifCompile
