/-
  Model of `src/ebpf.rs`: the `Insn` structure, `Insn::to_array`, `Insn::to_vec`, `get_insn`,
  `to_insn_vec`.  Core Lean only (the driver executable links against this file).

  Rust integer types are modelled by `BitVec n`; a `u8`/`i16`/`i32` cast chain is written out
  operation by operation so that the C17 theorems are about what the code computes, not about what it
  is meant to compute.
-/
namespace Rbpf


/-- a program image: the `&[u8]` handed to every rbpf entry point -/
abbrev Bytes := Array (BitVec 8)

/-- `ebpf::Insn` (`opc: u8, dst: u8, src: u8, off: i16, imm: i32`) -/
structure Insn where
  opc : BitVec 8
  dst : BitVec 8
  src : BitVec 8
  off : BitVec 16
  imm : BitVec 32
deriving DecidableEq, Repr, Inhabited

namespace Insn

/-- `Insn::to_array` (ebpf.rs:476).  `wrapping_shl(4)` on `u8`, `&`/`wrapping_shr` on `i16`/`i32`
    (arithmetic) and on `u32` (logical), then `as u8`. -/
def toArray (i : Insn) : List (BitVec 8) :=
  [ i.opc,
    (i.src <<< (4 : Nat)) ||| i.dst,
    (i.off &&& 0xff#16).setWidth 8,
    (i.off.sshiftRight 8).setWidth 8,
    (i.imm &&& 0xff#32).setWidth 8,
    ((i.imm &&& 0xff00#32).sshiftRight 8).setWidth 8,
    ((i.imm &&& 0xff0000#32) >>> 16).setWidth 8,
    ((i.imm &&& 0xff000000#32) >>> 24).setWidth 8 ]

/-- `Insn::to_vec` (ebpf.rs:508): a second copy of the same expression list in the source. -/
def toVec (i : Insn) : List (BitVec 8) :=
  [ i.opc,
    (i.src <<< (4 : Nat)) ||| i.dst,
    (i.off &&& 0xff#16).setWidth 8,
    (i.off.sshiftRight 8).setWidth 8,
    (i.imm &&& 0xff#32).setWidth 8,
    ((i.imm &&& 0xff00#32).sshiftRight 8).setWidth 8,
    ((i.imm &&& 0xff0000#32) >>> 16).setWidth 8,
    ((i.imm &&& 0xff000000#32) >>> 24).setWidth 8 ]

end Insn

/-- the field extraction of `get_insn` on the eight bytes of one slot
    (`LittleEndian::read_i16`, `read_i32`) -/
def decodeSlot (b0 b1 b2 b3 b4 b5 b6 b7 : BitVec 8) : Insn :=
  { opc := b0
    dst := b1 &&& 0x0f#8
    src := (b1 &&& 0xf0#8) >>> (4 : Nat)
    off := b3 ++ b2
    imm := b7 ++ b6 ++ b5 ++ b4 }

/-- `get_insn(prog, idx)`; `none` is the function's `panic!` (index out of range / incomplete slot) -/
def getInsn? (p : Bytes) (idx : Nat) : Option Insn :=
  if (idx + 1) * 8 > p.size then none
  else some (decodeSlot (p.getD (8*idx) 0) (p.getD (8*idx+1) 0) (p.getD (8*idx+2) 0) (p.getD (8*idx+3) 0)
                        (p.getD (8*idx+4) 0) (p.getD (8*idx+5) 0) (p.getD (8*idx+6) 0) (p.getD (8*idx+7) 0))

/-- number of whole instruction slots -/
def nSlots (p : Bytes) : Nat := p.size / 8

/-- `to_insn_vec`; `none` is its `panic!` on a length that is not a multiple of 8 -/
def toInsnVec? (p : Bytes) : Option (List Insn) :=
  if p.size % 8 ≠ 0 then none
  else (List.range (p.size / 8)).mapM (getInsn? p)

/-- concatenated encodings (what a program built from a list of `Insn` looks like) -/
def encodeAll (xs : List Insn) : Bytes := (xs.flatMap Insn.toArray).toArray

end Rbpf
