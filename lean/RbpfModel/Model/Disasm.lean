/-
  Model of `src/disassembler.rs::to_insn_vec`: mnemonic table, operand renderers (`{:#x}` on
  i16/i32/i64/isize, decimal registers), wide-load merge.  `none` = a `panic!`.
-/
import RbpfModel.Model.Insn
namespace Rbpf.Disasm

structure HLInsn where
  opc : BitVec 8
  name : String
  desc : String
  dst : BitVec 8
  src : BitVec 8
  off : BitVec 16
  imm : BitVec 64            -- `i64`
  deriving DecidableEq, Repr

def hexDigit (n : Nat) : Char := if n < 10 then Char.ofNat (48 + n) else Char.ofNat (87 + n)

/-- lower-case hexadecimal digits of `n`, most significant first, no leading zeros (`0` ↦ "0") -/
def hexDigits (n : Nat) : List Char :=
  if _h : n < 16 then [hexDigit n] else hexDigits (n / 16) ++ [hexDigit (n % 16)]
decreasing_by omega

/-- `format!("{:#x}", v)` for an unsigned value (for a signed Rust integer: its two's complement bits) -/
def fmtHex (n : Nat) : String := "0x" ++ String.ofList (hexDigits n)

def decDigits (n : Nat) : List Char :=
  if _h : n < 10 then [Char.ofNat (48 + n)] else decDigits (n / 10) ++ [Char.ofNat (48 + n % 10)]
decreasing_by omega

/-- `format!("{}", v)` for `u8` -/
def fmtDec (n : Nat) : String := String.ofList (decDigits n)

/-- `{:}` of an `i32` -/
def fmtDecI32 (v : BitVec 32) : String := if v.toInt < 0 then "-" ++ fmtDec (-v.toInt).toNat else fmtDec v.toInt.toNat

def reg (r : BitVec 8) : String := "r" ++ fmtDec r.toNat
def immHex (i : Insn) : String := fmtHex i.imm.toNat                         -- `{:#x}` of an i32
/-- `+{off:#x}` / `-{(-(off as isize)):#x}` -/
def offSigned (off : BitVec 16) : String :=
  if off.toInt ≥ 0 then "+" ++ fmtHex off.toNat else "-" ++ fmtHex (-off.toInt).toNat

def aluImm (n : String) (i : Insn) : String := s!"{n} {reg i.dst}, {immHex i}"
def aluReg (n : String) (i : Insn) : String := s!"{n} {reg i.dst}, {reg i.src}"
def byteswap (n : String) (i : Insn) : String := s!"{n}{fmtDecI32 i.imm} {reg i.dst}"
def ldStImm (n : String) (i : Insn) : String := s!"{n} [{reg i.dst}{offSigned i.off}], {immHex i}"
def ldReg (n : String) (i : Insn) : String := s!"{n} {reg i.dst}, [{reg i.src}{offSigned i.off}]"
def stReg (n : String) (i : Insn) : String := s!"{n} [{reg i.dst}{offSigned i.off}], {reg i.src}"
def ldabs (n : String) (i : Insn) : String := s!"{n} {immHex i}"
def ldind (n : String) (i : Insn) : String := s!"{n} {reg i.src}, {immHex i}"
def jmpImm (n : String) (i : Insn) : String := s!"{n} {reg i.dst}, {immHex i}, {offSigned i.off}"
def jmpReg (n : String) (i : Insn) : String := s!"{n} {reg i.dst}, {reg i.src}, {offSigned i.off}"
def unary (n : String) (i : Insn) : String := s!"{n} {reg i.dst}"
def plain (n : String) (_ : Insn) : String := n
def callStr (n : String) (i : Insn) : String := s!"{n} {immHex i}"

/-- the arm table: opcode ↦ (name, renderer); `none` = the `_ => panic!` arm.
    `lddw` (0x18) and `call` (0x85) are handled by `toInsnVec` itself. -/
def arm (opc : Nat) : Option (String × (String → Insn → String)) :=
  match opc with
  | 0x30 => some ("ldabsb", ldabs) | 0x28 => some ("ldabsh", ldabs) | 0x20 => some ("ldabsw", ldabs) | 0x38 => some ("ldabsdw", ldabs)
  | 0x50 => some ("ldindb", ldind) | 0x48 => some ("ldindh", ldind) | 0x40 => some ("ldindw", ldind) | 0x58 => some ("ldinddw", ldind)
  | 0x71 => some ("ldxb", ldReg) | 0x69 => some ("ldxh", ldReg) | 0x61 => some ("ldxw", ldReg) | 0x79 => some ("ldxdw", ldReg)
  | 0x72 => some ("stb", ldStImm) | 0x6a => some ("sth", ldStImm) | 0x62 => some ("stw", ldStImm) | 0x7a => some ("stdw", ldStImm)
  | 0x73 => some ("stxb", stReg) | 0x6b => some ("stxh", stReg) | 0x63 => some ("stxw", stReg) | 0x7b => some ("stxdw", stReg)
  | 0xc3 => some ("stxxaddw", stReg) | 0xdb => some ("stxxadddw", stReg)
  | 0x04 => some ("add32", aluImm) | 0x0c => some ("add32", aluReg) | 0x14 => some ("sub32", aluImm) | 0x1c => some ("sub32", aluReg)
  | 0x24 => some ("mul32", aluImm) | 0x2c => some ("mul32", aluReg) | 0x34 => some ("div32", aluImm) | 0x3c => some ("div32", aluReg)
  | 0x44 => some ("or32", aluImm) | 0x4c => some ("or32", aluReg) | 0x54 => some ("and32", aluImm) | 0x5c => some ("and32", aluReg)
  | 0x64 => some ("lsh32", aluImm) | 0x6c => some ("lsh32", aluReg) | 0x74 => some ("rsh32", aluImm) | 0x7c => some ("rsh32", aluReg)
  | 0x84 => some ("neg32", unary) | 0x94 => some ("mod32", aluImm) | 0x9c => some ("mod32", aluReg)
  | 0xa4 => some ("xor32", aluImm) | 0xac => some ("xor32", aluReg) | 0xb4 => some ("mov32", aluImm) | 0xbc => some ("mov32", aluReg)
  | 0xc4 => some ("arsh32", aluImm) | 0xcc => some ("arsh32", aluReg) | 0xd4 => some ("le", byteswap) | 0xdc => some ("be", byteswap)
  | 0x07 => some ("add64", aluImm) | 0x0f => some ("add64", aluReg) | 0x17 => some ("sub64", aluImm) | 0x1f => some ("sub64", aluReg)
  | 0x27 => some ("mul64", aluImm) | 0x2f => some ("mul64", aluReg) | 0x37 => some ("div64", aluImm) | 0x3f => some ("div64", aluReg)
  | 0x47 => some ("or64", aluImm) | 0x4f => some ("or64", aluReg) | 0x57 => some ("and64", aluImm) | 0x5f => some ("and64", aluReg)
  | 0x67 => some ("lsh64", aluImm) | 0x6f => some ("lsh64", aluReg) | 0x77 => some ("rsh64", aluImm) | 0x7f => some ("rsh64", aluReg)
  | 0x87 => some ("neg64", unary) | 0x97 => some ("mod64", aluImm) | 0x9f => some ("mod64", aluReg)
  | 0xa7 => some ("xor64", aluImm) | 0xaf => some ("xor64", aluReg) | 0xb7 => some ("mov64", aluImm) | 0xbf => some ("mov64", aluReg)
  | 0xc7 => some ("arsh64", aluImm) | 0xcf => some ("arsh64", aluReg)
  | 0x05 => some ("ja", fun n i => s!"{n} {offSigned i.off}")
  | 0x15 => some ("jeq", jmpImm) | 0x1d => some ("jeq", jmpReg) | 0x25 => some ("jgt", jmpImm) | 0x2d => some ("jgt", jmpReg)
  | 0x35 => some ("jge", jmpImm) | 0x3d => some ("jge", jmpReg) | 0xa5 => some ("jlt", jmpImm) | 0xad => some ("jlt", jmpReg)
  | 0xb5 => some ("jle", jmpImm) | 0xbd => some ("jle", jmpReg) | 0x45 => some ("jset", jmpImm) | 0x4d => some ("jset", jmpReg)
  | 0x55 => some ("jne", jmpImm) | 0x5d => some ("jne", jmpReg) | 0x65 => some ("jsgt", jmpImm) | 0x6d => some ("jsgt", jmpReg)
  | 0x75 => some ("jsge", jmpImm) | 0x7d => some ("jsge", jmpReg) | 0xc5 => some ("jslt", jmpImm) | 0xcd => some ("jslt", jmpReg)
  | 0xd5 => some ("jsle", jmpImm) | 0xdd => some ("jsle", jmpReg)
  | 0x8d => some ("tail_call", plain) | 0x95 => some ("exit", plain)
  | 0x16 => some ("jeq32", jmpImm) | 0x1e => some ("jeq32", jmpReg) | 0x26 => some ("jgt32", jmpImm) | 0x2e => some ("jgt32", jmpReg)
  | 0x36 => some ("jge32", jmpImm) | 0x3e => some ("jge32", jmpReg) | 0xa6 => some ("jlt32", jmpImm) | 0xae => some ("jlt32", jmpReg)
  | 0xb6 => some ("jle32", jmpImm) | 0xbe => some ("jle32", jmpReg) | 0x46 => some ("jset32", jmpImm) | 0x4e => some ("jset32", jmpReg)
  | 0x56 => some ("jne32", jmpImm) | 0x5e => some ("jne32", jmpReg) | 0x66 => some ("jsgt32", jmpImm) | 0x6e => some ("jsgt32", jmpReg)
  | 0x76 => some ("jsge32", jmpImm) | 0x7e => some ("jsge32", jmpReg) | 0xc6 => some ("jslt32", jmpImm) | 0xce => some ("jslt32", jmpReg)
  | 0xd6 => some ("jsle32", jmpImm) | 0xde => some ("jsle32", jmpReg)
  | _ => none

/-- one loop iteration: the entry for the instruction at `pc` and the number of slots it occupies -/
def entryAt (p : Bytes) (pc : Nat) : Option (HLInsn × Nat) :=
  match getInsn? p pc with
  | none => none
  | some i =>
    let mk (name desc : String) (imm : BitVec 64) : HLInsn :=
      { opc := i.opc, name, desc, dst := i.dst, src := i.src, off := i.off, imm }
    if i.opc = 0x18 then
      match getInsn? p (pc + 1) with
      | none => none                                       -- `get_insn` panics
      | some next =>
        let imm : BitVec 64 := i.imm.setWidth 64 + (next.imm.signExtend 64 <<< (32 : Nat))
        some (mk "lddw" s!"lddw {reg i.dst}, {fmtHex imm.toNat}" imm, 2)
    else if i.opc = 0x85 then
      if i.src = 0 then some (mk "call" (callStr "call" i) (i.imm.signExtend 64), 1)
      else if i.src = 1 then some (mk "callx" (callStr "callx" i) (i.imm.signExtend 64), 1)
      else none
    else match arm i.opc.toNat with
      | some (name, render) => some (mk name (render name i) (i.imm.signExtend 64), 1)
      | none => none

def loop (p : Bytes) : Nat → Nat → List HLInsn → Option (List HLInsn)
  | 0, _, _ => none
  | fuel + 1, pc, acc =>
    if pc * 8 < p.size then
      match entryAt p pc with
      | some (e, n) => loop p fuel (pc + n) (e :: acc)
      | none => none
    else some acc.reverse

/-- `disassembler::to_insn_vec` -/
def toInsnVec (p : Bytes) : Option (List HLInsn) :=
  if p.size % 8 ≠ 0 then none
  else if p.size = 0 then some []
  else loop p (p.size / 8 + 1) 0 []

end Rbpf.Disasm
