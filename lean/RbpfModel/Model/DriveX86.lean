/- protocol glue for the `x86step` suite: one `X86.step` from a given machine state (not part of any theorem) -/
import RbpfModel.Model.Hex
import RbpfModel.Model.X86
import RbpfModel.Model.DriveExec
namespace Rbpf.Drive
open Rbpf.Hex

/-- `x86 code=<hex> regs=<16 values, hex or M+k> fl=<hex nibble: CF ZF SF OF> ms=<fill pattern salt> jump=<0|1> xbase=<hex>` -/
def handleX86 (toks : List String) : String :=
  let kv := kvOf toks
  match (look kv "code").bind parseBytes?, look kv "regs", (look kv "fl").bind parseNat?, (look kv "ms").bind (·.toNat?), (look kv "xbase").bind parseNat? with
  | some code, some regsS, some fl, some ms, some xbase =>
    let regTok (s : String) : Option (BitVec 64) :=
      if s.startsWith "M+" then ((s.drop 2).toString.toNat?).map (fun k => BitVec.ofNat 64 (xbase + k)) else (parseNat? s).map (BitVec.ofNat 64)
    match (regsS.splitOn ",").mapM regTok with
    | some rl =>
      if rl.length ≠ 16 then "bad-op" else
      let jump := look kv "jump" == some "1"
      let region : Region := ⟨xbase, (Array.range 256).map fun i => BitVec.ofNat 8 (((i % 256 * 37 + ms) % 256) ||| 1)⟩
      let regs : Vector (BitVec 64) 16 := (Vector.replicate 16 0).mapIdx fun i _ => rl.getD i 0
      let cfg : X86.Cfg := { code := code.map (fun b => UInt8.ofNat b.toNat), codeBase := 0x1000, ext := fun _ => none, retSentinel := 0 }
      let s0 : X86.St := { reg := regs, rip := 0x1000, log := [], mem := [region],
                           flags := some { cf := fl % 2 = 1, zf := fl / 2 % 2 = 1, sf := fl / 4 % 2 = 1, of := fl / 8 % 2 = 1 } }
      match X86.step cfg s0 with
      | .next s =>
        let b (x : Bool) : String := if x then "1" else "0"
        let f := match s.flags with | some f => b f.cf ++ b f.zf ++ b f.sf ++ b f.of | none => "----"
        let t := if jump then (if s.rip == 0x1000 + code.size + 7 then "1" else "0") else "-"
        let m := match s.mem with | r :: _ => bytesHex r.bytes.toList | [] => "-"
        let rs := ",".intercalate ((List.range 16).map fun i => natHex (s.get i).toNat 16)
        s!"ok r={rs} f={f} t={t} m={m}"
      | .done _ _ => "done"
      | .fault w => "fault:" ++ w.replace " " "_"
    | none => "bad-op"
  | _, _, _, _, _ => "bad-op"

end Rbpf.Drive
