/-
  Memory as the interpreter sees it: host addresses, the three regions `check_mem` knows by
  pointer/length (metadata buffer, packet data, the private 512-byte stack), registered allowed
  ranges, and the backing store behind those ranges.  Model of `check_mem` (interpreter.rs:18-50).
-/
import RbpfModel.Model.Insn
namespace Rbpf

structure Region where
  base : Nat                      -- host address of the first byte (`as_ptr() as u64`)
  bytes : Array (BitVec 8)
deriving Repr, Inhabited

namespace Region
def size (r : Region) : Nat := r.bytes.size
/-- all `w` bytes starting at host address `a` lie inside the region -/
def contains (r : Region) (a w : Nat) : Bool := r.base ≤ a && a + w ≤ r.base + r.bytes.size
end Region

structure Memory where
  mbuff : Region
  mem : Region
  stack : Region
  extra : List Region             -- backing store of registered allowed ranges
deriving Repr, Inhabited

namespace Memory

def regions (m : Memory) : List Region := m.mbuff :: m.mem :: m.stack :: m.extra

/-- read `w` bytes at host address `a` from the first region that holds all of them -/
def readBytes? (m : Memory) (a w : Nat) : Option (List (BitVec 8)) :=
  match m.regions.find? (fun r => r.contains a w) with
  | some r => some ((List.range w).map (fun k => r.bytes.getD (a - r.base + k) 0))
  | none => none

def writeRegion (r : Region) (a : Nat) (bs : List (BitVec 8)) : Region :=
  { r with bytes := (List.range bs.length).foldl (fun acc k => acc.setIfInBounds (a - r.base + k) (bs.getD k 0)) r.bytes }

def writeExtra (rs : List Region) (a : Nat) (bs : List (BitVec 8)) : Option (List Region) :=
  match rs with
  | [] => none
  | r :: rest =>
    if r.contains a bs.length then some (writeRegion r a bs :: rest)
    else (writeExtra rest a bs).map (r :: ·)

/-- write bytes at host address `a` into the first region that holds all of them -/
def writeBytes? (m : Memory) (a : Nat) (bs : List (BitVec 8)) : Option Memory :=
  if m.mbuff.contains a bs.length then some { m with mbuff := writeRegion m.mbuff a bs }
  else if m.mem.contains a bs.length then some { m with mem := writeRegion m.mem a bs }
  else if m.stack.contains a bs.length then some { m with stack := writeRegion m.stack a bs }
  else (writeExtra m.extra a bs).map (fun e => { m with extra := e })

end Memory

/-- little-endian value of a byte list (`read_unaligned` of u8/u16/u32/u64 on a little-endian host) -/
def leValue : List (BitVec 8) → Nat
  | [] => 0
  | b :: rest => b.toNat + 256 * leValue rest

/-- the `w` low-order bytes of `v`, least significant first (`write_unaligned`) -/
def leBytes (v : Nat) : (w : Nat) → List (BitVec 8)
  | 0 => []
  | w + 1 => BitVec.ofNat 8 v :: leBytes (v / 256) w

/-- `check_mem`: `addr.checked_add(len)` must not overflow and the access must lie inside the
    metadata buffer, the packet data, the stack, or a registered range -/
def checkMem (m : Memory) (allowed : List (Nat × Nat)) (addr : BitVec 64) (len : Nat) : Bool :=
  let a := addr.toNat
  if a + len ≥ 2 ^ 64 then false
  else m.mbuff.contains a len || m.mem.contains a len || m.stack.contains a len ||
       allowed.any (fun r => r.1 ≤ a && a + len ≤ r.2)

end Rbpf
