/-
  protocol glue for `clifdump`: the translation of `Model/ClifAst.lean` printed in the canonical format of
  `harness/src/clifir.rs` (not part of any theorem).

  The canonical form: block headers `B<k>:` (`B0` the prelude, then the program's blocks in layout order = increasing
  pc of the block starts that are instruction starts); one line per IR instruction `<srcloc> <opcode[.type]> <args>`
  with `<srcloc>` the eBPF instruction index in hex (at least four digits) or `-` in the prelude; value operands `l<k>`
  (defined by the k-th value-defining instruction of the same eBPF instruction) or `x` (anything else: a variable
  read, a function parameter); `def_var` prints nothing.
-/
import RbpfModel.Model.Hex
import RbpfModel.Model.ClifAst
import RbpfModel.Model.DriveExec
namespace Rbpf.Drive
open Rbpf.Hex Rbpf.ClifAst

def tyStr : Ty → String | .i8 => "i8" | .i16 => "i16" | .i32 => "i32" | .i64 => "i64"
def tyBits : Ty → Nat | .i8 => 8 | .i16 => 16 | .i32 => 32 | .i64 => 64

def argStr : Arg → String
  | .loc k => s!"l{k}"
  | .var _ => "x"
  | .param _ => "x"

def binStr : BinOp → String
  | .iadd => "iadd" | .isub => "isub" | .imul => "imul" | .udiv => "udiv" | .urem => "urem" | .band => "band"
  | .bor => "bor" | .bxor => "bxor" | .ishl => "ishl" | .ushr => "ushr" | .sshr => "sshr"

def ccStr : CC → String
  | .eq => "eq" | .ne => "ne" | .ugt => "ugt" | .uge => "uge" | .ult => "ult" | .ule => "ule"
  | .sgt => "sgt" | .sge => "sge" | .slt => "slt" | .sle => "sle"

/-- lower-case hex without padding -/
def hexMin (n : Nat) : String := String.ofList (Nat.toDigits 16 n)

/-- hex with at least `w` digits -/
def hexPad (n : Nat) (w : Nat) : String :=
  let s := hexMin n
  String.ofList (List.replicate (w - s.length) '0') ++ s

/-- Cranelift's `Offset32` display: nothing for 0, a sign always, decimal below 10000, else `0x` and groups of four
    hex digits separated by `_` (the canonical form keeps this text as it is) -/
def offsetStr (off : Int) : String :=
  if off = 0 then "" else
  let sign := if off < 0 then "-" else "+"
  let v := off.natAbs
  if v < 10000 then sign ++ toString v
  else
    let groups := (hexMin v).length / 4 + (if (hexMin v).length % 4 = 0 then 0 else 1)
    let parts := (List.range groups).reverse.map fun g => hexPad ((v >>> (16 * g)) % 65536) 4
    sign ++ "0x" ++ "_".intercalate parts

/-- the text of one op after the source location; `none` for `defVar`.  `blk` names the block of a pc, `argStr` an
    operand, `fnStr` a callee. -/
def opStrWith (blk : Nat → String) (argStr : Arg → String) (fnStr : Nat → String) : Op → Option String
  | .iconst t v => some s!"iconst.{tyStr t} {hexMin (v.toNat % 2 ^ tyBits t)}"
  | .un .ineg a => some s!"ineg {argStr a}"
  | .un .bswap a => some s!"bswap {argStr a}"
  | .un (.ireduce t) a => some s!"ireduce.{tyStr t} {argStr a}"
  | .un (.uextend t) a => some s!"uextend.{tyStr t} {argStr a}"
  | .un (.sextend t) a => some s!"sextend.{tyStr t} {argStr a}"
  | .bin o a b => some s!"{binStr o} {argStr a}, {argStr b}"
  | .icmp c a b => some s!"icmp {ccStr c} {argStr a}, {argStr b}"
  | .icmpImm c a imm => some s!"icmp_imm {ccStr c} {argStr a}, {imm}"
  | .select c a b => some s!"select {argStr c}, {argStr a}, {argStr b}"
  | .load t a off => some s!"load.{tyStr t} little {argStr a}{offsetStr off}"
  | .store v a off => some s!"store little {argStr v}, {argStr a}{offsetStr off}"
  -- Cranelift's printer does not show the memory flags of `atomic_rmw`
  | .atomicAdd t a v => some s!"atomic_rmw.{tyStr t} add {argStr a}, {argStr v}"
  | .call k args => some s!"call {fnStr k}({", ".intercalate (args.map argStr)})"
  | .trapz a => some s!"trapz {argStr a}, heap_oob"
  | .defVar _ _ => none
  | .brif c t f => some s!"brif {argStr c}, {blk t}, {blk f}"
  | .jump t => some s!"jump {blk t}"
  | .ret a => some s!"return {argStr a}"
  | .stackAddr off => some (if off = 0 then "stack_addr.i64 ss0" else s!"stack_addr.i64 ss0+{off}")

def opStr (blk : Nat → String) : Op → Option String := opStrWith blk argStr (fun _ => "fn")

/-- layout order: for every pc the number of the block that starts there — the block starts that are instruction starts,
    in increasing order, numbered from 1 (`B0` is the prelude) — or 0 when no block is entered at that pc -/
def blockTable (blocks : List Nat) (tr : List (Nat × List Op)) : Array Nat :=
  let n := (tr.getLast?.map (·.1 + 1)).getD 0
  let isStart : Array Bool := tr.foldl (fun a (pc, _) => a.set! pc true) (Array.replicate n false)
  (blocks.foldl (fun (tab, k) b => if isStart.getD b false then (tab.set! b (k + 1), k + 1) else (tab, k))
    (Array.replicate n 0, 0)).1

def blockName (tab : Array Nat) (pc : Nat) : String :=
  match tab.getD pc 0 with
  | 0 => "B?"
  | k => s!"B{k}"

/-- the lines of a successful compilation -/
def linesOf (blocks : List Nat) (tr : List (Nat × List Op)) : List String :=
  let tab := blockTable blocks tr
  let blk := blockName tab
  let block0 := "B0:" :: prelude.filterMap fun o => (opStr blk o).map ("- " ++ ·)
  block0 ++ tr.flatMap fun (pc, ops) =>
    (if tab.getD pc 0 ≠ 0 then [blk pc ++ ":"] else []) ++
    ops.filterMap fun o => (opStr blk o).map (hexPad pc 4 ++ " " ++ ·)

/-- the canonical lines; `none` where the real compiler fails -/
def canonLinesR (p : Bytes) (helpers : Nat → Bool) : Except Fail (List String) := do
  let tr ← compileR helpers p
  pure (linesOf (blockStarts p) tr)

def canonLines (p : Bytes) (helpers : Nat → Bool) : Option (List String) := (canonLinesR p helpers).toOption

/-! ### The resolved form (`clifir::canon_resolved`): which variable an operation reads

A value operand that is not `l<k>` is named `<loc>.<k>` when it was defined earlier in the same block by the k-th
value-defining instruction of source location `<loc>`; the six bounds variables, which only the prelude defines, are
named after the prelude value they hold (`a0` first area, `-.3` its end, `a2` second area, `-.4` its end, `-.1` stack start,
`-.2` stack end); anything else is `x`.  (cranelift-frontend leaves a block parameter where a block has a predecessor that
cannot be reached from the entry; the real side then shows `x` for a bounds variable: `clifdiff.sh -r` accepts that.) -/

def boundsName (v : Nat) : String :=
  if v = vMemStart then "a0" else if v = vMemEnd then "-.3" else if v = vMbufStart then "a2" else if v = vMbufEnd then "-.4"
  else if v = vStackStart then "-.1" else if v = vStackEnd then "-.2" else "x"

structure ResState where
  /-- the variables defined in the current block so far, with the name of the value they hold -/
  cur : Array (Option String) := Array.replicate 17 none
  /-- helper ids in order of first call -/
  fns : List Nat := []
  lines : Array String := #[]

def linesOfRes (blocks : List Nat) (tr : List (Nat × List Op)) : List String :=
  let tab := blockTable blocks tr
  let blk := blockName tab
  let doOps (loc : String) (ops : List Op) (st : ResState) : ResState :=
    ops.foldl (fun st o =>
      -- (the closures below must not capture `st`: its `lines` array is updated in place)
      let cur := st.cur
      let fns := match o with
        | .call k _ => if st.fns.contains k then st.fns else st.fns ++ [k]
        | _ => st.fns
      let name (a : Arg) : String := match a with
        | .loc k => s!"{loc}.{k}"
        | .var v => (cur.getD v none).getD (boundsName v)
        | .param k => s!"a{k}"
      let arg (a : Arg) : String := match a with
        | .loc k => s!"l{k}"
        | a => name a
      let fnStr (k : Nat) : String := match fns.idxOf? k with | some n => s!"fn#{n}" | none => "fn#?"
      let lines := match opStrWith blk arg fnStr o with
        | some t => st.lines.push (loc ++ " " ++ t)
        | none => st.lines
      let cur := match o with
        | .defVar v a => cur.set! v (some (name a))
        | _ => cur
      { cur, fns, lines }) st
  let st0 := doOps "-" prelude { lines := #["B0:"] }
  let st := tr.foldl (fun st (pc, ops) =>
    let st := if tab.getD pc 0 ≠ 0 then { st with cur := Array.replicate 17 none, lines := st.lines.push (blk pc ++ ":") } else st
    doOps (hexPad pc 4) ops st) st0
  st.lines.toList

/-- `<ids>`: decimal helper ids separated by commas, or `-` -/
def parseIds? (s : String) : Option (List Nat) :=
  if s == "-" then some [] else (s.splitOn ",").mapM (·.toNat?)

/-- `clifdump <proghex> <ids>`: the lines joined by `" ;; "`, or `compile-err` (the compiler's `Err`), or `panic` -/
def handleClifDump (prog ids : String) : String :=
  match parseBytes? prog, parseIds? ids with
  | some p, some l =>
    match canonLinesR p (fun k => l.contains k) with
    | .ok ls => " ;; ".intercalate ls
    | .error .err => "compile-err"
    | .error .panic => "panic"
  | _, _ => "bad-op"

/-- `clifdumpr <proghex> <ids>`: the same in the resolved form -/
def handleClifDumpR (prog ids : String) : String :=
  match parseBytes? prog, parseIds? ids with
  | some p, some l =>
    match compileR (fun k => l.contains k) p with
    | .ok tr => " ;; ".intercalate (linesOfRes (blockStarts p) tr)
    | .error .err => "compile-err"
    | .error .panic => "panic"
  | _, _ => "bad-op"

/-- `<number of lines>.<fnv1a64 of the lines joined by \n, 16 hex digits>` (the `clifir=` field of the engine suites) -/
def clifDigest (p : Bytes) (helpers : Nat → Bool) : String :=
  match canonLinesR p helpers with
  | .ok ls =>
    let bytes := ("\n".intercalate ls).toUTF8.toList.map fun b => BitVec.ofNat 8 b.toNat
    s!"{ls.length}.{u64Hex (fnvList bytes)}"
  | .error .err => "compile-err"
  | .error .panic => "panic"

/-- the `clifirsem=` field appended to the model's line of an engine case: the digest of the translator model's IR for the
    (patched) program and the registered helper ids -/
def clifIrField (toks : List String) : String :=
  match parseExec? toks with
  | some c =>
    if c.engines || (look (kvOf toks) "anyprog").isSome then
      " | clifirsem=" ++ clifDigest (applyPatches c) (fun k => c.helpers.any (·.1 == k))
    else ""
  | none => ""

end Rbpf.Drive
