/-
  Specification side of C13/C16: the documented assembly syntax.  The mnemonic table is a literal
  list (one row per documented mnemonic: name, operand shape, opcode of the immediate form) written
  from the eBPF opcode layout, not produced by the assembler model's loops; `denote` says which
  instruction fields each operand list denotes; `render*` say which texts spell an instruction.
-/
import RbpfModel.Model.Asm
namespace Rbpf.AsmSpec
open Rbpf.Asm

inductive Shape
  | aluBin | aluUn | loadImm | loadAbs | loadInd | loadReg | storeImm | storeReg | ja | jcc | call | callx
  | endian (bits : Nat) | noOp
  deriving DecidableEq, Repr

/-- documented mnemonics: (name, shape, opcode; for `aluBin`/`jcc` the opcode of the immediate form,
    the register form sets bit 3) -/
def table : List (String × Shape × Nat) := [
  ("add", .aluBin, 0x07), ("add32", .aluBin, 0x04), ("add64", .aluBin, 0x07), ("sub", .aluBin, 0x17),
  ("sub32", .aluBin, 0x14), ("sub64", .aluBin, 0x17), ("mul", .aluBin, 0x27), ("mul32", .aluBin, 0x24),
  ("mul64", .aluBin, 0x27), ("div", .aluBin, 0x37), ("div32", .aluBin, 0x34), ("div64", .aluBin, 0x37),
  ("or", .aluBin, 0x47), ("or32", .aluBin, 0x44), ("or64", .aluBin, 0x47), ("and", .aluBin, 0x57),
  ("and32", .aluBin, 0x54), ("and64", .aluBin, 0x57), ("lsh", .aluBin, 0x67), ("lsh32", .aluBin, 0x64),
  ("lsh64", .aluBin, 0x67), ("rsh", .aluBin, 0x77), ("rsh32", .aluBin, 0x74), ("rsh64", .aluBin, 0x77),
  ("mod", .aluBin, 0x97), ("mod32", .aluBin, 0x94), ("mod64", .aluBin, 0x97), ("xor", .aluBin, 0xa7),
  ("xor32", .aluBin, 0xa4), ("xor64", .aluBin, 0xa7), ("mov", .aluBin, 0xb7), ("mov32", .aluBin, 0xb4),
  ("mov64", .aluBin, 0xb7), ("arsh", .aluBin, 0xc7), ("arsh32", .aluBin, 0xc4), ("arsh64", .aluBin, 0xc7),
  ("neg", .aluUn, 0x87), ("neg32", .aluUn, 0x84), ("neg64", .aluUn, 0x87), ("lddw", .loadImm, 0x18),
  ("ldabsw", .loadAbs, 0x20), ("ldindw", .loadInd, 0x40), ("ldxw", .loadReg, 0x61), ("stw", .storeImm, 0x62),
  ("stxw", .storeReg, 0x63), ("ldabsh", .loadAbs, 0x28), ("ldindh", .loadInd, 0x48), ("ldxh", .loadReg, 0x69),
  ("sth", .storeImm, 0x6a), ("stxh", .storeReg, 0x6b), ("ldabsb", .loadAbs, 0x30), ("ldindb", .loadInd, 0x50),
  ("ldxb", .loadReg, 0x71), ("stb", .storeImm, 0x72), ("stxb", .storeReg, 0x73), ("ldabsdw", .loadAbs, 0x38),
  ("ldinddw", .loadInd, 0x58), ("ldxdw", .loadReg, 0x79), ("stdw", .storeImm, 0x7a), ("stxdw", .storeReg, 0x7b),
  ("ja", .ja, 0x05), ("jeq", .jcc, 0x15), ("jeq32", .jcc, 0x16), ("jgt", .jcc, 0x25),
  ("jgt32", .jcc, 0x26), ("jge", .jcc, 0x35), ("jge32", .jcc, 0x36), ("jset", .jcc, 0x45),
  ("jset32", .jcc, 0x46), ("jne", .jcc, 0x55), ("jne32", .jcc, 0x56), ("jsgt", .jcc, 0x65),
  ("jsgt32", .jcc, 0x66), ("jsge", .jcc, 0x75), ("jsge32", .jcc, 0x76), ("jlt", .jcc, 0xa5),
  ("jlt32", .jcc, 0xa6), ("jle", .jcc, 0xb5), ("jle32", .jcc, 0xb6), ("jslt", .jcc, 0xc5),
  ("jslt32", .jcc, 0xc6), ("jsle", .jcc, 0xd5), ("jsle32", .jcc, 0xd6), ("call", .call, 0x85),
  ("callx", .callx, 0x85), ("exit", .noOp, 0x95), ("be16", .endian 16, 0xdc), ("be32", .endian 32, 0xdc),
  ("be64", .endian 64, 0xdc), ("le16", .endian 16, 0xd4), ("le32", .endian 32, 0xd4), ("le64", .endian 64, 0xd4)
]

def find (name : List Char) : Option (Shape × Nat) := (table.find? (fun r => r.1.toList == name)).map (·.2)

def regOk (r : Int) : Prop := 0 ≤ r ∧ r < 16
def offOk (o : Int) : Prop := -32768 ≤ o ∧ o < 32768
def immOk (i : Int) : Prop := -2147483648 ≤ i ∧ i < 2147483648
def imm64Ok (i : Int) : Prop := -(2 ^ 63) ≤ i ∧ i < 2 ^ 63

instance (r) : Decidable (regOk r) := by unfold regOk; infer_instance
instance (r) : Decidable (offOk r) := by unfold offOk; infer_instance
instance (r) : Decidable (immOk r) := by unfold immOk; infer_instance
instance (r) : Decidable (imm64Ok r) := by unfold imm64Ok; infer_instance

def mk (opc : Nat) (dst src off imm : Int) : Insn :=
  { opc := BitVec.ofNat 8 opc, dst := BitVec.ofInt 8 dst, src := BitVec.ofInt 8 src, off := BitVec.ofInt 16 off, imm := BitVec.ofInt 32 imm }

/-- the instruction slots a parsed instruction denotes: exactly the fields written, unused fields zero,
    `lddw` = two slots holding the low and the high half of the 64-bit immediate; `none` = not an
    instruction of the documented syntax (unknown mnemonic, wrong operand shape, operand out of range) -/
def denote (i : Instruction) : Option (List Insn) :=
  match find i.name with
  | none => none
  | some (sh, opc) =>
    match sh, i.operands with
    | .aluBin, [.register d, .register s] => if regOk d ∧ regOk s then some [mk (opc + 8) d s 0 0] else none
    | .aluBin, [.register d, .integer v] => if regOk d ∧ immOk v then some [mk opc d 0 0 v] else none
    | .aluUn, [.register d] => if regOk d then some [mk opc d 0 0 0] else none
    | .loadImm, [.register d, .integer v] =>
        if regOk d ∧ imm64Ok v then some [mk opc d 0 0 (v % 2 ^ 32), mk 0 0 0 0 (v / 2 ^ 32)] else none
    | .loadAbs, [.integer v] => if immOk v then some [mk opc 0 0 0 v] else none
    | .loadInd, [.register s, .integer v] => if regOk s ∧ immOk v then some [mk opc 0 s 0 v] else none
    | .loadReg, [.register d, .memory s o] => if regOk d ∧ regOk s ∧ offOk o then some [mk opc d s o 0] else none
    | .storeImm, [.memory d o, .integer v] => if regOk d ∧ offOk o ∧ immOk v then some [mk opc d 0 o v] else none
    | .storeReg, [.memory d o, .register s] => if regOk d ∧ regOk s ∧ offOk o then some [mk opc d s o 0] else none
    | .ja, [.integer o] => if offOk o then some [mk opc 0 0 o 0] else none
    | .jcc, [.register d, .register s, .integer o] => if regOk d ∧ regOk s ∧ offOk o then some [mk (opc + 8) d s o 0] else none
    | .jcc, [.register d, .integer v, .integer o] => if regOk d ∧ immOk v ∧ offOk o then some [mk opc d 0 o v] else none
    | .call, [.integer v] => if immOk v then some [mk opc 0 0 0 v] else none
    | .callx, [.integer v] => if immOk v then some [mk opc 0 1 0 v] else none
    | .endian bits, [.register d] => if regOk d then some [mk opc d 0 0 bits] else none
    | .noOp, [] => some [mk opc 0 0 0 0]
    | _, _ => none

def denoteAll : List Instruction → Option (List Insn)
  | [] => some []
  | i :: rest => match denote i, denoteAll rest with
    | some a, some b => some (a ++ b)
    | _, _ => none

-- spellings ------------------------------------------------------------------------------------------

def decDigits (n : Nat) : List Char :=
  if _h : n < 10 then [Char.ofNat (48 + n)] else decDigits (n / 10) ++ [Char.ofNat (48 + n % 10)]
decreasing_by omega

def hexDigitChar (upper : Bool) (n : Nat) : Char :=
  if n < 10 then Char.ofNat (48 + n) else if upper then Char.ofNat (55 + n) else Char.ofNat (87 + n)

def hexDigits (upper : Bool) (n : Nat) : List Char :=
  if _h : n < 16 then [hexDigitChar upper n] else hexDigits upper (n / 16) ++ [hexDigitChar upper (n % 16)]
decreasing_by omega

/-- how an integer literal is written: radix, letter case of hex digits, leading zeros, explicit '+' -/
structure IntStyle where
  hex : Bool := false
  upper : Bool := false
  zeros : Nat := 0
  plus : Bool := false

/-- a spelling of the integer `v` (sign, then magnitude) -/
def renderInt (st : IntStyle) (v : Int) : List Char :=
  let mag := v.natAbs
  let body := if st.hex then '0' :: 'x' :: (List.replicate st.zeros '0' ++ hexDigits st.upper mag)
              else List.replicate st.zeros '0' ++ decDigits mag
  if v < 0 then '-' :: body else if st.plus then '+' :: body else body

def renderReg (r : Int) : List Char := 'r' :: decDigits r.natAbs

/-- `[rN]`, `[rN+off]`, `[rN-off]`: the offset carries its sign, a non-negative one needs '+' -/
def renderMem (st : IntStyle) (omitZero : Bool) (r : Int) (off : Int) : List Char :=
  if off = 0 ∧ omitZero then '[' :: renderReg r ++ [']']
  else '[' :: renderReg r ++ renderInt { st with plus := true } off ++ [']']

def renderOperand (st : IntStyle) (omitZero : Bool) : Operand → List Char
  | .register r => renderReg r
  | .integer v => renderInt st v
  | .memory r off => renderMem st omitZero r off

/-- layout of one instruction: whitespace after the mnemonic (non-empty when operands follow), whitespace
    after each comma, a style per operand -/
structure Layout where
  afterName : List Char
  afterComma : List Char
  styles : List IntStyle
  omitZero : Bool := false

def renderOperands (l : Layout) : List Operand → List IntStyle → List Char
  | [], _ => []
  | [o], sts => renderOperand (sts.headD {}) l.omitZero o
  | o :: rest, sts => renderOperand (sts.headD {}) l.omitZero o ++ (',' :: l.afterComma) ++ renderOperands l rest sts.tail

def renderInsn (l : Layout) (i : Instruction) : List Char :=
  i.name ++ l.afterName ++ renderOperands l i.operands l.styles

/-- a program text: leading whitespace, instructions each followed by its own separator whitespace -/
def renderProg (lead : List Char) : List (Instruction × Layout × List Char) → List Char
  | [] => lead
  | (i, l, sepWs) :: rest => lead ++ renderInsn l i ++ sepWs ++ renderProg [] rest

end Rbpf.AsmSpec
