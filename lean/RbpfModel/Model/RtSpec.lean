/-
  Specification side of C15/C16: which byte strings the disassembler must handle, the canonical form
  of a program (every field an instruction uses kept, unused fields cleared), and the round trip
  "assemble the text the disassembler prints".
-/
import RbpfModel.Model.Asm
import RbpfModel.Model.Disasm
import RbpfModel.Model.WellFormed
namespace Rbpf.RtSpec

/-- which fields an instruction uses, by the layout of its opcode byte -/
inductive Uses | dstSrc | dstImm | dstOnly | imm | srcImm | dstSrcOff | dstOffImm | off | dstSrcOffJ | dstImmOff | callImm | none_
  deriving DecidableEq, Repr

/-- operand usage of a supported, assembler-expressible opcode (`none` = the assembler has no mnemonic for
    it: atomic add, tail call; or not an opcode at all). `lddw` (0x18) is handled separately. -/
def usesOf (opc : BitVec 8) : Option Uses :=
  let n := opc.toNat
  let cls := n % 8
  let hi := n / 16
  let x := (n / 8) % 2 = 1
  if cls = 4 ∨ cls = 7 then
    if hi = 8 then (if x then none else some .dstOnly)                  -- neg
    else if hi = 13 then (if cls = 4 then some .dstImm else none)       -- le / be (imm = width)
    else if hi ≤ 12 then some (if x then .dstSrc else .dstImm)
    else none
  else if cls = 5 ∨ cls = 6 then
    if n = 0x05 then some .off
    else if n = 0x85 then some .callImm
    else if n = 0x95 then some .none_
    else if hi ∈ [1, 2, 3, 4, 5, 6, 7, 10, 11, 12, 13] then some (if x then .dstSrcOffJ else .dstImmOff)
    else none
  else if cls = 0 then (if n / 32 = 1 then some .imm else if n / 32 = 2 then some .srcImm else none)
  else if cls = 1 then (if n / 32 = 3 then some .dstSrcOff else none)
  else if cls = 2 then (if n / 32 = 3 then some .dstOffImm else none)
  else if cls = 3 then (if n / 32 = 3 then some .dstSrcOff else none)
  else none

/-- one slot with the unused fields cleared -/
def canonSlot (i : Insn) : Option Insn :=
  match usesOf i.opc with
  | none => none
  | some u =>
    match u with
    | .dstSrc => some { i with off := 0, imm := 0 }
    | .dstImm =>
      if (i.opc = 0xd4 ∨ i.opc = 0xdc) ∧ ¬ (i.imm = 16 ∨ i.imm = 32 ∨ i.imm = 64) then none
      else some { i with src := 0, off := 0 }
    | .dstOnly => some { i with src := 0, off := 0, imm := 0 }
    | .imm => some { i with dst := 0, src := 0, off := 0 }
    | .srcImm => some { i with dst := 0, off := 0 }
    | .dstSrcOff => some { i with imm := 0 }
    | .dstOffImm => some { i with src := 0 }
    | .off => some { i with dst := 0, src := 0, imm := 0 }
    | .dstSrcOffJ => some { i with imm := 0 }
    | .dstImmOff => some { i with src := 0 }
    | .callImm => if i.src = 0 ∨ i.src = 1 then some { i with dst := 0, off := 0 } else none
    | .none_ => some { i with dst := 0, src := 0, off := 0, imm := 0 }

/-- canonical form of a program, instruction by instruction (a wide load keeps dst and both immediates) -/
def canonFrom (p : Bytes) : Nat → Nat → Option (List Insn)
  | 0, _ => none
  | fuel + 1, pc =>
    if pc * 8 < p.size then
      match getInsn? p pc with
      | none => none
      | some i =>
        if i.opc = 0x18 then
          match getInsn? p (pc + 1) with
          | none => none
          | some nx =>
            (canonFrom p fuel (pc + 2)).map fun rest =>
              { i with src := 0, off := 0 } :: { opc := 0, dst := 0, src := 0, off := 0, imm := nx.imm } :: rest
        else match canonSlot i with
          | none => none
          | some c => (canonFrom p fuel (pc + 1)).map (c :: ·)
    else some []

def canon (p : Bytes) : Option (List Insn) :=
  if p.size % 8 ≠ 0 then none else canonFrom p (p.size / 8 + 1) 0

/-- C16(a)'s hypothesis on a program: already canonical, and every 32-bit immediate is non-negative
    (wide loads: any 64-bit value) -/
def nonNegFrom (p : Bytes) : Nat → Nat → Bool
  | 0, _ => false
  | fuel + 1, pc =>
    if pc * 8 < p.size then
      match getInsn? p pc with
      | none => false
      | some i => if i.opc = 0x18 then nonNegFrom p fuel (pc + 2) else (!i.imm.msb) && nonNegFrom p fuel (pc + 1)
    else true

def Canonical (p : Bytes) : Prop :=
  (∃ xs, canon p = some xs ∧ encodeAll xs = p) ∧ nonNegFrom p (p.size / 8 + 1) 0 = true

instance (p) : Decidable (Canonical p) := by
  unfold Canonical
  cases h : canon p with
  | none => exact isFalse (by simp)
  | some xs => simp only [Option.some.injEq, exists_eq_left']; infer_instance

/-- the round trip: disassemble, print one instruction per line, assemble -/
def roundTrip (cc : Asm.CharClass) (p : Bytes) : Option (Asm.Outcome (List (BitVec 8))) :=
  match Disasm.toInsnVec p with
  | none => none                                     -- the disassembler panicked
  | some es => some (Asm.assemble cc ("\n".intercalate (es.map (·.desc))).toList)

/-- C15's domain: whole instructions with opcodes the disassembler knows, every wide load followed by
    its second slot, call kinds 0/1 -/
def disasmOkFrom (p : Bytes) : Nat → Nat → Bool
  | 0, _ => false
  | fuel + 1, pc =>
    if pc * 8 < p.size then
      match getInsn? p pc with
      | none => false
      | some i =>
        if i.opc = 0x18 then (getInsn? p (pc + 1)).isSome && disasmOkFrom p fuel (pc + 2)
        else if i.opc = 0x85 then (i.src = 0 || i.src = 1) && disasmOkFrom p fuel (pc + 1)
        else (WF.supported i.opc || i.opc == 0x8d) && disasmOkFrom p fuel (pc + 1)    -- the C06 opcode set, plus tail call
    else true

def DisasmOk (p : Bytes) : Prop := p.size % 8 = 0 ∧ disasmOkFrom p (p.size / 8 + 1) 0 = true

instance (p) : Decidable (DisasmOk p) := by unfold DisasmOk; infer_instance

end Rbpf.RtSpec
