/-
  C08 — helper calls follow the contract (generated-code part: x86-64 JIT and Cranelift models).  Only
  property theorems and their non-vacuity examples live here; helper lemmas are in `Lemmas/EngineLemmas.lean`.
-/
import RbpfModel.Model.EngineSem
import RbpfModel.Lemmas.EngineLemmas
import RbpfModel.Props.C08
namespace Rbpf

/-- in JIT-generated code a call with src = 0 is exactly the interpreter's helper call (same function, once,
    (r1..r5) in order, result in r0, r6..r10 untouched — by `C08_helper_interp`) -/
theorem C08_jit_helper (env : Env) (s : State) (insn : Insn) (h : insn.opc = 0x85) (h0 : insn.src = 0) :
    EngineSem.jitExec env s insn = Interp.callHelper env s insn.imm := by
  unfold EngineSem.jitExec
  rw [cmpImmSigned_none s insn (by rw [h]; decide)]
  dsimp only
  rw [xaddInsn_none env s insn (by rw [h]; decide)]
  dsimp only
  rw [if_neg (fun hc => by rw [h0] at hc; exact absurd hc.2 (by decide)), if_neg (by rw [h]; decide)]
  exact (C08_call_dispatch env s insn h).1 h0

/-- … and so it is in Cranelift-generated code (the registered ranges, which compiled code does not consult,
    play no role in a helper call) -/
theorem C08_clif_helper (env : Env) (s : State) (insn : Insn) (h : insn.opc = 0x85) (h0 : insn.src = 0) :
    EngineSem.clifExec env s insn = Interp.callHelper { env with allowed := [] } s insn.imm := by
  unfold EngineSem.clifExec
  rw [cmpImmSigned_none s insn (by rw [h]; decide)]
  dsimp only
  rw [xaddInsn_none _ s insn (by rw [h]; decide)]
  dsimp only
  exact (C08_call_dispatch { env with allowed := [] } s insn h).1 h0

/-- the contract, spelled out for both engines: a call to a registered id invokes exactly that function, once,
    with (r1..r5) in order, stores the result in r0, leaves r1..r10, memory, pc, frames unchanged; the call log
    grows by exactly one entry (id, [r1..r5]) -/
theorem C08_engines_helper_contract (env : Env) (s : State) (insn : Insn) (h : insn.opc = 0x85) (h0 : insn.src = 0)
    (f : HelperFn) (hf : env.helpers insn.imm.toNat = some f) (a1 a2 a3 a4 a5 : BitVec 64)
    (h1 : s.reg[1]? = some a1) (h2 : s.reg[2]? = some a2) (h3 : s.reg[3]? = some a3)
    (h4 : s.reg[4]? = some a4) (h5 : s.reg[5]? = some a5) :
    ∃ s', EngineSem.jitExec env s insn = .next s' ∧ EngineSem.clifExec env s insn = .next s' ∧
      s'.reg[0]? = some (f a1 a2 a3 a4 a5) ∧ (∀ i, 1 ≤ i → i ≤ 10 → s'.reg[i]? = s.reg[i]?) ∧
      s'.log = s.log ++ [(insn.imm.toNat, [a1, a2, a3, a4, a5])] ∧
      s'.mem = s.mem ∧ s'.pc = s.pc ∧ s'.frames = s.frames ∧ s'.usage = s.usage := by
  obtain ⟨s', hs', hrest⟩ := C08_helper_interp env s insn.imm f hf a1 a2 a3 a4 a5 h1 h2 h3 h4 h5
  refine ⟨s', by rw [C08_jit_helper env s insn h h0]; exact hs', ?_, hrest⟩
  rw [C08_clif_helper env s insn h h0]
  exact hs'

/-- an unregistered helper id anywhere in the program is a compile-time error in both compilers -/
theorem C08_unknown_helper_compile (env : Env)
    (h : ∃ e ∈ EngineSem.insns env.prog, e.2.opc = 0x85 ∧ e.2.src = 0 ∧ env.helpers e.2.imm.toNat = none) :
    EngineSem.jitCompile env = .err ∧ EngineSem.clifCompile env = .err := by
  obtain ⟨e, he, hop, h0, hn⟩ := h
  constructor
  · refine compile_ne_ok (jitCompile_cases env) fun hok => ?_
    rcases (jitCompile_ok_iff env).1 hok e he hop with ⟨_, hs⟩ | h1
    · rw [hn] at hs; cases hs
    · rw [h0] at h1; revert h1; decide
  · refine compile_ne_ok (clifCompile_cases env) fun hok => ?_
    have hs := ((clifCompile_ok_iff env).1 hok e he hop).2
    rw [hn] at hs; cases hs

/-- and compilation succeeds exactly when every call instruction (found by the compilers' linear sweep) is a
    call of a registered helper (Cranelift) / of a registered helper or a local call (JIT); otherwise it is a
    compile-time error (never a crash) -/
theorem C08_compile_ok_iff (env : Env) :
    (EngineSem.jitCompile env = .ok ↔
      ∀ e ∈ EngineSem.insns env.prog, e.2.opc = 0x85 →
        (e.2.src = 0 ∧ (env.helpers e.2.imm.toNat).isSome = true) ∨ e.2.src = 1) ∧
    (EngineSem.clifCompile env = .ok ↔
      ∀ e ∈ EngineSem.insns env.prog, e.2.opc = 0x85 →
        e.2.src = 0 ∧ (env.helpers e.2.imm.toNat).isSome = true) ∧
    (EngineSem.jitCompile env = .ok ∨ EngineSem.jitCompile env = .err) ∧
    (EngineSem.clifCompile env = .ok ∨ EngineSem.clifCompile env = .err) :=
  ⟨jitCompile_ok_iff env, clifCompile_ok_iff env, jitCompile_cases env, clifCompile_cases env⟩

/-! ### non-vacuity (`ExEng.helperProg`: `mov r1,3; mov r2,4; call 7; exit`; helper 7 = r1 + r2) -/

-- both compilers accept it; with the helper unregistered both refuse it
example : EngineSem.jitCompile ExEng.helperEnv = .ok ∧ EngineSem.clifCompile ExEng.helperEnv = .ok := by
  decide +kernel
example : EngineSem.jitCompile ExEng.noHelperEnv = .err ∧ EngineSem.clifCompile ExEng.noHelperEnv = .err :=
  C08_unknown_helper_compile _ ⟨(2, ⟨0x85, 0, 0, 0, 7⟩), by decide +kernel, rfl, rfl, rfl⟩
-- the call itself, in both engines: r0 = 3 + 4, one log entry
example : ∃ s', EngineSem.jitExec ExEng.helperEnv ExEng.callState ⟨0x85, 0, 0, 0, 7⟩ = .next s' ∧
    EngineSem.clifExec ExEng.helperEnv ExEng.callState ⟨0x85, 0, 0, 0, 7⟩ = .next s' ∧
    s'.reg[0]? = some 7#64 ∧ s'.log = [(7, [3#64, 4#64, 0#64, 0#64, 0#64])] := by
  obtain ⟨s', h1, h2, h3, _, h5, _⟩ := C08_engines_helper_contract ExEng.helperEnv ExEng.callState
    ⟨0x85, 0, 0, 0, 7⟩ rfl rfl (fun a b _ _ _ => a + b) rfl 3 4 0 0 0 rfl rfl rfl rfl rfl
  exact ⟨s', h1, h2, h3, h5⟩
-- whole runs: 4 steps, r0 = 7, the same in the interpreter
example : ∃ s1 s2 s3, EngineSem.jitRun ExEng.helperEnv (Interp.init Ex.mem) 4 = .done 7 s1 ∧
    EngineSem.clifRun ExEng.helperEnv (Interp.init Ex.mem) 4 = .done 7 s2 ∧
    Interp.run ExEng.helperEnv (Interp.init Ex.mem) 4 = .done 7 s3 ∧
    s1.log = [(7, [3#64, 4#64, 0#64, 0#64, 0#64])] ∧ s2.log = s1.log ∧ s3.log = s1.log :=
  ⟨_, _, _, rfl, rfl, rfl, by decide +kernel, by decide +kernel, by decide +kernel⟩
-- a program with local calls (`Ex7.prog`): accepted by the JIT, refused by Cranelift
example : EngineSem.jitCompile Ex7.env = .ok ∧ EngineSem.clifCompile Ex7.env = .err := by decide +kernel

end Rbpf
