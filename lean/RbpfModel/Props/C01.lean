/-
  C01 — the interpreter executes every instruction as the ISA prescribes (`Rbpf.Isa`), with the one
  known departure F7.  Only property theorems and their non-vacuity examples live here; the work is in
  `Lemmas/IsaLemmas.lean`.
-/
import RbpfModel.Model.Isa
import RbpfModel.Lemmas.IsaLemmas
namespace Rbpf

/-- per instruction: the interpreter's arm computes what the ISA prescribes (every opcode, every register
    field value incl. out-of-range ones, every immediate/offset, every state) — except the one known
    departure F7 (unsigned 64-bit compare with a negative immediate) -/
theorem C01_exec (env : Env) (s : State) (insn : Insn) (h : Isa.isF7 insn = false) :
    Interp.exec env s insn =
      (match Isa.decode insn with | some i => Isa.exec env s i | none => Outcome.panic) := by
  rw [exec_eq_spec env s insn h]; unfold Isa.spec; cases Isa.decode insn <;> rfl

theorem C01_step (env : Env) (s : State)
    (h : ∀ insn, getInsn? env.prog s.pc = some insn → Isa.isF7 insn = false) :
    Interp.step env s = Isa.step env s := by
  unfold Interp.step Isa.step
  split
  · cases hg : getInsn? env.prog s.pc with
    | none => rfl
    | some insn => exact C01_exec env _ insn (h insn hg)
  · rfl

/-- whole runs, any length, any fuel -/
theorem C01_run_partial (env : Env) (s : State) (fuel : Nat)
    (h : ∀ pc insn, getInsn? env.prog pc = some insn → Isa.isF7 insn = false) :
    Interp.run env s fuel = Isa.run env s fuel := by
  induction fuel generalizing s with
  | zero => rfl
  | succ fuel ih =>
    unfold Interp.run Isa.run
    rw [C01_step env s (h s.pc)]
    cases Isa.step env s <;> simp only [ih]

/-- the full-strength statement (no F7 exclusion) is FALSE of the current code: witness
    `jeq r1, -1, +5` on a state with r1 = 0xffff_ffff_ffff_ffff (sign-extended -1): the ISA takes the
    branch, the interpreter compares with 0x0000_0000_ffff_ffff and does not. -/
theorem C01_full_fails : ∃ (env : Env) (s : State) (insn : Insn),
    Interp.exec env s insn ≠
      (match Isa.decode insn with | some i => Isa.exec env s i | none => Outcome.panic) := by
  refine ⟨demoEnv, f7State, ⟨0x15, 1, 0, 5, 0xffffffff⟩, fun h => ?_⟩
  have := congrArg Outcome.pc? h
  revert this
  decide

-- named corollaries: what C01 lists, read off the interpreter ---------------------------------------
open Interp

/-- 32-bit ALU results are zero-extended into the destination (a `mod` by zero leaves the state alone) -/
theorem C01_alu32_zero_extends (env : Env) (s s' : State) (insn : Insn) (op : Isa.AluOp) (dst : Nat)
    (src : Isa.Operand) (hd : Isa.decode insn = some (.alu .w32 op dst src))
    (hx : Interp.exec env s insn = .next s') :
    (op = .mod ∧ s' = s) ∨ ∃ v : BitVec 32, s'.reg[dst]? = some (v.setWidth 64) := by
  rw [exec_of_decode env s hd (by intros; exact Isa.Instr.noConfusion)] at hx
  cases src with
  | reg r =>
    simp only [Isa.exec, Isa.operand64] at hx
    obtain ⟨b, -, hx⟩ := rd_eq_next hx
    split at hx
    · exact .inl ⟨(‹_ ∧ _›).1, (Outcome.next.inj hx).symm⟩
    · obtain ⟨a, -, hx⟩ := rd_eq_next hx
      exact .inr ⟨_, wr_reg hx⟩
  | imm v =>
    simp only [Isa.exec, Isa.operand64] at hx
    split at hx
    · exact .inl ⟨(‹_ ∧ _›).1, (Outcome.next.inj hx).symm⟩
    · obtain ⟨a, -, hx⟩ := rd_eq_next hx
      exact .inr ⟨_, wr_reg hx⟩

/-- shift counts are masked to the operand width (64-bit: `% 64`, 32-bit: `% 32`) -/
theorem C01_shift_masked (env : Env) (s : State) (insn : Insn) (dst r : Nat) (a b : BitVec 64)
    (ha : s.reg[dst]? = some a) (hb : s.reg[r]? = some b) :
    (Isa.decode insn = some (.alu .w64 .lsh dst (.reg r)) →
        Interp.exec env s insn = Interp.wr s dst (a <<< (b.toNat % 64))) ∧
    (Isa.decode insn = some (.alu .w64 .rsh dst (.reg r)) →
        Interp.exec env s insn = Interp.wr s dst (a >>> (b.toNat % 64))) ∧
    (Isa.decode insn = some (.alu .w64 .arsh dst (.reg r)) →
        Interp.exec env s insn = Interp.wr s dst (a.sshiftRight (b.toNat % 64))) ∧
    (Isa.decode insn = some (.alu .w32 .lsh dst (.reg r)) →
        Interp.exec env s insn = Interp.wr s dst ((a.setWidth 32 <<< (b.toNat % 32)).setWidth 64)) ∧
    (Isa.decode insn = some (.alu .w32 .rsh dst (.reg r)) →
        Interp.exec env s insn = Interp.wr s dst ((a.setWidth 32 >>> (b.toNat % 32)).setWidth 64)) ∧
    (Isa.decode insn = some (.alu .w32 .arsh dst (.reg r)) →
        Interp.exec env s insn = Interp.wr s dst (((a.setWidth 32).sshiftRight (b.toNat % 32)).setWidth 64)) := by
  refine ⟨?_, ?_, ?_, ?_, ?_, ?_⟩ <;> intro hd <;>
    rw [exec_of_decode env s hd (by intros; exact Isa.Instr.noConfusion)] <;>
    simp [Isa.exec, Isa.operand64, Isa.aluSem, rd_some _ ha, rd_some _ hb]

/-- division by zero yields 0 (64-bit: the whole divisor register, 32-bit: its low half) -/
theorem C01_div_by_zero (env : Env) (s : State) (insn : Insn) (dst r : Nat) (a b : BitVec 64)
    (ha : s.reg[dst]? = some a) (hb : s.reg[r]? = some b) :
    (Isa.decode insn = some (.alu .w64 .div dst (.reg r)) → b = 0 →
        Interp.exec env s insn = Interp.wr s dst 0) ∧
    (Isa.decode insn = some (.alu .w32 .div dst (.reg r)) → b.setWidth 32 = 0 →
        Interp.exec env s insn = Interp.wr s dst 0) := by
  refine ⟨?_, ?_⟩ <;> intro hd hz <;>
    rw [exec_of_decode env s hd (by intros; exact Isa.Instr.noConfusion)] <;>
    simp [Isa.exec, Isa.operand64, Isa.aluSem, rd_some _ ha, rd_some _ hb, hz]

/-- modulo by zero leaves the destination (the whole state) untouched, whatever `dst` holds -/
theorem C01_mod_by_zero_keeps_dst (env : Env) (s : State) (insn : Insn) (dst r : Nat) (b : BitVec 64)
    (hb : s.reg[r]? = some b) :
    (Isa.decode insn = some (.alu .w64 .mod dst (.reg r)) → b = 0 → Interp.exec env s insn = .next s) ∧
    (Isa.decode insn = some (.alu .w32 .mod dst (.reg r)) → b.setWidth 32 = 0 →
        Interp.exec env s insn = .next s) ∧
    (∀ w, Isa.decode insn = some (.alu w .mod dst (.imm 0)) → Interp.exec env s insn = .next s) := by
  refine ⟨?_, ?_, ?_⟩
  · intro hd hz
    rw [exec_of_decode env s hd (by intros; exact Isa.Instr.noConfusion)]
    simp [Isa.exec, Isa.operand64, rd_some _ hb, hz]
  · intro hd hz
    rw [exec_of_decode env s hd (by intros; exact Isa.Instr.noConfusion)]
    simp [Isa.exec, Isa.operand64, rd_some _ hb, hz]
  · intro w hd
    rw [exec_of_decode env s hd (by intros; exact Isa.Instr.noConfusion)]
    cases w <;> simp [Isa.exec, Isa.operand64]

/-- immediates are sign-extended to 64 bits in 64-bit ALU operations -/
theorem C01_imm_sign_extended (env : Env) (s : State) (insn : Insn) (dst : Nat) (v : BitVec 32) (a : BitVec 64)
    (ha : s.reg[dst]? = some a) :
    (Isa.decode insn = some (.alu .w64 .add dst (.imm v)) →
        Interp.exec env s insn = Interp.wr s dst (a + v.signExtend 64)) ∧
    (Isa.decode insn = some (.alu .w64 .mov dst (.imm v)) →
        Interp.exec env s insn = Interp.wr s dst (v.signExtend 64)) ∧
    (Isa.decode insn = some (.alu .w64 .and dst (.imm v)) →
        Interp.exec env s insn = Interp.wr s dst (a &&& v.signExtend 64)) := by
  refine ⟨?_, ?_, ?_⟩ <;> intro hd <;>
    rw [exec_of_decode env s hd (by intros; exact Isa.Instr.noConfusion)] <;>
    simp [Isa.exec, Isa.operand64, Isa.aluSem, rd_some _ ha]

/-- a taken branch lands on `pc + off` computed in ℤ from the already incremented `pc` (i.e. on
    `pc₀ + 1 + off` for an instruction fetched at `pc₀`), at any distance, without 16-bit truncation;
    a negative target is a panic -/
theorem C01_branch_target (env : Env) (s : State) (insn : Insn) :
    (∀ off, Isa.decode insn = some (.ja off) →
        Interp.exec env s insn = Interp.jumpTo s ((s.pc : Int) + off.toInt)) ∧
    (∀ w c dst src off s', Isa.decode insn = some (.jmp w c dst src off) → Isa.isF7 insn = false →
        Interp.exec env s insn = .next s' →
        s' = s ∨ (0 ≤ (s.pc : Int) + off.toInt ∧ s' = { s with pc := ((s.pc : Int) + off.toInt).toNat })) := by
  refine ⟨?_, ?_⟩
  · intro off hd
    rw [exec_of_decode env s hd (by intros; exact Isa.Instr.noConfusion)]; rfl
  · intro w c dst src off s' hd hF hx
    rw [exec_eq_spec env s insn hF, Isa.spec, hd] at hx
    have key : ∀ (cnd : Bool), (if cnd then jumpTo s ((s.pc : Int) + off.toInt) else Outcome.next s) = .next s' →
        s' = s ∨ (0 ≤ (s.pc : Int) + off.toInt ∧ s' = { s with pc := ((s.pc : Int) + off.toInt).toNat }) := by
      intro cnd h
      cases cnd
      · exact .inl (Outcome.next.inj h).symm
      · simp only [if_true, jumpTo] at h
        split at h
        · cases h
        · exact .inr ⟨by omega, (Outcome.next.inj h).symm⟩
    cases w <;> cases src <;> simp only [Option.elim, Isa.exec, Isa.operand64] at hx <;>
      obtain ⟨a, -, hx⟩ := rd_eq_next hx
    all_goals first
      | exact key _ hx
      | (obtain ⟨b, -, hx⟩ := rd_eq_next hx; exact key _ hx)

-- non-vacuity --------------------------------------------------------------------------------------

-- the F7 exclusion is about negative immediates only
example : Isa.isF7 ⟨0x15, 1, 0, 5, 0xffffffff⟩ = true := by decide
example : Isa.isF7 ⟨0x15, 1, 0, 5, 0x7fffffff⟩ = false := by decide
example : Isa.isF7 ⟨0x1d, 1, 2, 5, 0xffffffff⟩ = false := by decide
-- on the witness of `C01_full_fails` the interpreter falls through, the ISA jumps
example : Outcome.pc? (Interp.exec demoEnv f7State ⟨0x15, 1, 0, 5, 0xffffffff⟩) = some 0 := by decide
example : Outcome.pc? (Isa.spec demoEnv f7State ⟨0x15, 1, 0, 5, 0xffffffff⟩) = some 5 := by decide
-- a program satisfying the hypothesis of `C01_step` / `C01_run_partial`, and running to completion
example : ∀ pc insn, getInsn? demoEnv.prog pc = some insn → Isa.isF7 insn = false := by
  intro pc insn h
  unfold getInsn? at h
  split at h
  · cases h
  · have hp : pc = 0 ∨ pc = 1 := by simp [demoEnv] at *; omega
    rcases hp with rfl | rfl <;> (cases h; decide)
example : ∃ s', Isa.run demoEnv (Interp.init default) 5 = .done 7 s' := ⟨_, rfl⟩
example : ∃ s', Interp.run demoEnv (Interp.init default) 5 = .done 7 s' := ⟨_, rfl⟩
-- the decodings the corollaries speak about exist
example : Isa.decode ⟨0x6f, 1, 2, 0, 0⟩ = some (.alu .w64 .lsh 1 (.reg 2)) := rfl
example : Isa.decode ⟨0x6c, 1, 2, 0, 0⟩ = some (.alu .w32 .lsh 1 (.reg 2)) := rfl
example : Isa.decode ⟨0x3f, 1, 2, 0, 0⟩ = some (.alu .w64 .div 1 (.reg 2)) := rfl
example : Isa.decode ⟨0x9c, 1, 2, 0, 0⟩ = some (.alu .w32 .mod 1 (.reg 2)) := rfl
example : Isa.decode ⟨0x97, 1, 0, 0, 0⟩ = some (.alu .w64 .mod 1 (.imm 0)) := rfl
example : Isa.decode ⟨0x07, 1, 0, 0, 0xffffffff⟩ = some (.alu .w64 .add 1 (.imm 0xffffffff)) := rfl
example : Isa.decode ⟨0x05, 0, 0, 0x8000, 0⟩ = some (.ja 0x8000) := rfl
example : Isa.decode ⟨0x2d, 1, 2, 0x7fff, 0⟩ = some (.jmp .w64 .gt 1 (.reg 2) 0x7fff) := rfl
-- a backward jump past the start of the program is a panic, a long forward jump is not truncated
example : Interp.exec demoEnv f7State ⟨0x05, 0, 0, 0x8000, 0⟩ = .panic := rfl
example : Outcome.pc? (Interp.exec demoEnv { f7State with pc := 40000 } ⟨0x05, 0, 0, 0x7fff, 0⟩) = some 72767 := by
  decide

end Rbpf
