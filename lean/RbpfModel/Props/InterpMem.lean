/-
  The memory instructions of the interpreter, translated from the source on every run (`checklib/gen_interp.py` →
  `Generated/InterpMem.lean`): for `ldabs`/`ldind`/`ldx`/`st`/`stx`/atomic add at the four widths — the address expression, the length
  handed to `check_mem_load` / `check_mem_store`, the width of the pointer type actually read or written, the value written, the
  destination register, the alignment an atomic add requires.  The theorems say that the hand-written model `Interp.exec` performs
  exactly that access (`Interp.load` / `store` / `xadd` at that address with that width and value), for every opcode and all operands.
  Together with `CheckMemSrc_eq` (the bounds test itself) this ties C02's model to the source by translation and proof.
-/
import RbpfModel.Generated.InterpMem
import RbpfModel.Model.Interp
import RbpfModel.Lemmas.InterpMemAux
namespace Rbpf
open Rbpf.Generated

/-- the source is self-consistent: every arm checks the number of bytes it then reads or writes, and an atomic add requires the
    natural alignment of its width -/
theorem InterpMem_widths : memOpcodes.all (fun o =>
    match memArm o with
    | some a => a.checkWidth == a.accessWidth && (a.kind != 2 || a.alignWidth == a.accessWidth)
    | none => false) = true := by decide

theorem InterpMem_complete : memOpcodes.length = 22 := by decide

/-- the model performs the access the translated arm describes -/
theorem InterpMem_exec (env : Env) (s : State) (i : Insn) (h : i.opc.toNat ∈ memOpcodes)
    (hd : i.dst.toNat < 11) (hs : i.src.toNat < 11) (hb : s.mem.mem.base < 2 ^ 64) :
    Interp.exec env s i =
      (match memArm i.opc.toNat,
             memAddr i.opc.toNat (s.reg[i.dst.toNat]'hd) (s.reg[i.src.toNat]'hs) i.imm i.off (BitVec.ofNat 64 s.mem.mem.base) with
       | some a, some addr =>
         let v := memValue i.opc.toNat (s.reg[i.src.toNat]'hs) i.imm
         if a.kind = 0 then Interp.load env s addr a.checkWidth (if a.dst0 then 0 else i.dst.toNat)
         else if a.kind = 1 then Interp.store env s addr a.checkWidth v
         else Interp.xadd env s addr a.checkWidth v
       | _, _ => .panic) := by
  obtain ⟨opc, dst, src, off, imm⟩ := i
  exact InterpMemAux.im_all h hd hs hb

end Rbpf
