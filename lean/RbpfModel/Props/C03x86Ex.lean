/-
  Non-vacuity of `C03_x86_accepted` and `C12_code_wellformed` (Props/C03x86.lean): one concrete program, its machine
  code, one concrete machine state at entry, and every hypothesis of the theorems established for them.  The conclusion
  is then read off twice: by applying the theorem, and by letting the x86-64 machine model run the bytes.

  Everything here is closed and checked by the kernel by evaluation (`decide +kernel`); the one statement with free
  variables — the run does not depend on what r0, r2 … r9 hold at entry (`RegIndep`) — is evaluated by the kernel on
  a symbolic register file (`kernel_rfl`).
-/
import RbpfModel.Props.C03x86
namespace Rbpf
open Rbpf.JitSim Rbpf.JitEnc

/-! ### the program, accepted and in scope -/

/-- `mov r0, 7 ; add r0, 35 ; jeq r0, 42, +1 ; mov r0, 0 ; stxdw [r10-8], r0 ; ldxdw r0, [r10-8] ; exit`:
    arithmetic, a taken conditional jump (which skips `mov r0, 0`), a store to and a load from the eBPF stack -/
def exProg : Bytes :=
  #[0xb7,0x00,0,0,7,0,0,0,  0x07,0x00,0,0,35,0,0,0,  0x15,0x00,1,0,42,0,0,0,  0xb7,0x00,0,0,0,0,0,0,
    0x7b,0x0a,0xf8,0xff,0,0,0,0,  0x79,0xa0,0xf8,0xff,0,0,0,0,  0x95,0,0,0,0,0,0,0]

/-- an environment as the harness builds it: no helpers, no registered ranges, the default 256-byte frames -/
def exEnv : Env := { prog := exProg, helpers := fun _ => none, allowed := [], usage := Interp.stackUsage exProg none }

theorem exCheck : Verifier.check exProg = .ok := check_ok_of_wellFormed (by decide +kernel)

theorem exCovered : Covered exProg := by unfold Covered; decide +kernel

/-- beyond slot 6 there is no instruction -/
private theorem exSlots (pc : Nat) (i : Insn) (h : getInsn? exProg pc = some i) : pc < 7 := by
  have hs : exProg.size = 56 := by decide
  unfold getInsn? at h
  split at h
  · cases h
  · omega

theorem exNoLocalCall : NoLocalCall exProg := by
  intro pc i h
  have key : ∀ pc, pc < 7 → (getInsn? exProg pc).all (fun i => decide (¬ (i.opc = 0x85 ∧ i.src = 1))) = true := by
    decide +kernel
  have := key pc (exSlots pc i h)
  rw [h] at this
  simpa using this

theorem exNoF7 : NoF7 exProg := by
  intro pc i h
  have key : ∀ pc, pc < 7 → (getInsn? exProg pc).all (fun i => decide (Isa.isF7 i = false)) = true := by
    decide +kernel
  have := key pc (exSlots pc i h)
  rw [h] at this
  simpa using this

/-! ### its machine code -/

/-- the 93 bytes the emitter model writes (VM kind without metadata buffer), instruction by instruction -/
def exCode : Array UInt8 :=
  #[0x55, 0x53, 0x41,0x55, 0x41,0x56, 0x41,0x57,               -- push rbp, rbx, r13, r14, r15
    0x49,0x89,0xd2,                                             -- mov r10, rdx          (packet base)
    0x48,0x89,0xd7,                                             -- mov rdi, rdx          (r1 := packet)
    0x48,0x89,0xe5,                                             -- mov rbp, rsp          (r10 := stack top)
    0x48,0x81,0xec,0x00,0x02,0x00,0x00,                         -- sub rsp, 512
    0xe8,0x05,0x00,0x00,0x00,                                   -- call +5               (pushes the landing pad)
    0xe9,0x2b,0x00,0x00,0x00,                                   -- jmp epilogue          (the landing pad)
    0x48,0xc7,0xc0,0x07,0x00,0x00,0x00,                         -- 34: mov rax, 7
    0x48,0x81,0xc0,0x23,0x00,0x00,0x00,                         -- 41: add rax, 35
    0x48,0x81,0xf8,0x2a,0x00,0x00,0x00, 0x0f,0x84,0x07,0x00,0x00,0x00,   -- 48: cmp rax, 42 ; je +7
    0x48,0xc7,0xc0,0x00,0x00,0x00,0x00,                         -- 61: mov rax, 0
    0x48,0x89,0x45,0xf8,                                        -- 68: mov [rbp-8], rax
    0x48,0x8b,0x45,0xf8,                                        -- 72: mov rax, [rbp-8]
    0xc3,                                                       -- 76: ret                (to the landing pad)
    0x48,0x81,0xc4,0x00,0x02,0x00,0x00,                         -- 77: add rsp, 512
    0x41,0x5f, 0x41,0x5e, 0x41,0x5d, 0x5b, 0x5d, 0xc3]          -- pop r15, r14, r13, rbx, rbp ; ret
/-- where the arm of each slot begins (`pc_locs`; the last entry, one past the program, is never written) -/
def exLocs : Array Nat := #[34, 41, 48, 61, 68, 72, 76, 0]
/-- where the epilogue begins -/
def exExit : Nat := 77

private def ok? {ε α : Type} : Except ε α → Option α
  | .ok a => some a
  | .error _ => none
private theorem eq_ok_of_ok? {ε α : Type} {x : Except ε α} {a : α} (h : ok? x = some a) : x = .ok a := by
  cases x with
  | ok b => simp only [ok?, Option.some.injEq] at h; rw [h]
  | error e => simp [ok?] at h

set_option maxRecDepth 100000 in
theorem exCompile : JitEmit.compileWithLayout exProg (fun _ => none) false false = .ok (exCode, exLocs, exExit) :=
  eq_ok_of_ok? (by decide +kernel)

/-! ### the machine at entry -/

/-- the code at 0x100000, no external functions, the caller's return address -/
def exCfg : X86.Cfg :=
  { code := exCode, codeBase := 0x100000, ext := fun _ => none, retSentinel := 0xfffffffffffffff0#64 }

/-- no metadata buffer (a dangling non-null pointer, length 0), an empty packet (null), the 512-byte stack -/
def exMem : Memory :=
  { mbuff := ⟨1, #[]⟩, mem := ⟨0, #[]⟩, stack := ⟨0x7f0000003000, Array.replicate 512 0⟩, extra := [] }

/-- the native frame: the eBPF stack, room for the five pushes, the caller's return address at offset 552 -/
def exFrame : Region :=
  ⟨0x7f0000003000, Array.replicate 552 0 ++ #[0xf0, 0xff, 0xff, 0xff, 0xff, 0xff, 0xff, 0xff] ++ Array.replicate 8 0⟩
/-- one page of native stack below it -/
def exLower : Region := ⟨0x7f0000002000, Array.replicate 4096 0⟩

/-- `prog(mbuff = 1, mbuff_len = 0, mem = 0, …)` entered under the System V convention: rdi, rsi, rdx the arguments,
    rsp at the return address, everything else whatever the caller left there -/
def exSt : X86.St :=
  { reg := #v[0xdeadbeefdeadbeef#64, 0x1111111111111111#64, 0#64, 0xbbbbbbbbbbbbbbbb#64,     -- rax rcx rdx rbx
              0x7f0000003228#64, 0x5555555555555555#64, 0#64, 1#64,                           -- rsp rbp rsi rdi
              0x8888888888888888#64, 0x9999999999999999#64, 0xaaaaaaaaaaaaaaaa#64, 0xb0b0b0b0b0b0b0b0#64,
              0xcccccccccccccccc#64, 0xdddddddddddddddd#64, 0xeeeeeeeeeeeeeeee#64, 0xffffffffffffffff#64],
    rip := 0x100000, flags := none, mem := [exFrame, ⟨1, #[]⟩, ⟨0, #[]⟩, exLower], log := [] }

private instance : DecidableRel disjoint := fun r q => by unfold disjoint; exact inferInstance

set_option maxRecDepth 100000 in
theorem exMemRel : MemRel exSt.mem exMem :=
  ⟨exFrame, exLower, rfl, rfl, by decide +kernel, by decide +kernel, by decide +kernel, by decide +kernel,
    by decide +kernel, by decide +kernel, by decide +kernel⟩

set_option maxRecDepth 100000 in
theorem exEntry : Entry exCfg exMem exSt where
  rip := rfl
  rdi := by decide +kernel
  rsi := by decide +kernel
  rdx := by decide +kernel
  rsp := by decide +kernel
  mem := exMemRel
  sentinel := by decide +kernel

/-! ### the run, from any register file -/

/-- the memory after the run: 42 in the top eight bytes of the eBPF stack -/
def exMemAfter : Memory :=
  { exMem with stack := ⟨0x7f0000003000, Array.replicate 504 0 ++ #[42, 0, 0, 0, 0, 0, 0, 0]⟩ }

private def regionKey (r : Region) : Nat × List (BitVec 8) := (r.base, r.bytes.toList)
private def memKey (m : Memory) : List (Nat × List (BitVec 8)) := (m.mbuff :: m.mem :: m.stack :: m.extra).map regionKey
private theorem regionKey_inj (r q : Region) (h : regionKey r = regionKey q) : r = q := by
  obtain ⟨rb, ⟨rl⟩⟩ := r
  obtain ⟨qb, ⟨ql⟩⟩ := q
  simp only [regionKey, Prod.mk.injEq] at h
  obtain ⟨rfl, rfl⟩ := h
  rfl
private theorem memKey_inj {a b : Memory} (h : memKey a = memKey b) : a = b := by
  obtain ⟨a1, a2, a3, a4⟩ := a
  obtain ⟨b1, b2, b3, b4⟩ := b
  have h' := (List.map_inj_right regionKey_inj).mp h
  simp only [List.cons.injEq] at h'
  obtain ⟨rfl, rfl, rfl, rfl⟩ := h'
  rfl

/-- what a run returns and the memory it leaves (in a form with a kernel-friendly decidable equality) -/
private def outcome : Interp.Result → Option (BitVec 64 × List (Nat × List (BitVec 8)))
  | .done r s => some (r, memKey s.mem)
  | _ => none
private theorem outcome_done {res : Interp.Result} {r : BitVec 64} {m : Memory} (h : outcome res = some (r, memKey m)) :
    ∃ b, res = .done r b ∧ b.mem = m := by
  cases res with
  | done r' b =>
    simp only [outcome, Option.some.injEq, Prod.mk.injEq] at h
    exact ⟨b, by rw [h.1], memKey_inj h.2⟩
  | err e b => simp [outcome] at h
  | panic => simp [outcome] at h
  | fault => simp [outcome] at h
  | timeout b => simp [outcome] at h

private theorem vec11 {α : Type} (v : Vector α 11) :
    ∃ a0 a1 a2 a3 a4 a5 a6 a7 a8 a9 a10, v = #v[a0, a1, a2, a3, a4, a5, a6, a7, a8, a9, a10] := by
  obtain ⟨⟨l⟩, hl⟩ := v
  match l, hl with
  | [a0, a1, a2, a3, a4, a5, a6, a7, a8, a9, a10], _ => exact ⟨a0, a1, a2, a3, a4, a5, a6, a7, a8, a9, a10, rfl⟩

open Lean Elab Tactic Meta in
/-- closes `a = b` with `Eq.refl a` and leaves the conversion check to the kernel (as `decide +kernel` does for closed
    propositions; this one is for goals with free variables) -/
local elab "kernel_rfl" : tactic => do
  let g ← getMainGoal
  let t ← instantiateMVars (← g.getType)
  let some (α, a, _) := t.eq? | throwError "kernel_rfl: the goal is not an equality"
  g.assign (mkApp2 (mkConst ``Eq.refl [← getLevel α]) α a)

/-- whatever r0, r2 … r9 and the frame-size table hold, six steps return 42 and leave `exMemAfter`: the program writes
    r0 before it reads it and touches no other register but the frame pointer -/
private theorem exRunAny (a0 a2 a3 a4 a5 a6 a7 a8 a9 : BitVec 64) (u : Vector Nat 8) :
    outcome (EngineSem.jitRun exEnv
      { reg := #v[a0, 0#64, a2, a3, a4, a5, a6, a7, a8, a9, 0x7f0000003200#64], pc := 0, frames := [], usage := u,
        mem := exMem, log := [] } 10) = some (42#64, memKey exMemAfter) := by
  apply of_decide_eq_true
  kernel_rfl

set_option maxRecDepth 100000 in
private theorem exRunInit : outcome (EngineSem.jitRun exEnv (Interp.init exMem) 10) = some (42#64, memKey exMemAfter) := by
  decide +kernel

theorem exRegIndep : RegIndep exEnv exMem 10 := by
  intro s hpc hfr hmem hlog h1 h10 r0 a ha
  -- the interpreter's start
  have hi := exRunInit
  rw [ha] at hi
  simp only [outcome, Option.some.injEq, Prod.mk.injEq] at hi
  obtain ⟨rfl, hma⟩ := hi
  rw [memKey_inj hma]
  -- any other start with the same r1 and r10
  obtain ⟨reg, pc, frames, usage, mem, log⟩ := s
  simp only at hpc hfr hmem hlog h1 h10
  subst hpc hfr hmem hlog
  obtain ⟨a0, a1, a2, a3, a4, a5, a6, a7, a8, a9, a10, rfl⟩ := vec11 reg
  have e1 : (Interp.init exMem).reg[1]? = some 0#64 := by decide +kernel
  have e10 : (Interp.init exMem).reg[10]? = some 0x7f0000003200#64 := by decide +kernel
  rw [e1] at h1
  rw [e10] at h10
  obtain rfl : a1 = 0#64 := Option.some.inj h1
  obtain rfl : a10 = 0x7f0000003200#64 := Option.some.inj h10
  exact outcome_done (exRunAny a0 a2 a3 a4 a5 a6 a7 a8 a9 usage)

/-! ### the theorems on the example -/

set_option maxRecDepth 100000 in
/-- the interpreter returns 42 and leaves `exMemAfter` -/
theorem exInterp : ∃ s', Interp.run exEnv (Interp.init exMem) 10 = .done 42#64 s' ∧ s'.mem = exMemAfter :=
  outcome_done (by decide +kernel)

/-- **`C03_x86_accepted` applies**: every hypothesis holds of the example, so the machine, started on `exCode` from
    `exSt` (garbage in every register the calling convention does not fix), returns 42 to its caller, with 42 stored in
    the top eight bytes of the eBPF stack, the callee-saved registers restored and the return address popped -/
theorem C03_x86_example :
    ∃ k σ', X86.run exCfg exSt k = .done 42#64 σ' ∧ MemRel σ'.mem exMemAfter ∧
      σ'.get 3 = 0xbbbbbbbbbbbbbbbb#64 ∧ σ'.get 5 = 0x5555555555555555#64 ∧ σ'.get 13 = 0xdddddddddddddddd#64 ∧
      σ'.get 14 = 0xeeeeeeeeeeeeeeee#64 ∧ σ'.get 15 = 0xffffffffffffffff#64 ∧
      (σ'.get X86.RSP).toNat = 0x7f0000003230 := by
  obtain ⟨s', hint, hmem⟩ := exInterp
  have h := C03_x86_accepted exEnv (fun _ => none) false exCfg exLocs exExit exMem exSt 10 42#64 s'
    exCheck exCompile (fun _ _ h => by cases h) (by decide +kernel) exCovered exNoLocalCall exNoF7
    (by decide +kernel) (Or.inr (by decide +kernel)) exEntry (fun _ => rfl) (fun _ => rfl) exRegIndep hint
  rw [hmem] at h
  exact h

set_option maxRecDepth 100000 in
/-- … and the machine model, run on those bytes from that state, does return 42 (23 instructions) -/
example : (match X86.run exCfg exSt 23 with | .done r _ => some r | _ => none) = some 42#64 := by decide +kernel

set_option maxRecDepth 100000 in
/-- the hypothesis `RegIndep` is needed: for the accepted program `exit` the interpreter returns 0 (its r0 starts at 0),
    the machine returns whatever rax held at entry -/
example :
    Verifier.check (#[0x95,0,0,0,0,0,0,0] : Bytes) = .ok ∧
    (match Interp.run { exEnv with prog := #[0x95,0,0,0,0,0,0,0] } (Interp.init exMem) 10 with
      | .done r _ => some r | _ => none) = some 0#64 ∧
    (match JitEmit.compileWithLayout #[0x95,0,0,0,0,0,0,0] (fun _ => none) false false with
      | .ok (code, _, _) =>
        (match X86.run { exCfg with code := code } exSt 30 with | .done r _ => some r | _ => none)
      | .error _ => none) = some 0xdeadbeefdeadbeef#64 := by decide +kernel

/-- **`C12_code_wellformed` applies**: the 93 bytes are a prologue, the seven arms `JitAst.arm` prescribes at the recorded
    locations, every jump landing on an arm or on the epilogue, and the epilogue -/
theorem C12_code_wellformed_example :
    JitAst.validate exProg (fun _ => none) false false exCode { pcLocs := exLocs, exitLoc := exExit } = true :=
  C12_code_wellformed exProg (fun _ => none) false false exCode exLocs exExit exCheck exCompile
    (fun _ _ h => by cases h) (by decide +kernel)

set_option maxRecDepth 100000 in
/-- … and the validator, evaluated on them, says so -/
example : JitAst.validate exProg (fun _ => none) false false exCode { pcLocs := exLocs, exitLoc := exExit } = true := by
  decide +kernel

end Rbpf
