/-
  Non-vacuity of `C03_x86_accepted` and `C12_code_wellformed` (Props/C03x86.lean): one concrete program, its machine
  code, one concrete machine state at entry, and every hypothesis of the theorems established for them.  The conclusion
  is then read off twice: by applying the theorem, and by letting the x86-64 machine model run the bytes.

  Everything here is closed and checked by the kernel by evaluation (`decide +kernel`); the one statement with free
  variables — the run does not depend on what r0, r2 … r9 hold at entry (`RegIndep`) — is evaluated by the kernel on
  a symbolic register file (`kernel_rfl`).
-/
import RbpfModel.Props.C03x86
namespace Rbpf
open Rbpf.JitSim Rbpf.JitEnc

/-! ### the program, accepted and in scope -/

/-- `mov r0, 7 ; add r0, 35 ; jeq r0, 42, +1 ; mov r0, 0 ; stxdw [r10-8], r0 ; ldxdw r0, [r10-8] ; exit`:
    arithmetic, a taken conditional jump (which skips `mov r0, 0`), a store to and a load from the eBPF stack -/
def exProg : Bytes :=
  #[0xb7,0x00,0,0,7,0,0,0,  0x07,0x00,0,0,35,0,0,0,  0x15,0x00,1,0,42,0,0,0,  0xb7,0x00,0,0,0,0,0,0,
    0x7b,0x0a,0xf8,0xff,0,0,0,0,  0x79,0xa0,0xf8,0xff,0,0,0,0,  0x95,0,0,0,0,0,0,0]

/-- an environment as the harness builds it: no helpers, no registered ranges, the default 256-byte frames -/
def exEnv : Env := { prog := exProg, helpers := fun _ => none, allowed := [], usage := Interp.stackUsage exProg none }

theorem exCheck : Verifier.check exProg = .ok := check_ok_of_wellFormed (by decide +kernel)

theorem exCovered : Covered exProg := by unfold Covered; decide +kernel

/-- beyond slot 6 there is no instruction -/
private theorem exSlots (pc : Nat) (i : Insn) (h : getInsn? exProg pc = some i) : pc < 7 := by
  have hs : exProg.size = 56 := by decide
  unfold getInsn? at h
  split at h
  · cases h
  · omega

theorem exNoLocalCall : NoLocalCall exProg := by
  intro pc i h
  have key : ∀ pc, pc < 7 → (getInsn? exProg pc).all (fun i => decide (¬ (i.opc = 0x85 ∧ i.src = 1))) = true := by
    decide +kernel
  have := key pc (exSlots pc i h)
  rw [h] at this
  exact of_decide_eq_true this

theorem exNoF7 : NoF7 exProg := by
  intro pc i h
  have key : ∀ pc, pc < 7 → (getInsn? exProg pc).all (fun i => decide (Isa.isF7 i = false)) = true := by
    decide +kernel
  have := key pc (exSlots pc i h)
  rw [h] at this
  exact of_decide_eq_true this

/-! ### its machine code -/

/-- the 93 bytes the emitter model writes (VM kind without metadata buffer), instruction by instruction -/
def exCode : Array UInt8 :=
  #[0x55, 0x53, 0x41,0x55, 0x41,0x56, 0x41,0x57,               -- push rbp, rbx, r13, r14, r15
    0x49,0x89,0xd2,                                             -- mov r10, rdx          (packet base)
    0x48,0x89,0xd7,                                             -- mov rdi, rdx          (r1 := packet)
    0x48,0x89,0xe5,                                             -- mov rbp, rsp          (r10 := stack top)
    0x48,0x81,0xec,0x00,0x02,0x00,0x00,                         -- sub rsp, 512
    0xe8,0x05,0x00,0x00,0x00,                                   -- call +5               (pushes the landing pad)
    0xe9,0x2b,0x00,0x00,0x00,                                   -- jmp epilogue          (the landing pad)
    0x48,0xc7,0xc0,0x07,0x00,0x00,0x00,                         -- 34: mov rax, 7
    0x48,0x81,0xc0,0x23,0x00,0x00,0x00,                         -- 41: add rax, 35
    0x48,0x81,0xf8,0x2a,0x00,0x00,0x00, 0x0f,0x84,0x07,0x00,0x00,0x00,   -- 48: cmp rax, 42 ; je +7
    0x48,0xc7,0xc0,0x00,0x00,0x00,0x00,                         -- 61: mov rax, 0
    0x48,0x89,0x45,0xf8,                                        -- 68: mov [rbp-8], rax
    0x48,0x8b,0x45,0xf8,                                        -- 72: mov rax, [rbp-8]
    0xc3,                                                       -- 76: ret                (to the landing pad)
    0x48,0x81,0xc4,0x00,0x02,0x00,0x00,                         -- 77: add rsp, 512
    0x41,0x5f, 0x41,0x5e, 0x41,0x5d, 0x5b, 0x5d, 0xc3]          -- pop r15, r14, r13, rbx, rbp ; ret
/-- where the arm of each slot begins (`pc_locs`; the last entry, one past the program, is never written) -/
def exLocs : Array Nat := #[34, 41, 48, 61, 68, 72, 76, 0]
/-- where the epilogue begins -/
def exExit : Nat := 77

private def ok? {ε α : Type} : Except ε α → Option α
  | .ok a => some a
  | .error _ => none
private theorem eq_ok_of_ok? {ε α : Type} {x : Except ε α} {a : α} (h : ok? x = some a) : x = .ok a := by
  cases x with
  | ok b => simp only [ok?, Option.some.injEq] at h; rw [h]
  | error e => simp [ok?] at h

set_option maxRecDepth 100000 in
theorem exCompile : JitEmit.compileWithLayout exProg (fun _ => none) false false = .ok (exCode, exLocs, exExit) :=
  eq_ok_of_ok? (by decide +kernel)

/-! ### the machine at entry -/

/-- the code at 0x100000, no external functions, the caller's return address -/
def exCfg : X86.Cfg :=
  { code := exCode, codeBase := 0x100000, ext := fun _ => none, retSentinel := 0xfffffffffffffff0#64 }

/-- no metadata buffer (a dangling non-null pointer, length 0), an empty packet (null), the 512-byte stack -/
def exMem : Memory :=
  { mbuff := ⟨1, #[]⟩, mem := ⟨0, #[]⟩, stack := ⟨0x7f0000003000, Array.replicate 512 0⟩, extra := [] }

/-- the native frame: the eBPF stack, room for the five pushes, the caller's return address at offset 552 -/
def exFrame : Region :=
  ⟨0x7f0000003000, (List.replicate 552 (0 : BitVec 8) ++ [0xf0, 0xff, 0xff, 0xff, 0xff, 0xff, 0xff, 0xff] ++ List.replicate 8 0).toArray⟩
/-- 256 bytes of native stack below it (the model needs 64; the code uses 8, for the landing pad's address) -/
def exLower : Region := ⟨0x7f0000002f00, Array.replicate 256 0⟩

/-- `prog(mbuff = 1, mbuff_len = 0, mem = 0, …)` entered under the System V convention: rdi, rsi, rdx the arguments,
    rsp at the return address, everything else whatever the caller left there -/
def exSt : X86.St :=
  { reg := #v[0xdeadbeefdeadbeef#64, 0x1111111111111111#64, 0#64, 0xbbbbbbbbbbbbbbbb#64,     -- rax rcx rdx rbx
              0x7f0000003228#64, 0x5555555555555555#64, 0#64, 1#64,                           -- rsp rbp rsi rdi
              0x8888888888888888#64, 0x9999999999999999#64, 0xaaaaaaaaaaaaaaaa#64, 0xb0b0b0b0b0b0b0b0#64,
              0xcccccccccccccccc#64, 0xdddddddddddddddd#64, 0xeeeeeeeeeeeeeeee#64, 0xffffffffffffffff#64],
    rip := 0x100000, flags := none, mem := [exFrame, ⟨1, #[]⟩, ⟨0, #[]⟩, exLower], log := [] }

private instance : DecidableRel disjoint := fun r q => by unfold disjoint; exact inferInstance

set_option maxRecDepth 100000 in
private theorem exFrame_take : exFrame.bytes.toList.take 512 = exMem.stack.bytes.toList := by decide +kernel
/-- the first 512 bytes of the native frame are the eBPF stack -/
private theorem exFrame_stack (k : Nat) (hk : k < 512) : exFrame.bytes[k]? = exMem.stack.bytes[k]? := by
  rw [← Array.getElem?_toList, ← Array.getElem?_toList, ← exFrame_take, List.getElem?_take_of_lt hk]

set_option maxRecDepth 100000 in
theorem exMemRel : MemRel exSt.mem exMem :=
  ⟨exFrame, exLower, rfl, rfl, by decide +kernel, by decide +kernel, exFrame_stack, by decide +kernel,
    by decide +kernel, by decide +kernel, by decide +kernel⟩

set_option maxRecDepth 100000 in
theorem exEntry : Entry exCfg exMem exSt where
  rip := rfl
  rdi := by decide +kernel
  rsi := by decide +kernel
  rdx := by decide +kernel
  rsp := by decide +kernel
  mem := exMemRel
  sentinel := by decide +kernel
  room := ⟨exLower, rfl, by decide +kernel⟩

/-! ### the run, from any register file -/

/-- the memory after the run: 42 in the top eight bytes of the eBPF stack -/
def exMemAfter : Memory :=
  { exMem with stack := ⟨0x7f0000003000, (List.replicate 504 (0 : BitVec 8) ++ [42, 0, 0, 0, 0, 0, 0, 0]).toArray⟩ }

private def regionKey (r : Region) : Nat × List (BitVec 8) := (r.base, r.bytes.toList)
private def memKey (m : Memory) : List (Nat × List (BitVec 8)) := (m.mbuff :: m.mem :: m.stack :: m.extra).map regionKey
private theorem regionKey_inj (r q : Region) (h : regionKey r = regionKey q) : r = q := by
  obtain ⟨rb, ⟨rl⟩⟩ := r
  obtain ⟨qb, ⟨ql⟩⟩ := q
  simp only [regionKey, Prod.mk.injEq] at h
  obtain ⟨rfl, rfl⟩ := h
  rfl
private theorem memKey_inj {a b : Memory} (h : memKey a = memKey b) : a = b := by
  obtain ⟨a1, a2, a3, a4⟩ := a
  obtain ⟨b1, b2, b3, b4⟩ := b
  have h' := (List.map_inj_right regionKey_inj).mp h
  simp only [List.cons.injEq] at h'
  obtain ⟨rfl, rfl, rfl, rfl⟩ := h'
  rfl

/-- what a run returns, the memory it leaves and the helper calls it made (in a form whose decidable equality the
    kernel evaluates quickly) -/
private def outcome : Interp.Result → Option (BitVec 64 × List (Nat × List (BitVec 8)) × List (Nat × List (BitVec 64)))
  | .done r s => some (r, memKey s.mem, s.log)
  | _ => none
set_option synthInstance.maxSize 1000 in
private instance : DecidableEq (Option (BitVec 64 × List (Nat × List (BitVec 8)) × List (Nat × List (BitVec 64)))) :=
  inferInstance
private theorem outcome_done {res : Interp.Result} {r : BitVec 64} {m : Memory} {l : List (Nat × List (BitVec 64))}
    (h : outcome res = some (r, memKey m, l)) : ∃ b, res = .done r b ∧ b.mem = m ∧ b.log = l := by
  cases res with
  | done r' b =>
    simp only [outcome, Option.some.injEq, Prod.mk.injEq] at h
    exact ⟨b, by rw [h.1], memKey_inj h.2.1, h.2.2⟩
  | err e b => simp [outcome] at h
  | panic => simp [outcome] at h
  | fault => simp [outcome] at h
  | timeout b => simp [outcome] at h

private theorem vec11 {α : Type} (v : Vector α 11) :
    ∃ a0 a1 a2 a3 a4 a5 a6 a7 a8 a9 a10, v = #v[a0, a1, a2, a3, a4, a5, a6, a7, a8, a9, a10] := by
  obtain ⟨⟨l⟩, hl⟩ := v
  match l, hl with
  | [a0, a1, a2, a3, a4, a5, a6, a7, a8, a9, a10], _ => exact ⟨a0, a1, a2, a3, a4, a5, a6, a7, a8, a9, a10, rfl⟩

open Lean Elab Tactic Meta in
/-- closes `a = b` with `Eq.refl a` and leaves the conversion check to the kernel (as `decide +kernel` does for closed
    propositions; this one is for goals with free variables) -/
local elab "kernel_rfl" : tactic => do
  let g ← getMainGoal
  let t ← instantiateMVars (← g.getType)
  let some (α, a, _) := t.eq? | throwError "kernel_rfl: the goal is not an equality"
  g.assign (mkApp2 (mkConst ``Eq.refl [← getLevel α]) α a)

/-- whatever r0, r2 … r9 and the frame-size table hold, six steps return 42 and leave `exMemAfter`: the program writes
    r0 before it reads it and touches no other register but the frame pointer -/
private theorem exRunAny (a0 a2 a3 a4 a5 a6 a7 a8 a9 : BitVec 64) (u : Vector Nat 8) :
    outcome (EngineSem.jitRun exEnv
      { reg := #v[a0, 0#64, a2, a3, a4, a5, a6, a7, a8, a9, 0x7f0000003200#64], pc := 0, frames := [], usage := u,
        mem := exMem, log := [] } 10) = some (42#64, memKey exMemAfter, []) := by
  apply of_decide_eq_true
  kernel_rfl

set_option maxRecDepth 100000 in
private theorem exRunInit :
    outcome (EngineSem.jitRun exEnv (Interp.init exMem) 10) = some (42#64, memKey exMemAfter, []) := by
  decide +kernel

theorem exRegIndep : RegIndep exEnv exMem 10 := by
  intro s hpc hfr hmem hlog h1 h10 r0 a ha
  -- the interpreter's start
  have hi := exRunInit
  rw [ha] at hi
  simp only [outcome, Option.some.injEq, Prod.mk.injEq] at hi
  obtain ⟨rfl, hma, -⟩ := hi
  rw [memKey_inj hma]
  -- any other start with the same r1 and r10
  obtain ⟨reg, pc, frames, usage, mem, log⟩ := s
  simp only at hpc hfr hmem hlog h1 h10
  subst hpc hfr hmem hlog
  obtain ⟨a0, a1, a2, a3, a4, a5, a6, a7, a8, a9, a10, rfl⟩ := vec11 reg
  have e1 : (Interp.init exMem).reg[1]? = some 0#64 := by decide +kernel
  have e10 : (Interp.init exMem).reg[10]? = some 0x7f0000003200#64 := by decide +kernel
  rw [e1] at h1
  rw [e10] at h10
  obtain rfl : a1 = 0#64 := Option.some.inj h1
  obtain rfl : a10 = 0x7f0000003200#64 := Option.some.inj h10
  obtain ⟨b, hb, hbm, -⟩ := outcome_done (exRunAny a0 a2 a3 a4 a5 a6 a7 a8 a9 usage)
  exact ⟨b, hb, by rw [hbm]; exact ⟨rfl, rfl, rfl⟩⟩

/-! ### the theorems on the example -/

set_option maxRecDepth 100000 in
/-- the interpreter returns 42 and leaves `exMemAfter` -/
theorem exInterp : ∃ s', Interp.run exEnv (Interp.init exMem) 10 = .done 42#64 s' ∧ s'.mem = exMemAfter := by
  obtain ⟨s', h1, h2, -⟩ := outcome_done (res := Interp.run exEnv (Interp.init exMem) 10) (r := 42#64) (m := exMemAfter)
    (l := []) (by decide +kernel)
  exact ⟨s', h1, h2⟩

/-- **`C03_x86_accepted` applies**: every hypothesis holds of the example, so the machine, started on `exCode` from
    `exSt` (garbage in every register the calling convention does not fix), returns 42 to its caller, with metadata,
    packet and registered ranges as the interpreter leaves them (here: empty), the callee-saved registers restored and the
    return address popped -/
theorem C03_x86_example :
    ∃ k σ', X86.run exCfg exSt k = .done 42#64 σ' ∧ DataRel σ'.mem exMemAfter ∧
      σ'.get 3 = 0xbbbbbbbbbbbbbbbb#64 ∧ σ'.get 5 = 0x5555555555555555#64 ∧ σ'.get 13 = 0xdddddddddddddddd#64 ∧
      σ'.get 14 = 0xeeeeeeeeeeeeeeee#64 ∧ σ'.get 15 = 0xffffffffffffffff#64 ∧
      (σ'.get X86.RSP).toNat = 0x7f0000003230 := by
  obtain ⟨s', hint, hmem⟩ := exInterp
  have h := C03_x86_accepted exEnv (fun _ => none) false exCfg exLocs exExit exMem exSt 10 42#64 s'
    exCheck exCompile (fun _ _ h => by cases h) exCovered exNoLocalCall exNoF7
    (by decide +kernel) (Or.inr (by decide +kernel)) exEntry (fun _ => rfl) (fun _ => rfl) exRegIndep hint
  rw [hmem] at h
  exact h

set_option maxRecDepth 100000 in
/-- … and the machine model, run on those bytes from that state, does return 42 (after 25 instructions, not before), with
    42 in the top eight bytes of the eBPF stack -/
example :
    (match X86.run exCfg exSt 25 with
      | .done r σ' => some (r, X86.readMem σ'.mem 0x7f00000031f8 8)
      | _ => none) = some (42#64, some [42, 0, 0, 0, 0, 0, 0, 0]) ∧
    (match X86.run exCfg exSt 24 with | .timeout => true | _ => false) = true := by decide +kernel

set_option maxRecDepth 100000 in
/-- the hypothesis `RegIndep` is needed: for the accepted program `exit` the interpreter returns 0 (its r0 starts at 0),
    the machine returns whatever rax held at entry -/
example :
    Verifier.check (#[0x95,0,0,0,0,0,0,0] : Bytes) = .ok ∧
    (match Interp.run { exEnv with prog := #[0x95,0,0,0,0,0,0,0] } (Interp.init exMem) 10 with
      | .done r _ => some r | _ => none) = some 0#64 ∧
    (match JitEmit.compileWithLayout #[0x95,0,0,0,0,0,0,0] (fun _ => none) false false with
      | .ok (code, _, _) =>
        (match X86.run { exCfg with code := code } exSt 30 with | .done r _ => some r | _ => none)
      | .error _ => none) = some 0xdeadbeefdeadbeef#64 := by decide +kernel

/-- **`C12_code_wellformed` applies**: the 93 bytes are a prologue, the seven arms `JitAst.arm` prescribes at the recorded
    locations, every jump landing on an arm or on the epilogue, and the epilogue -/
theorem C12_code_wellformed_example :
    JitAst.validate exProg (fun _ => none) false false exCode { pcLocs := exLocs, exitLoc := exExit } = true :=
  (C12_code_wellformed exProg (fun _ => none) false false exCode exLocs exExit exCheck exCompile
    (fun _ _ h => by cases h)).1

set_option maxRecDepth 100000 in
/-- … and the validator, evaluated on them, says so -/
example : JitAst.validate exProg (fun _ => none) false false exCode { pcLocs := exLocs, exitLoc := exExit } = true := by
  decide +kernel

/-! ### a second example: a helper call (`C03_x86_calls`) -/

/-- the registered helper: a function of all five arguments -/
def exHelper : HelperFn := fun a b c d e => a + b + c + d + e + 7

/-- `mov r1, 5 ; mov r2, 6 ; mov r3, 7 ; mov r4, 8 ; mov r5, 9 ; call 1 ; exit` — all five arguments are set: compiled
    code enters with garbage in r2 … r5, and the helper's arguments are part of the statement -/
def exProgC : Bytes :=
  #[0xb7,0x01,0,0,5,0,0,0,  0xb7,0x02,0,0,6,0,0,0,  0xb7,0x03,0,0,7,0,0,0,  0xb7,0x04,0,0,8,0,0,0,
    0xb7,0x05,0,0,9,0,0,0,  0x85,0x00,0,0,1,0,0,0,  0x95,0,0,0,0,0,0,0]

/-- helper 1 registered -/
def exEnvC : Env :=
  { prog := exProgC, helpers := fun id => if id = 1 then some exHelper else none, allowed := [],
    usage := Interp.stackUsage exProgC none }
/-- … at this address -/
def exHaddr : Nat → Option Nat := fun id => if id = 1 then some 0x555500001000 else none

/-- the 105 bytes the emitter model writes -/
def exCodeC : Array UInt8 :=
  #[0x55, 0x53, 0x41,0x55, 0x41,0x56, 0x41,0x57, 0x49,0x89,0xd2, 0x48,0x89,0xd7, 0x48,0x89,0xe5,   -- prologue as above
    0x48,0x81,0xec,0x00,0x02,0x00,0x00, 0xe8,0x05,0x00,0x00,0x00, 0xe9,0x37,0x00,0x00,0x00,
    0x48,0xc7,0xc7,0x05,0x00,0x00,0x00,                         -- 34: mov rdi, 5
    0x48,0xc7,0xc6,0x06,0x00,0x00,0x00,                         -- 41: mov rsi, 6
    0x48,0xc7,0xc2,0x07,0x00,0x00,0x00,                         -- 48: mov rdx, 7
    0x49,0xc7,0xc1,0x08,0x00,0x00,0x00,                         -- 55: mov r9, 8
    0x49,0xc7,0xc0,0x09,0x00,0x00,0x00,                         -- 62: mov r8, 9
    0x41,0x52, 0x4c,0x89,0xc9,                                  -- 69: push r10 ; mov rcx, r9
    0x48,0xb8,0x00,0x10,0x00,0x00,0x55,0x55,0x00,0x00,          --     movabs rax, 0x555500001000
    0xff,0xd0, 0x41,0x5a,                                       --     call rax ; pop r10
    0xc3,                                                       -- 88: ret
    0x48,0x81,0xc4,0x00,0x02,0x00,0x00, 0x41,0x5f, 0x41,0x5e, 0x41,0x5d, 0x5b, 0x5d, 0xc3]   -- 89: epilogue
def exLocsC : Array Nat := #[34, 41, 48, 55, 62, 69, 88, 0]
def exExitC : Nat := 89

/-- the machine finds `exHelper` at that address; after the `n`-th external call the caller-saved register `r` holds
    some value of the callee's choosing (the theorem holds for any) -/
def exCfgC : X86.Cfg :=
  { code := exCodeC, codeBase := 0x100000, retSentinel := 0xfffffffffffffff0#64,
    ext := fun a => if a = 0x555500001000 then some (0, exHelper) else none,
    clobber := fun n r => BitVec.ofNat 64 (0xc10b0000 + 16 * n + r) }

theorem exCheckC : Verifier.check exProgC = .ok := check_ok_of_wellFormed (by decide +kernel)

set_option maxRecDepth 100000 in
theorem exCompileC : JitEmit.compileWithLayout exProgC exHaddr false false = .ok (exCodeC, exLocsC, exExitC) :=
  eq_ok_of_ok? (by decide +kernel)

theorem exCoveredC : CoveredC exProgC := by unfold CoveredC; decide +kernel

private theorem exSlotsC (pc : Nat) (i : Insn) (h : getInsn? exProgC pc = some i) : pc < 7 := by
  have hs : exProgC.size = 56 := by decide
  unfold getInsn? at h
  split at h
  · cases h
  · omega

theorem exNoLocalCallC : NoLocalCall exProgC := by
  intro pc i h
  have key : ∀ pc, pc < 7 → (getInsn? exProgC pc).all (fun i => decide (¬ (i.opc = 0x85 ∧ i.src = 1))) = true := by
    decide +kernel
  have := key pc (exSlotsC pc i h)
  rw [h] at this
  exact of_decide_eq_true this

theorem exNoF7C : NoF7 exProgC := by
  intro pc i h
  have key : ∀ pc, pc < 7 → (getInsn? exProgC pc).all (fun i => decide (Isa.isF7 i = false)) = true := by
    decide +kernel
  have := key pc (exSlotsC pc i h)
  rw [h] at this
  exact of_decide_eq_true this

theorem exExtOk : ExtOk exCfgC exEnvC exHaddr := by
  constructor
  · intro id addr f h1 h2
    by_cases hid : id = 1
    · subst hid
      obtain rfl : 0x555500001000 = addr := Option.some.inj h1
      obtain rfl : exHelper = f := Option.some.inj h2
      exact ⟨0, rfl⟩
    · simp [exHaddr, hid] at h1
  · intro id addr h1
    by_cases hid : id = 1
    · subst hid
      obtain rfl : 0x555500001000 = addr := Option.some.inj h1
      decide
    · simp [exHaddr, hid] at h1

/-- the same entry state and memory as in the first example (the stack is 16-byte aligned, as the ABI has it) -/
theorem exEntryC : Entry exCfgC exMem exSt :=
  ⟨exEntry.rip, exEntry.rdi, exEntry.rsi, exEntry.rdx, exEntry.rsp, exEntry.mem, exEntry.sentinel, exEntry.room⟩

/-- whatever r0, r2 … r9 hold at entry and whatever the helper leaves in r1 … r5, seven steps return 42, leave the memory
    untouched and have called helper 1 with (5, 6, 7, 8, 9) -/
private theorem exRunAnyC (clob : Nat → Nat → BitVec 64) (a0 a2 a3 a4 a5 a6 a7 a8 a9 : BitVec 64) (u : Vector Nat 8) :
    outcome (jitRunC clob exEnvC
      { reg := #v[a0, 0#64, a2, a3, a4, a5, a6, a7, a8, a9, 0x7f0000003200#64], pc := 0, frames := [], usage := u,
        mem := exMem, log := [] } 10) = some (42#64, memKey exMem, [(1, [5#64, 6#64, 7#64, 8#64, 9#64])]) := by
  apply of_decide_eq_true
  kernel_rfl

set_option maxRecDepth 100000 in
private theorem exRunInitC :
    outcome (EngineSem.jitRun exEnvC (Interp.init exMem) 10) =
      some (42#64, memKey exMem, [(1, [5#64, 6#64, 7#64, 8#64, 9#64])]) := by
  decide +kernel

theorem exClobIndep : ClobIndep exEnvC exMem 10 := by
  intro clob s hpc hfr hmem hlog h1 h10 r0 a ha
  have hi := exRunInitC
  rw [ha] at hi
  simp only [outcome, Option.some.injEq, Prod.mk.injEq] at hi
  obtain ⟨rfl, hma, hla⟩ := hi
  rw [memKey_inj hma, hla]
  obtain ⟨reg, pc, frames, usage, mem, log⟩ := s
  simp only at hpc hfr hmem hlog h1 h10
  subst hpc hfr hmem hlog
  obtain ⟨a0, a1, a2, a3, a4, a5, a6, a7, a8, a9, a10, rfl⟩ := vec11 reg
  have e1 : (Interp.init exMem).reg[1]? = some 0#64 := by decide +kernel
  have e10 : (Interp.init exMem).reg[10]? = some 0x7f0000003200#64 := by decide +kernel
  rw [e1] at h1
  rw [e10] at h10
  obtain rfl : a1 = 0#64 := Option.some.inj h1
  obtain rfl : a10 = 0x7f0000003200#64 := Option.some.inj h10
  obtain ⟨b, hb, hbm, hbl⟩ := outcome_done (exRunAnyC clob a0 a2 a3 a4 a5 a6 a7 a8 a9 usage)
  exact ⟨b, hb, by rw [hbm]; exact ⟨rfl, rfl, rfl⟩, hbl⟩

set_option maxRecDepth 100000 in
/-- the interpreter returns 42, leaves the memory as it was, and has called helper 1 once, with (5, 6, 7, 8, 9) -/
theorem exInterpC : ∃ s', Interp.run exEnvC (Interp.init exMem) 10 = .done 42#64 s' ∧ s'.mem = exMem ∧
    s'.log = [(1, [5#64, 6#64, 7#64, 8#64, 9#64])] :=
  outcome_done (by decide +kernel)

/-- **`C03_x86_calls` applies**: the machine returns 42, restores what it must, and has called the function at the
    helper's address exactly once, with (5, 6, 7, 8, 9) in rdi, rsi, rdx, rcx, r8 and rsp a multiple of 16 -/
theorem C03_x86_calls_example :
    ∃ k σ', X86.run exCfgC exSt k = .done 42#64 σ' ∧ DataRel σ'.mem exMem ∧
      σ'.get 3 = 0xbbbbbbbbbbbbbbbb#64 ∧ σ'.get 5 = 0x5555555555555555#64 ∧ σ'.get 13 = 0xdddddddddddddddd#64 ∧
      σ'.get 14 = 0xeeeeeeeeeeeeeeee#64 ∧ σ'.get 15 = 0xffffffffffffffff#64 ∧
      (σ'.get X86.RSP).toNat = 0x7f0000003230 ∧
      σ'.log.map (·.2) = [[5#64, 6#64, 7#64, 8#64, 9#64]] ∧ σ'.misaligned = 0 := by
  obtain ⟨s', hint, hmem, hlog⟩ := exInterpC
  have h := C03_x86_calls exEnvC exHaddr false exCfgC exLocsC exExitC exMem exSt 10 42#64 s'
    exCheckC exCompileC exExtOk exNoLocalCallC exNoF7C
    (by decide +kernel) (Or.inr (by decide +kernel)) exEntryC rfl (by decide +kernel) (fun _ => rfl) (fun _ => rfl)
    exClobIndep hint
  rw [hmem, hlog] at h
  exact h

set_option maxRecDepth 100000 in
/-- … and the machine model, run on those bytes, does so (29 instructions, the external call counted as one) -/
example :
    (match X86.run exCfgC exSt 29 with
      | .done r σ' => some (r, σ'.log, σ'.misaligned)
      | _ => none) = some (42#64, [(0, [5#64, 6#64, 7#64, 8#64, 9#64])], 0) := by decide +kernel

/-! ### a third example: an eBPF-to-eBPF call (`C03_x86_jit_semantics`) -/

/-- `mov r6, 40 ; call +2 ; add r0, r6 ; exit ;  mov r0, 2 ; mov r6, 99 ; exit` — the main function sets r6 and calls
    the function at slot 4, which returns 2 in r0 and overwrites r6; compiled code saves r6 … r9 around the call, so
    r6 is 40 again when `add r0, r6` runs: the result is 42 = 2 + 40 (not 101) -/
def exProgL : Bytes :=
  #[0xb7,0x06,0,0,40,0,0,0,  0x85,0x10,0,0,2,0,0,0,  0x0f,0x60,0,0,0,0,0,0,  0x95,0,0,0,0,0,0,0,
    0xb7,0x00,0,0,2,0,0,0,  0xb7,0x06,0,0,99,0,0,0,  0x95,0,0,0,0,0,0,0]

def exEnvL : Env := { prog := exProgL, helpers := fun _ => none, allowed := [], usage := Interp.stackUsage exProgL none }

/-- the 99 bytes the emitter model writes -/
def exCodeL : Array UInt8 :=
  #[0x55, 0x53, 0x41,0x55, 0x41,0x56, 0x41,0x57, 0x49,0x89,0xd2, 0x48,0x89,0xd7, 0x48,0x89,0xe5,   -- prologue as above
    0x48,0x81,0xec,0x00,0x02,0x00,0x00, 0xe8,0x05,0x00,0x00,0x00, 0xe9,0x31,0x00,0x00,0x00,
    0x48,0xc7,0xc3,0x28,0x00,0x00,0x00,                         -- 34: mov rbx, 40          (r6)
    0x41,0x52, 0x53, 0x41,0x55, 0x41,0x56, 0x41,0x57,           -- 41: push r10, rbx, r13, r14, r15   (packet base, r6 … r9)
    0xe8,0x0d,0x00,0x00,0x00,                                   --     call +13             (to 68)
    0x41,0x5f, 0x41,0x5e, 0x41,0x5d, 0x5b, 0x41,0x5a,           --     pop r15, r14, r13, rbx, r10
    0x48,0x01,0xd8,                                             -- 64: add rax, rbx
    0xc3,                                                       -- 67: ret                  (to the landing pad)
    0x48,0xc7,0xc0,0x02,0x00,0x00,0x00,                         -- 68: mov rax, 2
    0x48,0xc7,0xc3,0x63,0x00,0x00,0x00,                         -- 75: mov rbx, 99
    0xc3,                                                       -- 82: ret                  (to the pops at 55)
    0x48,0x81,0xc4,0x00,0x02,0x00,0x00, 0x41,0x5f, 0x41,0x5e, 0x41,0x5d, 0x5b, 0x5d, 0xc3]   -- 83: epilogue
def exLocsL : Array Nat := #[34, 41, 64, 67, 68, 75, 82, 0]
def exExitL : Nat := 83

def exCfgL : X86.Cfg :=
  { code := exCodeL, codeBase := 0x100000, ext := fun _ => none, retSentinel := 0xfffffffffffffff0#64 }

theorem exCheckL : Verifier.check exProgL = .ok := check_ok_of_wellFormed (by decide +kernel)

set_option maxRecDepth 100000 in
theorem exCompileL : JitEmit.compileWithLayout exProgL (fun _ => none) false false = .ok (exCodeL, exLocsL, exExitL) :=
  eq_ok_of_ok? (by decide +kernel)

theorem exExtOkL : ExtOk exCfgL exEnvL (fun _ => none) := by
  constructor
  · intro id addr f h; cases h
  · intro id addr h; cases h

theorem exEntryL : Entry exCfgL exMem exSt :=
  ⟨exEntry.rip, exEntry.rdi, exEntry.rsi, exEntry.rdx, exEntry.rsp, exEntry.mem, exEntry.sentinel, exEntry.room⟩

/-- the 256 bytes below the frame are enough for one nested call: 72 + 48 ≤ 256 -/
theorem exStackRoom : StackRoom exSt exMem 1 := ⟨exLower, rfl, by decide +kernel⟩

/-- `depthOk` as a boolean function, for evaluation -/
private def depthOkB (clob : Nat → Nat → BitVec 64) (env : Env) (D : Nat) : State → Nat → Bool
  | _, 0 => true
  | s, fuel + 1 =>
    decide (s.frames.length ≤ D) &&
    match jitStepC clob env s with
    | .next s' => depthOkB clob env D s' fuel
    | _ => true
private theorem depthOk_of_depthOkB (clob : Nat → Nat → BitVec 64) (env : Env) (D fuel : Nat) (s : State)
    (h : depthOkB clob env D s fuel = true) : depthOk clob env D s fuel := by
  induction fuel generalizing s with
  | zero => trivial
  | succ n ih =>
    simp only [depthOkB, Bool.and_eq_true, decide_eq_true_eq] at h
    simp only [depthOk]
    refine ⟨h.1, ?_⟩
    cases hs : jitStepC clob env s with
    | next s' => rw [hs] at h; exact ih s' h.2
    | done r s' => trivial
    | err e s' => trivial
    | panic => trivial
    | fault => trivial

set_option maxRecDepth 100000 in
/-- the run from the entry state (r0 = 0xdeadbeefdeadbeef, r6 = 0xbbbbbbbbbbbbbbbb, … — whatever `exSt` holds) never
    has more than one caller's frame -/
theorem exDepthOk : depthOk exCfgL.clobber exEnvL 1 (entryState exMem exSt false) 10 :=
  depthOk_of_depthOkB _ _ _ _ _ (by decide +kernel)

set_option maxRecDepth 100000 in
/-- the register-transfer semantics of the compiled code, from that entry state: 42, memory untouched, no helper call -/
theorem exRunL : ∃ s', jitRunC exCfgL.clobber exEnvL (entryState exMem exSt false) 10 = .done 42#64 s' ∧ s'.mem = exMem ∧
    s'.log = [] :=
  outcome_done (by decide +kernel)

/-- **`C03_x86_jit_semantics` applies**: the machine returns 42 — r6 (rbx) came back as 40 after the call, although the
    callee set it to 99 —, the eBPF-visible memory including the stack is as the semantics leave it (`MemRel`), the
    caller's rbx, rbp, r13, r14, r15 are restored (rbx through two levels of save/restore), the return address popped -/
theorem C03_x86_jit_semantics_example :
    ∃ k σ', X86.run exCfgL exSt k = .done 42#64 σ' ∧ MemRel σ'.mem exMem ∧
      σ'.get 3 = 0xbbbbbbbbbbbbbbbb#64 ∧ σ'.get 5 = 0x5555555555555555#64 ∧ σ'.get 13 = 0xdddddddddddddddd#64 ∧
      σ'.get 14 = 0xeeeeeeeeeeeeeeee#64 ∧ σ'.get 15 = 0xffffffffffffffff#64 ∧
      (σ'.get X86.RSP).toNat = 0x7f0000003230 ∧
      σ'.log.map (·.2) = [] ∧ σ'.misaligned = 0 := by
  obtain ⟨s', hrun, hmem, hlog⟩ := exRunL
  have h := C03_x86_jit_semantics exEnvL (fun _ => none) false exCfgL exLocsL exExitL exMem exSt 1 10 42#64 s'
    exCheckL exCompileL exExtOkL (by decide +kernel) (Or.inr (by decide +kernel)) exEntryL rfl (by decide +kernel)
    exStackRoom exDepthOk hrun
  rw [hmem, hlog] at h
  exact h

set_option maxRecDepth 100000 in
/-- … and the machine model, run on those bytes, does return 42 (after 35 instructions, not before) -/
example :
    (match X86.run exCfgL exSt 35 with | .done r _ => some r | _ => none) = some 42#64 ∧
    (match X86.run exCfgL exSt 34 with | .timeout => true | _ => false) = true := by decide +kernel

end Rbpf
