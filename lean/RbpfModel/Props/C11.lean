/-
  C11 — Cranelift-compiled code never touches memory outside the program's regions.  Only property
  theorems and their non-vacuity examples live here; helper lemmas are in `Lemmas/EngineLemmas.lean`.
-/
import RbpfModel.Model.EngineSem
import RbpfModel.Lemmas.EngineLemmas
import RbpfModel.Props.C02
namespace Rbpf

/-- the inserted bounds check admits an access iff all its bytes lie inside the stack, the packet or the
    metadata buffer (a buffer whose pointer is null is absent); any width 1..8, any base / offset incl.
    null and wrap-around.  (`hb` is implied by `hr`; it is kept so that the statement reads as designed.) -/
theorem C11_boundsOk_iff (m : Memory) (base : BitVec 64) (off : BitVec 16) (w : Nat) (hw : 1 ≤ w ∧ w ≤ 8)
    (hr : RegionsOk m [])
    (hnull : (m.mem.base = 0 → m.mem.bytes.size = 0) ∧ (m.mbuff.base = 0 → m.mbuff.bytes.size = 0))
    (_hb : m.mem.base < 2^64 ∧ m.mbuff.base < 2^64 ∧ m.stack.base < 2^64) :
    EngineSem.clifBoundsOk m base off w = true ↔ OwnMemory m [] (base + off.signExtend 64).toNat w :=
  clifBoundsOk_iff m base off w hw hr.1 hr.2.1 hr.2.2.1 hnull

/-- … which is the test the model's accesses go through: `checkMem` with no registered ranges -/
theorem C11_boundsOk_eq_checkMem (m : Memory) (base : BitVec 64) (off : BitVec 16) (w : Nat) (hw : 1 ≤ w ∧ w ≤ 8)
    (hr : RegionsOk m [])
    (hnull : (m.mem.base = 0 → m.mem.bytes.size = 0) ∧ (m.mbuff.base = 0 → m.mbuff.bytes.size = 0))
    (hb : m.mem.base < 2^64 ∧ m.mbuff.base < 2^64 ∧ m.stack.base < 2^64) :
    EngineSem.clifBoundsOk m base off w = checkMem m [] (base + off.signExtend 64) w := by
  rw [Bool.eq_iff_iff, C11_boundsOk_iff m base off w hw hr hnull hb, C02_checkMem_iff _ _ _ _ hr]

/-- every load / store / atomic add of the Cranelift model outside stack, packet and metadata buffer stops
    with a trap (`.err .oob`) before the access, state unchanged — whatever ranges are registered with the
    VM (`env.allowed` is not consulted) -/
theorem C11_refused (env : Env) (s : State) (insn : Insn) (k : AccessKind) (a : BitVec 64) (w : Nat)
    (hacc : access? s insn = some (k, a, w)) (hr : RegionsOk s.mem [])
    (hpkt : s.mem.mem.base + 2^32 < 2^64) (hsrc : insn.src.toNat < 11)
    (hno : ¬ OwnMemory s.mem [] a.toNat w) : EngineSem.clifExec env s insn = .err .oob s := by
  by_cases hk : k = .atomic
  · subst hk
    have hck : checkMem s.mem [] a w = false := by
      rw [← Bool.not_eq_true, C02_checkMem_iff _ _ _ _ hr]; exact hno
    rcases clifExec_of_atomic env s insn a w hacc with ⟨v, he⟩ | ⟨_, h11⟩
    · rw [he]; exact xaddAnyAlign_refused { env with allowed := [] } s a w v hck
    · omega
  · rw [clifExec_of_access env s insn k a w hacc hk]
    exact C02_refused { env with allowed := [] } s insn k a w hacc hr hpkt hsrc hno

/-- an access wholly inside those regions is never trapped — no error of any kind — and never panics
    (register fields in range).  In particular a misaligned atomic add inside the regions is performed:
    generated code has no alignment test (the interpreter refuses it with an error, cf. C02_admitted). -/
theorem C11_admitted (env : Env) (s : State) (insn : Insn) (k : AccessKind) (a : BitVec 64) (w : Nat)
    (hacc : access? s insn = some (k, a, w)) (hr : RegionsOk s.mem [])
    (hpkt : s.mem.mem.base + 2^32 < 2^64)
    (hregs : insn.dst.toNat < 11 ∧ insn.src.toNat < 11)
    (hyes : OwnMemory s.mem [] a.toNat w) :
    (∀ e s', EngineSem.clifExec env s insn ≠ .err e s') ∧ EngineSem.clifExec env s insn ≠ .panic := by
  by_cases hk : k = .atomic
  · subst hk
    have hck : checkMem s.mem [] a w = true := (C02_checkMem_iff _ _ _ _ hr).2 hyes
    rcases clifExec_of_atomic env s insn a w hacc with ⟨v, he⟩ | ⟨_, h11⟩
    · rw [he]
      rcases xaddAnyAlign_cases { env with allowed := [] } s a w v hck with
        ⟨_, h⟩ | ⟨bs, _, ⟨_, h⟩ | ⟨m, _, h⟩⟩ <;> rw [h] <;> simp
    · omega
  · rw [clifExec_of_access env s insn k a w hacc hk]
    obtain ⟨_, h2, h3⟩ := C02_admitted { env with allowed := [] } s insn k a w hacc hr hpkt hregs hyes
    exact ⟨fun e s' he => hk (h3 e s' he).2.1, h2⟩

/-- … and it is really performed: never `.fault` -/
theorem C11_backed (env : Env) (s : State) (insn : Insn) (k : AccessKind) (a : BitVec 64) (w : Nat)
    (hacc : access? s insn = some (k, a, w)) (hr : RegionsOk s.mem [])
    (hpkt : s.mem.mem.base + 2^32 < 2^64)
    (hregs : insn.dst.toNat < 11 ∧ insn.src.toNat < 11)
    (hyes : OwnMemory s.mem [] a.toNat w) : EngineSem.clifExec env s insn ≠ .fault := by
  have hin : Contained a.toNat w s.mem.mbuff ∨ Contained a.toNat w s.mem.mem ∨ Contained a.toNat w s.mem.stack := by
    rcases hyes with h | h | h | ⟨_, hm, _⟩
    · exact Or.inl h
    · exact Or.inr (Or.inl h)
    · exact Or.inr (Or.inr h)
    · cases hm
  by_cases hk : k = .atomic
  · subst hk
    have hck : checkMem s.mem [] a w = true := (C02_checkMem_iff _ _ _ _ hr).2 hyes
    obtain ⟨rb, hrb⟩ := readBytes?_isSome s.mem a.toNat w hin
    rcases clifExec_of_atomic env s insn a w hacc with ⟨v, he⟩ | ⟨_, h11⟩
    · rw [he]
      rcases xaddAnyAlign_cases { env with allowed := [] } s a w v hck with
        ⟨hn, _⟩ | ⟨bs, _, ⟨hn, _⟩ | ⟨m, _, h⟩⟩
      · rw [hrb] at hn; cases hn
      · obtain ⟨m', hm'⟩ := writeBytes?_isSome s.mem a.toNat (leBytes (leValue bs + v.toNat) w)
          (by rw [leBytes_length]; exact hin)
        rw [hm'] at hn; cases hn
      · rw [h]; simp
    · omega
  · rw [clifExec_of_access env s insn k a w hacc hk]
    exact C02_backed { env with allowed := [] } s insn k a w hacc hr hpkt hregs hin

/-- a store / atomic add of the Cranelift model changes no byte outside `[a, a+w)`, moves no region, and
    changes nothing else in the state -/
theorem C11_store_frame (env : Env) (s s' : State) (insn : Insn) (k : AccessKind) (a : BitVec 64) (w : Nat)
    (hacc : access? s insn = some (k, a, w)) (hk : k ≠ .load) (hpkt : s.mem.mem.base + 2^32 < 2^64)
    (hnext : EngineSem.clifExec env s insn = .next s') :
    (∀ b, b < a.toNat ∨ a.toNat + w ≤ b → s'.mem.readBytes? b 1 = s.mem.readBytes? b 1) ∧
    s'.mem.regions.map (fun r => (r.base, r.bytes.size)) = s.mem.regions.map (fun r => (r.base, r.bytes.size)) ∧
    s'.reg = s.reg ∧ s'.pc = s.pc ∧ s'.frames = s.frames ∧ s'.usage = s.usage ∧ s'.log = s.log := by
  by_cases hka : k = .atomic
  · subst hka
    rcases clifExec_of_atomic env s insn a w hacc with ⟨v, he⟩ | ⟨hp, _⟩
    · rw [he] at hnext
      obtain ⟨bs, m, hm, rfl⟩ := xaddAnyAlign_next _ s s' a w v hnext
      refine ⟨fun b hb => ?_, writeBytes?_shape _ _ _ _ hm, rfl, rfl, rfl, rfl, rfl⟩
      exact writeBytes?_read_frame _ _ _ _ hm b (by rw [leBytes_length]; exact hb)
    · rw [hp] at hnext; cases hnext
  · rw [clifExec_of_access env s insn k a w hacc hka] at hnext
    exact C02_store_frame { env with allowed := [] } s s' insn k a w hacc hk hpkt hnext

/-! ### non-vacuity (`Ex.mem`: empty metadata buffer at 0x1000, packet `01..08` at 0x2000, stack 0x3000..0x3200;
    `Ex.state`: r1 = 0x2000, r10 = 0x3200) -/

theorem C11_ex_regionsOk : RegionsOk Ex.state.mem [] := by
  simp [RegionsOk, Ex.state, Ex.mem, Interp.init]

-- the bounds check itself: last four packet bytes in, one further out, null out, wrap-around out
example : EngineSem.clifBoundsOk Ex.mem 0x2000#64 4 4 = true := by decide +kernel
example : EngineSem.clifBoundsOk Ex.mem 0x2000#64 5 4 = false := by decide +kernel
example : EngineSem.clifBoundsOk Ex.mem 0#64 0 1 = false := by decide +kernel
example : EngineSem.clifBoundsOk Ex.mem 0x3200#64 0xfff8 8 = true := by decide +kernel       -- [r10-8]
example : EngineSem.clifBoundsOk Ex.mem 0xffffffffffffffff#64 0 8 = false := by decide +kernel
-- a null packet pointer: nothing is admitted there, not even a zero-offset byte
example : EngineSem.clifBoundsOk { Ex.mem with mem := ⟨0, #[]⟩ } 0#64 0 1 = false := by decide +kernel
-- the hypotheses of `C11_boundsOk_iff` hold of `Ex.mem`
example : EngineSem.clifBoundsOk Ex.mem 0x2000#64 4 4 = true ↔ OwnMemory Ex.mem [] (0x2000#64 + (4#16).signExtend 64).toNat 4 :=
  C11_boundsOk_iff Ex.mem _ _ 4 (by decide) C11_ex_regionsOk (by decide) (by decide)
-- `ldxw r0, [r1+5]`: the fourth byte is one past the packet; trapped
example : EngineSem.clifExec Ex.env Ex.state ⟨0x61, 0, 1, 5, 0⟩ = .err .oob Ex.state :=
  C11_refused Ex.env Ex.state ⟨0x61, 0, 1, 5, 0⟩ .load 0x2005#64 4 (by decide +kernel) C11_ex_regionsOk
    (by decide +kernel) (by decide) (by simp [OwnMemory, Contained, Ex.state, Ex.mem, Interp.init])
-- … also when the VM has a registered range [0x2000, 0x4000) that would cover it (the interpreter admits it)
example : EngineSem.clifExec { Ex.env with allowed := [(0x2000, 0x4000)] } Ex.state ⟨0x61, 0, 1, 5, 0⟩ = .err .oob Ex.state :=
  C11_refused _ Ex.state ⟨0x61, 0, 1, 5, 0⟩ .load 0x2005#64 4 (by decide +kernel) C11_ex_regionsOk
    (by decide +kernel) (by decide) (by simp [OwnMemory, Contained, Ex.state, Ex.mem, Interp.init])
-- `ldxw r0, [r1+4]`: admitted and performed
example : EngineSem.clifExec Ex.env Ex.state ⟨0x61, 0, 1, 4, 0⟩ ≠ .panic :=
  (C11_admitted Ex.env Ex.state ⟨0x61, 0, 1, 4, 0⟩ .load 0x2004#64 4 (by decide +kernel) C11_ex_regionsOk
    (by decide +kernel) (by decide)
    (Or.inr (Or.inl (by simp [Contained, Ex.state, Ex.mem, Interp.init])))).2
example : ∃ s', EngineSem.clifExec Ex.env Ex.state ⟨0x61, 0, 1, 4, 0⟩ = .next s' ∧ s'.reg[0]? = some 0x08070605#64 :=
  ⟨_, rfl, by decide +kernel⟩
-- `stxw [r10-3], r1`: one byte above the stack; trapped
example : EngineSem.clifExec Ex.env Ex.state ⟨0x63, 10, 1, 0xfffd, 0⟩ = .err .oob Ex.state :=
  C11_refused Ex.env Ex.state ⟨0x63, 10, 1, 0xfffd, 0⟩ .store 0x31fd#64 4 (by decide +kernel) C11_ex_regionsOk
    (by decide +kernel) (by decide) (by simp [OwnMemory, Contained, Ex.state, Ex.mem, Interp.init])

-- `xaddw [r10-6], r1`: inside the stack but misaligned; generated code performs it (the interpreter: `.err .unaligned`)
set_option maxRecDepth 8192 in
example : ∃ s', EngineSem.clifExec Ex.env Ex.state ⟨0xc3, 10, 1, 0xfffa, 0⟩ = .next s' ∧
    s'.mem.readBytes? 0x31fa 4 = some [0x00, 0x20, 0, 0] ∧
    Interp.exec Ex.env Ex.state ⟨0xc3, 10, 1, 0xfffa, 0⟩ = .err .unaligned Ex.state :=
  ⟨_, rfl, by decide +kernel, rfl⟩
example : ∀ e s', EngineSem.clifExec Ex.env Ex.state ⟨0xc3, 10, 1, 0xfffa, 0⟩ ≠ .err e s' :=
  (C11_admitted Ex.env Ex.state ⟨0xc3, 10, 1, 0xfffa, 0⟩ .atomic 0x31fa#64 4 (by decide +kernel)
    C11_ex_regionsOk (by decide +kernel) (by decide)
    (Or.inr (Or.inr (Or.inl (by simp [Contained, Ex.state, Ex.mem, Interp.init]))))).1
-- `xaddw [r10-2], r1`: two bytes above the stack; trapped
example : EngineSem.clifExec Ex.env Ex.state ⟨0xc3, 10, 1, 0xfffe, 0⟩ = .err .oob Ex.state :=
  C11_refused Ex.env Ex.state ⟨0xc3, 10, 1, 0xfffe, 0⟩ .atomic 0x31fe#64 4 (by decide +kernel) C11_ex_regionsOk
    (by decide +kernel) (by decide) (by simp [OwnMemory, Contained, Ex.state, Ex.mem, Interp.init])

end Rbpf
