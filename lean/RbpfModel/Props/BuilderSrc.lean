/- The instruction builder of src/insn_builder.rs as translated on every run (Generated/BuilderTables.lean) is the model's (`Model/Builder.lean`, what C17_builder is about). -/
import RbpfModel.Generated.BuilderTables
namespace Rbpf
open Rbpf.Builder Rbpf.Generated.BuilderTables

theorem BuilderSrc_translated : enumsSrcOk = true ∧ optSrcOk = true ∧ ctorSrcOk = true ∧ intoBytesSrcOk = true ∧ pushShape = true := by decide

/-- the discriminants of the seven enums -/
theorem BuilderSrc_enums :
    (∀ x, sourceBitsSrc x = Source.bits x) ∧ (∀ x, opBitsBitsSrc x = OpBits.bits x) ∧ (∀ x, archBitsSrc x = Arch.bits x) ∧ (∀ x, endianBitsSrc x = Endian.bits x) ∧
    (∀ x, memSizeBitsSrc x = MemSize.bits x) ∧ (∀ x, addressingBitsSrc x = Addressing.bits x) ∧ (∀ x, condBitsSrc x = Cond.bits x) := by
  refine ⟨?_, ?_, ?_, ?_, ?_, ?_, ?_⟩ <;> intro x <;> cases x <;> rfl

/-- `opt_code_byte` of each struct: the model's `Kind.optCode` is the source's composition -/
theorem BuilderSrc_optCode (k : Kind) :
    k.optCode = (match k with
      | .move s a op => moveOptSrc s a op
      | .swap e => swapOptSrc e
      | .load a m source => loadOptSrc a m source
      | .store m source => storeOptSrc m source
      | .jump c s => jumpOptSrc c s
      | .call => callOptSrc
      | .exit => exitOptSrc) := by
  obtain ⟨h1, h2, h3, h4, h5, h6, h7⟩ := BuilderSrc_enums
  cases k <;> simp only [Kind.optCode, moveOptSrc, swapOptSrc, loadOptSrc, storeOptSrc, jumpOptSrc, callOptSrc, exitOptSrc, h1, h2, h3, h4, h5, h6, h7] <;> rfl

/-- the `source` constants of the load / store constructors and the operation of each ALU constructor, as the driver's `parseKind?` uses them -/
theorem BuilderSrc_ctors :
    ctorSourceSrc = [("load", 0x00), ("load_abs", 0x00), ("load_ind", 0x00), ("load_x", 0x01), ("store", 0x00), ("store_x", 0x60 ||| 0x03)] ∧
    ctorOpSrc = [("add", .add, false), ("sub", .sub, false), ("mul", .mul, false), ("div", .div, false), ("bit_or", .bitOr, false), ("bit_and", .bitAnd, false),
                 ("left_shift", .lShift, false), ("right_shift", .rShift, false), ("negate", .negate, true), ("modulo", .mod, false), ("bit_xor", .bitXor, false),
                 ("mov", .mov, false), ("signed_right_shift", .signRShift, false)] := by decide

/-- `IntoBytes::into_bytes`: the eight byte expressions -/
theorem BuilderSrc_intoBytes (k : Kind) (f : Insn) : intoBytesSrc k.optCode f = intoBytes k f := by
  simp [intoBytesSrc, intoBytes]

end Rbpf
