/- Capstone for C01 over the translated source: the loop of `execute_program` as translated from src/interpreter.rs (`Src.runSrc`: the translated control skeleton,
   with the 119 ALU / jump / memory arms that `InterpArms_*` / `InterpMem_exec` tie to the source) computes what the instruction-set specification `Isa` prescribes. -/
import RbpfModel.Props.C01
import RbpfModel.Props.InterpCtl
import RbpfModel.Props.C05
namespace Rbpf
open Rbpf.Src

/-- from any source state satisfying the loop invariant: whenever the ISA run ends within `fuel` steps, the translated loop ends the same way within `fuel + 1`
    iterations (programs without the F7 instruction forms, as in `C01_run_partial`) -/
theorem C01_src_run (env : Env) (σ : St) (hsz : env.prog.size < 2 ^ 63) (h : Src.Inv σ) (fuel : Nat)
    (hF7 : ∀ pc insn, getInsn? env.prog pc = some insn → Isa.isF7 insn = false)
    (hm : ∀ s, Isa.run env (abs σ) fuel ≠ .timeout s) :
    RelRes (runSrc env σ (fuel + 1)) (Isa.run env (abs σ) fuel) := by
  rw [← C01_run_partial env (abs σ) fuel hF7] at hm ⊢
  exact InterpCtl_run env σ hsz h fuel hm

/-- from the initial locals of `execute_program` -/
theorem C01_src_init (env : Env) (m : Memory) (hsz : env.prog.size < 2 ^ 63) (fuel : Nat)
    (hF7 : ∀ pc insn, getInsn? env.prog pc = some insn → Isa.isF7 insn = false)
    (hm : ∀ s, Isa.run env (Interp.init m) fuel ≠ .timeout s) :
    RelRes (runSrc env (initSrc m) (fuel + 1)) (Isa.run env (Interp.init m) fuel) := by
  have hi := InterpCtl_init m
  have := C01_src_run env (initSrc m) hsz hi.2 fuel hF7 (by rw [hi.1]; exact hm)
  rwa [hi.1] at this

/-- C05 over the translated source: on a program the verifier accepts, whenever the model's run ends within `fuel` steps the translated loop ends the same way — and
    that way is never a panic (any input, any helpers) -/
theorem C05_src_no_panic (env : Env) (m : Memory) (fuel : Nat) (hsz : env.prog.size < 2 ^ 63) (hc : Verifier.check env.prog = .ok)
    (hu : UsageOk env) (hh : HostOk m) (hm : ∀ s, Interp.run env (Interp.init m) fuel ≠ .timeout s) :
    (match runSrc env (initSrc m) (fuel + 1) with | .panic => False | _ => True) := by
  have hi := InterpCtl_init m
  have hr := InterpCtl_run env (initSrc m) hsz hi.2 fuel (by rw [hi.1]; exact hm)
  rw [hi.1] at hr
  have hp := C05_no_panic env m fuel hc hu hh
  cases hrs : runSrc env (initSrc m) (fuel + 1) with
  | panic => rw [hrs] at hr; exact absurd hr hp
  | _ => trivial

end Rbpf
