/-
  C17 — instruction encoding and decoding are inverse, and all encoders agree.
  Only property theorems and their non-vacuity examples live here.
-/
import RbpfModel.Model.Insn
import RbpfModel.Model.Builder
import RbpfModel.Lemmas.Codec
import Std.Tactic.BVDecide
namespace Rbpf

/-- decoding the eight bytes `to_array` emits gives the instruction back (register numbers 0–15) -/
theorem C17_decode_encode (x : Insn) (hd : x.dst < 16) (hs : x.src < 16) :
    ∃ b0 b1 b2 b3 b4 b5 b6 b7, x.toArray = [b0,b1,b2,b3,b4,b5,b6,b7] ∧
      decodeSlot b0 b1 b2 b3 b4 b5 b6 b7 = x := by
  refine ⟨_, _, _, _, _, _, _, _, rfl, ?_⟩
  obtain ⟨opc, dst, src, off, imm⟩ := x
  simp only [decodeSlot, Insn.mk.injEq, true_and] at hd hs ⊢
  refine ⟨?_, ?_, ?_, ?_⟩ <;> bv_decide

/-- encoding the decoded fields of any eight bytes gives those bytes back: every one of the 2^64
    slot values is a fixed point -/
theorem C17_encode_decode (b0 b1 b2 b3 b4 b5 b6 b7 : BitVec 8) :
    (decodeSlot b0 b1 b2 b3 b4 b5 b6 b7).toArray = [b0,b1,b2,b3,b4,b5,b6,b7] := by
  simp only [decodeSlot, Insn.toArray, List.cons.injEq, and_true, true_and]
  refine ⟨?_, ?_, ?_, ?_, ?_, ?_, ?_⟩ <;> bv_decide

/-- the vector encoder and the array encoder agree on every instruction (any register bytes) -/
theorem C17_vec_eq_array (x : Insn) : x.toVec = x.toArray := rfl

/-- at every instruction index of a program built from a list of instructions, `get_insn` returns
    that instruction -/
theorem C17_getInsn_index (xs : List Insn) (k : Nat) (h : k < xs.length)
    (wf : ∀ x ∈ xs, x.dst < 16 ∧ x.src < 16) :
    getInsn? (encodeAll xs) k = some xs[k] :=
  getInsn?_encodeAll xs k h wf

/-- `get_insn` panics exactly when the index is not a whole slot of the program -/
theorem C17_getInsn_none_iff (p : Bytes) (k : Nat) : getInsn? p k = none ↔ p.size < (k + 1) * 8 := by
  unfold getInsn?; split <;> simp <;> omega

/-- `to_insn_vec` of an encoded list is the list -/
theorem C17_toInsnVec (xs : List Insn) (wf : ∀ x ∈ xs, x.dst < 16 ∧ x.src < 16) :
    toInsnVec? (encodeAll xs) = some xs :=
  toInsnVec?_encodeAll xs wf

/-- the builder emits, for every instruction it can build and every value of every field, the bytes
    the instruction encoder emits for the instruction it denotes -/
theorem C17_builder (k : Builder.Kind) (f : Insn) :
    Builder.intoBytes k f = (Builder.insn k f).toArray := by
  obtain ⟨opc, dst, src, off, imm⟩ := f
  simp only [Builder.intoBytes, Builder.insn, Insn.toArray, List.cons.injEq, and_true, true_and]
  and_intros <;> bv_decide

/-- non-vacuity: a non-trivial instruction meets the hypotheses of `C17_decode_encode` -/
example : (⟨0xb7, 2, 1, 0x3456, 0x789abcde⟩ : Insn).dst < 16 ∧ (⟨0xb7, 2, 1, 0x3456, 0x789abcde⟩ : Insn).src < 16 := by
  decide

/-- the register bound is necessary: with dst = 16 the round trip fails (the nibbles collide) -/
example : decodeSlot 0 (((0 : BitVec 8) <<< (4 : Nat)) ||| 16) 0 0 0 0 0 0 ≠ (⟨0, 16, 0, 0, 0⟩ : Insn) := by
  decide

end Rbpf
