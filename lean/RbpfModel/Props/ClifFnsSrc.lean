/- The helper functions of the Cranelift translator (`insn_*`, `set_dst*`, `reg_load`, `reg_store`, `reg_atomic_add` and the bounds check `insert_bounds_check`)
   and the 74 arms of `translate_program` the translator covers (every arm except the jumps, the wide load, `call`, `tail_call` and `exit`), as translated from src/cranelift.rs on every run (Generated/ClifFns.lean), are
   the model's (`Model/ClifAst.lean`, what the `C04_ir_*` / `C11_ir_trap` theorems are about and what is compared with the real translator's IR text). -/
import RbpfModel.Lemmas.ClifFnsAux
namespace Rbpf
open Rbpf.ClifAst Rbpf.Generated.Clif

theorem ClifFns_translated : helpersSrcOk = true ∧ armsSrcOk = true ∧ straightOpcodes.length = 74 ∧ ctlOpcodes.length = 49 ∧ otherOpcodes = [] ∧
    (straightOpcodes ++ ctlOpcodes).Nodup ∧ defaultArmPanics = true := by decide +kernel

/-- the twelve helper functions: the model's builder actions are the source's, statement by statement -/
theorem ClifFns_helpers (i : Insn) (v : Arg) (ty : Ty) (base : Arg) (offset : BitVec 16) :
    insnImm64Src i = insnImm64 i ∧ insnImm32Src i = insnImm32 i ∧ insnDstSrc i = insnDst i ∧ insnDst32Src i = insnDst32 i ∧
    insnSrcSrc i = insnSrc i ∧ insnSrc32Src i = insnSrc32 i ∧ setDstSrc i v = setDst i v ∧ setDst32Src i v = setDst32 i v ∧
    regLoadSrc ty base offset = regLoad ty base offset ∧ regStoreSrc ty base offset v = regStore ty base offset v ∧
    regAtomicAddSrc ty base offset v = regAtomicAdd ty base offset v :=
  ⟨insnImm64_eq i, insnImm32_eq i, insnDst_eq i, insnDst32_eq i, insnSrc_eq i, insnSrc32_eq i, setDst_eq i v, setDst32_eq i v,
   regLoad_eq ty base offset, regStore_eq ty base offset v, regAtomicAdd_eq ty base offset v⟩

/-- the bounds check in front of every memory access: 29 builder calls, the same in the same order -/
theorem ClifFns_boundsCheck (ty : Ty) (base : Arg) (offset : BitVec 16) : insertBoundsCheckSrc ty base offset = insertBoundsCheck ty base offset :=
  insertBoundsCheck_eq ty base offset

/-- the translated arms: every ALU and byte-swap arm, the loads (`ldabs`, `ldind`, `ldx`), the stores and the two atomic adds -/
theorem ClifFns_arm (helpers : Nat → Bool) (p : Bytes) (pc : Nat) (i : Insn) (h : i.opc.toNat ∈ straightOpcodes) :
    straightArmSrc i = some (armB helpers p pc i) := straightArm_eq helpers p pc i h

/-- the other 49 arms (`ja`, the 44 conditional jumps, the wide load, `call`, `tail_call`, `exit`); `insn_targets[&insn_ptr]`, the table `build_cfg` fills, is the model's `targetPc` -/
theorem ClifFns_ctlArm (helpers : Nat → Bool) (p : Bytes) (pc : Nat) (i : Insn) (h : i.opc.toNat ∈ ctlOpcodes) :
    ctlArmSrc helpers p pc i = some (armB helpers p pc i) := ctlArm_eq helpers p pc i h

/-- so for every instruction the model's arm is the source's: one of the 123 translated arms, or `unimplemented!` -/
theorem ClifFns_armB (helpers : Nat → Bool) (p : Bytes) (pc : Nat) (i : Insn) :
    armB helpers p pc i = (match straightArmSrc i with
      | some b => b
      | none => match ctlArmSrc helpers p pc i with
        | some b => b
        | none => throw .panic) := by
  by_cases h1 : i.opc.toNat ∈ straightOpcodes
  · rw [straightArm_eq helpers p pc i h1]
  · rw [straightNone i h1]
    by_cases h2 : i.opc.toNat ∈ ctlOpcodes
    · rw [ctlArm_eq helpers p pc i h2]
    · rw [ctlNone helpers p pc i h2, armB_default helpers p pc i h1 h2]

/-- `build_function_prelude`: the entry block's operations (stack addresses, ends of the two memory areas, R1, R2, the jump) are the source's -/
theorem ClifFns_prelude : preludeSrcOk = true ∧ preludeSrcB = preludeB := ⟨by decide, rfl⟩

/-- `build_cfg`: for every opcode byte, the source calls `prepare_jump_blocks` exactly where the model's `isJump` holds, and opens only the next instruction's block
    exactly after `exit` and `tail_call` (`cfgStep`); `prepare_jump_blocks` and the head and tail of `translate_program`'s loop have the modelled shapes -/
theorem ClifFns_cfg : (∀ o : Fin 256, (cfgJumpOpcodesSrc.contains o.val) = isJump o.val) ∧
    (∀ o : Fin 256, (cfgNextOnlySrc.contains o.val) = (o.val = 0x95 || o.val = 0x8d)) ∧
    prepareJumpBlocksShape = true ∧ translateHeadShape = true ∧ translateTailShape = true := by
  decide +kernel

/-- helper symbols: the name a helper's address is registered under and the name the compiled function imports are the same format string over the id (a call to helper `k`
    reaches the function registered under `k`), and it prints the id with `{}` -/
theorem ClifFns_helperSymbols : helperSymbolsSrcOk = true ∧ helperSymbolDefSrc = helperSymbolImportSrc ∧ helperSymbolDefSrc = "helper_{}".toList := by
  refine ⟨by decide, by decide, ?_⟩
  simp [helperSymbolDefSrc]

end Rbpf
