/- `StackVerifier::stack_validate` as translated from src/stack.rs on every run (Generated/StackEntries.lean) is the model's `Interp.stackEntries` /
   `Interp.stackUsage` (what the frame-size clauses of C07 and C01 are about). -/
import RbpfModel.Generated.StackEntries
namespace Rbpf
open Rbpf.Generated.Stack

theorem StackSrc_translated : stackEntriesSrcOk = true ∧ usageValueSrcOk = true ∧ stackFrameShape = true := by decide

private theorem filterMap_congr' {α β : Type} (f g : α → Option β) (l : List α) (h : ∀ x ∈ l, f x = g x) : l.filterMap f = l.filterMap g := by
  induction l with
  | nil => rfl
  | cons a t ih =>
    have ha := h a (List.mem_cons_self ..)
    have ht := ih (fun x hx => h x (List.mem_cons_of_mem _ hx))
    simp only [List.filterMap_cons, ha, ht]

/-- the keys of the map: key 0 and the target of every local call, for every program a slice can hold -/
theorem StackSrc_entries (p : Bytes) (h : p.size < 2 ^ 63) : stackEntriesSrc p = Interp.stackEntries p := by
  unfold stackEntriesSrc Interp.stackEntries
  congr 1
  apply filterMap_congr'
  intro idx hidx
  have hi : idx < p.size / 8 := List.mem_range.mp hidx
  simp only [Nat.not_lt_zero, ↓reduceIte]
  cases hg : getInsn? p idx with
  | none => rfl
  | some insn =>
    simp only []
    have e1 : (insn.opc.toNat = 133) ↔ (insn.opc = 0x85) := by
      constructor
      · intro hh; apply BitVec.eq_of_toNat_eq; simpa using hh
      · intro hh; rw [hh]; rfl
    have e2 : (insn.src.toNat = 1) ↔ (insn.src = 1) := by
      constructor
      · intro hh; apply BitVec.eq_of_toNat_eq; simpa using hh
      · intro hh; rw [hh]; rfl
    have := BitVec.toInt_lt (x := insn.imm); have := BitVec.le_toInt (x := insn.imm)
    by_cases hc : insn.opc = 0x85 ∧ insn.src = 1
    · have hc' : insn.opc.toNat = 133 ∧ insn.src.toNat = 1 := ⟨e1.mpr hc.1, e2.mpr hc.2⟩
      rw [if_pos hc, if_pos hc']
      congr 1
      split <;> omega
    · have hc' : ¬ (insn.opc.toNat = 133 ∧ insn.src.toNat = 1) := fun hh => hc ⟨e1.mp hh.1, e2.mp hh.2⟩
      rw [if_neg hc, if_neg hc']

/-- what a function entry maps to -/
theorem StackSrc_usage (p : Bytes) (calcFn : Option (Nat → Nat)) (pc : Nat) (h : p.size < 2 ^ 63) :
    Interp.stackUsage p calcFn pc = if (stackEntriesSrc p).contains pc then some (usageValueSrc calcFn pc) else none := by
  rw [StackSrc_entries p h]; rfl

end Rbpf
