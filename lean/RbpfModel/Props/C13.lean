/-
  C13 — the assembler emits exactly the encoding each mnemonic and operand list denotes.
  Only property theorems and their non-vacuity examples live here; the definitions `typeOf`,
  `OperandI64`, `SaneClasses`, `WellLaidOut` and all lemmas are in `Lemmas/AsmLemmas.lean`.
-/
import RbpfModel.Model.Asm
import RbpfModel.Model.AsmSpec
import RbpfModel.Lemmas.AsmLemmas
namespace Rbpf

/-- the assembler knows exactly the documented mnemonics, each with its documented opcode and operand shape -/
theorem C13_table (name : List Char) :
    Asm.lookup name = (AsmSpec.find name).map (fun (sh, opc) => (typeOf sh, opc)) :=
  lookup_eq_find name

/-- encoding: for every parsed instruction list, the assembler emits precisely the slots the documented syntax
    denotes — opcode, registers, offset and immediate as written, unused fields zero, lddw as two slots — in
    source order; and an unknown mnemonic, a wrong operand shape or an out-of-range operand anywhere yields an
    error and no bytes.  `OperandI64`: what the parser produces (register numbers in [0, 2^63), integers and
    offsets in [-2^63, 2^63)). -/
theorem C13_encode (is : List Asm.Instruction) (hi : ∀ i ∈ is, ∀ o ∈ i.operands, OperandI64 o) :
    Asm.assembleInternal is = (match AsmSpec.denoteAll is with | some xs => .ok xs | none => .err) :=
  assembleInternal_eq is hi

/-- parsing: every spelling the documented syntax allows — decimal or hexadecimal (either case, leading zeros),
    optional sign, any whitespace where the grammar allows it — parses to the instruction list it spells -/
theorem C13_parse_render (cc : Asm.CharClass) (hcc : SaneClasses cc) (lead : List Char)
    (prog : List (Asm.Instruction × AsmSpec.Layout × List Char)) (hl : ∀ c ∈ lead, cc.isWs c)
    (hw : WellLaidOut cc prog) : Asm.parse cc (AsmSpec.renderProg lead prog) = .ok (prog.map (·.1)) :=
  parse_renderProg hcc lead prog hl hw

/-- the property: text ↦ bytes -/
theorem C13_program (cc : Asm.CharClass) (hcc : SaneClasses cc) (lead : List Char)
    (prog : List (Asm.Instruction × AsmSpec.Layout × List Char)) (hl : ∀ c ∈ lead, cc.isWs c)
    (hw : WellLaidOut cc prog) :
    Asm.assemble cc (AsmSpec.renderProg lead prog) =
      (match AsmSpec.denoteAll (prog.map (·.1)) with
       | some xs => .ok (xs.flatMap Insn.toArray) | none => .err) := by
  unfold Asm.assemble
  rw [C13_parse_render cc hcc lead prog hl hw]
  simp only [C13_encode _ (wellLaidOut_operands hw)]
  cases AsmSpec.denoteAll (prog.map (·.1)) <;> rfl

end Rbpf
