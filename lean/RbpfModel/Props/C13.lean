/-
  C13 — the assembler emits exactly the encoding each mnemonic and operand list denotes.
  Only property theorems and their non-vacuity examples live here; the definitions `typeOf`,
  `OperandI64`, `SaneClasses`, `WellLaidOut` and all lemmas are in `Lemmas/AsmLemmas.lean`.
-/
import RbpfModel.Model.Asm
import RbpfModel.Model.AsmSpec
import RbpfModel.Lemmas.AsmLemmas
namespace Rbpf

/-- the assembler knows exactly the documented mnemonics, each with its documented opcode and operand shape -/
theorem C13_table (name : List Char) :
    Asm.lookup name = (AsmSpec.find name).map (fun (sh, opc) => (typeOf sh, opc)) :=
  lookup_eq_find name

/-- encoding: for every parsed instruction list, the assembler emits precisely the slots the documented syntax
    denotes — opcode, registers, offset and immediate as written, unused fields zero, lddw as two slots — in
    source order; and an unknown mnemonic, a wrong operand shape or an out-of-range operand anywhere yields an
    error and no bytes.  `OperandI64`: what the parser produces (register numbers in [0, 2^63), integers and
    offsets in [-2^63, 2^63)). -/
theorem C13_encode (is : List Asm.Instruction) (hi : ∀ i ∈ is, ∀ o ∈ i.operands, OperandI64 o) :
    Asm.assembleInternal is = (match AsmSpec.denoteAll is with | some xs => .ok xs | none => .err) :=
  assembleInternal_eq is hi

/-- parsing: every spelling the documented syntax allows — decimal or hexadecimal (either case, leading zeros),
    optional sign, any whitespace where the grammar allows it — parses to the instruction list it spells -/
theorem C13_parse_render (cc : Asm.CharClass) (hcc : SaneClasses cc) (lead : List Char)
    (prog : List (Asm.Instruction × AsmSpec.Layout × List Char)) (hl : ∀ c ∈ lead, cc.isWs c)
    (hw : WellLaidOut cc prog) : Asm.parse cc (AsmSpec.renderProg lead prog) = .ok (prog.map (·.1)) :=
  parse_renderProg hcc lead prog hl hw

/-- the property: text ↦ bytes -/
theorem C13_program (cc : Asm.CharClass) (hcc : SaneClasses cc) (lead : List Char)
    (prog : List (Asm.Instruction × AsmSpec.Layout × List Char)) (hl : ∀ c ∈ lead, cc.isWs c)
    (hw : WellLaidOut cc prog) :
    Asm.assemble cc (AsmSpec.renderProg lead prog) =
      (match AsmSpec.denoteAll (prog.map (·.1)) with
       | some xs => .ok (xs.flatMap Insn.toArray) | none => .err) := by
  unfold Asm.assemble
  rw [C13_parse_render cc hcc lead prog hl hw]
  simp only [C13_encode _ (wellLaidOut_operands hw)]
  cases AsmSpec.denoteAll (prog.map (·.1)) <;> rfl

-- non-vacuity ------------------------------------------------------------------------------------------------

-- the hypotheses on the character classes hold of the ASCII classes (`saneClasses_drive` in `Lemmas/RtLemmas.lean`
-- shows them of the driver's model of Rust's Unicode classes)
example : SaneClasses asciiClasses := saneClasses_ascii

-- every documented mnemonic is an admissible name
example : ∀ r ∈ AsmSpec.table, NameOk r.1.toList := fun r hr => nameOk_of_table ⟨r, hr, rfl⟩

-- a liberal spelling of `mov r1, -16 ; exit` is well laid out …
example : WellLaidOut asciiClasses
    [({ name := "mov".toList, operands := [.register 1, .integer (-16)] },
      { afterName := [' ', '\t'], afterComma := [' '], styles := [{}, { hex := true, upper := true, zeros := 2 }] }, ['\n']),
     ({ name := "exit".toList, operands := [] }, { afterName := [], afterComma := [], styles := [] }, [])] := by
  refine ⟨⟨nameOk_of_nameOkB (by decide), by decide, by decide, by decide, fun _ => by simp, ?_⟩, .inl (by simp),
    ⟨nameOk_of_nameOkB (by decide), by decide, by decide, by decide, fun h => absurd rfl h, by simp⟩, .inr rfl, trivial⟩
  intro o ho
  simp only [List.mem_cons, List.not_mem_nil, or_false] at ho
  rcases ho with rfl | rfl <;> simp [OperandI64, AsmSpec.imm64Ok]

-- … its text assembles to the two slots it denotes (the model evaluated), a too-wide immediate, an unknown
-- mnemonic and a wrong operand shape are errors
example : Asm.assemble asciiClasses "mov \tr1, -0x0010\nexit".toList =
    .ok [0xb7, 1, 0, 0, 0xf0, 0xff, 0xff, 0xff, 0x95, 0, 0, 0, 0, 0, 0, 0] := by decide +kernel
example : AsmSpec.denoteAll [{ name := "mov".toList, operands := [.register 1, .integer (-16)] },
    { name := "exit".toList, operands := [] }] =
    some [{ opc := 0xb7, dst := 1, src := 0, off := 0, imm := 0xfffffff0 }, { opc := 0x95, dst := 0, src := 0, off := 0, imm := 0 }] := by
  decide +kernel
example : Asm.assemble asciiClasses "mov r1, 0x100000000".toList = .err := by decide +kernel
example : AsmSpec.denoteAll [{ name := "mov".toList, operands := [.register 1, .integer 4294967296] }] = none := by
  decide +kernel
example : Asm.assemble asciiClasses "frob r1".toList = .err := by decide +kernel
example : Asm.assemble asciiClasses "exit r1".toList = .err := by decide +kernel
-- `lddw` occupies two slots; `rsh` directly after a zero-operand instruction parses
example : Asm.assemble asciiClasses "lddw r2, 0x1122334455667788".toList =
    .ok [0x18, 2, 0, 0, 0x88, 0x77, 0x66, 0x55, 0, 0, 0, 0, 0x44, 0x33, 0x22, 0x11] := by decide +kernel
example : Asm.parse asciiClasses "exit\nrsh r1, 2".toList =
    .ok [{ name := "exit".toList, operands := [] }, { name := "rsh".toList, operands := [.register 1, .integer 2] }] := by
  decide +kernel

end Rbpf
