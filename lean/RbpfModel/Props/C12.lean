/-
  C12 — compiling a verifier-accepted program never panics, in either compiler: the x86-64 JIT emitter model
  (`JitEmit.compile`, byte-exact with `src/jit.rs`) and the compile-time bookkeeping of the Cranelift front end
  (`ClifCompile.compile`).  The only failures are error values: an unregistered helper id (both), an eBPF-to-eBPF
  call (Cranelift).  Only property theorems and their non-vacuity examples live here; the lemmas are in
  `Lemmas/CompileLemmas.lean`.
-/
import RbpfModel.Model.JitEmit
import RbpfModel.Model.ClifCompile
import RbpfModel.Lemmas.CompileLemmas
namespace Rbpf

/-- x86-64 JIT: compiling a verifier-accepted program never panics — any size, any mixture of jumps, wide loads,
    helper and local calls, any helper table, any VM kind: no register index out of the map, no missing second slot of
    a wide load, no byte-swap width / tail-call arm, and every recorded jump resolves (its target is the exit anchor
    or an instruction index whose code offset was recorded) -/
theorem C12_jit_total (p : Bytes) (haddr : Nat → Option Nat) (um ud : Bool) (hc : Verifier.check p = .ok) :
    JitEmit.compile p haddr um ud ≠ .error .panic := by
  rcases JitEmit.compile_spec hc haddr um ud with ⟨-, h⟩ | ⟨-, code, h⟩ <;> rw [h] <;> simp

/-- the only error value is an unregistered helper id (call kinds other than 0/1 are rejected by the verifier) -/
theorem C12_jit_err_iff (p : Bytes) (haddr : Nat → Option Nat) (um ud : Bool) (hc : Verifier.check p = .ok) :
    JitEmit.compile p haddr um ud = .error .err ↔
      ∃ e ∈ EngineSem.insns p, e.2.opc = 0x85 ∧ e.2.src = 0 ∧ haddr e.2.imm.toNat = none := by
  rcases JitEmit.compile_spec hc haddr um ud with ⟨hb, h⟩ | ⟨hb, code, h⟩
  · exact iff_of_true h hb
  · refine iff_of_false ?_ hb
    rw [h]; simp

set_option linter.unusedVariables false in
/-- the code never exceeds the buffer sized from it, and jump resolution only patches bytes inside the emitted code
    (size unchanged) -/
theorem C12_jit_fits (p : Bytes) (haddr : Nat → Option Nat) (um ud : Bool) (code : Array UInt8)
    (h : JitEmit.compile p haddr um ud = .ok code) :
    code.size ≤ JitEmit.bufferSize code.size ∧ JitEmit.bufferSize code.size % 4096 = 0 := by
  unfold JitEmit.bufferSize
  omega

theorem C12_resolve_size (e : JitEmit.Em) (code : Array UInt8) (h : JitEmit.resolveJumps e = .ok code) :
    code.size = e.code.size :=
  JitEmit.resolveJumps_size h

/-- Cranelift front end: never panics on an accepted program; the error values are exactly: an eBPF-to-eBPF call or an
    unregistered helper id -/
theorem C12_clif_total (p : Bytes) (helpers : Nat → Bool) (hc : Verifier.check p = .ok) :
    ClifCompile.compile p helpers ≠ .panic :=
  (ClifCompile.compile_spec helpers hc).1

theorem C12_clif_err_iff (p : Bytes) (helpers : Nat → Bool) (hc : Verifier.check p = .ok) :
    ClifCompile.compile p helpers = .err ↔
      ∃ e ∈ EngineSem.insns p, e.2.opc = 0x85 ∧ (e.2.src ≠ 0 ∨ helpers e.2.imm.toNat = false) :=
  (ClifCompile.compile_spec helpers hc).2

/-! ### non-vacuity -/

/-- `lddw r1, 0; jeq r1, 0, +1; div r0, r1; call 7; call local +1; exit; exit` -/
def C12.prog : Bytes :=
  #[0x18,1,0,0,0,0,0,0, 0,0,0,0,0,0,0,0, 0x15,1,1,0,0,0,0,0, 0x3f,0x10,0,0,0,0,0,0,
    0x85,0,0,0,7,0,0,0, 0x85,0x10,0,0,1,0,0,0, 0x95,0,0,0,0,0,0,0, 0x95,0,0,0,0,0,0,0]

-- accepted; with helper 7 registered the JIT produces code (jumps resolved), without it: an error value
example : Verifier.check C12.prog = .ok := by decide +kernel
example : (JitEmit.compile C12.prog (fun k => if k = 7 then some 0x7fff12345678 else none) true false).toBool = true := by
  decide +kernel
example : (JitEmit.compile C12.prog (fun _ => none) false false matches .error .err) = true := by decide +kernel
-- Cranelift refuses the same program (it has a local call) with an error value, and accepts it without the local call
example : ClifCompile.compile C12.prog (fun k => k == 7) = .err := by decide +kernel
example : ClifCompile.compile
    (#[0x18,1,0,0,0,0,0,0, 0,0,0,0,0,0,0,0, 0x15,1,1,0,0,0,0,0, 0x3f,0x10,0,0,0,0,0,0,
       0x85,0,0,0,7,0,0,0, 0x95,0,0,0,0,0,0,0] : Bytes) (fun k => k == 7) = .ok := by decide +kernel
-- the hypothesis matters: on programs the verifier refuses both models do reach their panic sites
-- (register 11; a wide load in the last slot; a jump past the end)
example : (JitEmit.compile (#[0xb7,0x0b,0,0,0,0,0,0, 0x95,0,0,0,0,0,0,0] : Bytes) (fun _ => none) false false
    matches .error .panic) = true := by decide +kernel
example : (JitEmit.compile (#[0x18,0,0,0,0,0,0,0] : Bytes) (fun _ => none) false false
    matches .error .panic) = true := by decide +kernel
example : (JitEmit.compile (#[0x05,0,5,0,0,0,0,0, 0x95,0,0,0,0,0,0,0] : Bytes) (fun _ => none) false false
    matches .error .panic) = true := by decide +kernel
example : ClifCompile.compile (#[0xb7,0x0b,0,0,0,0,0,0, 0x95,0,0,0,0,0,0,0] : Bytes) (fun _ => false) = .panic := by
  decide +kernel

end Rbpf
