/- The per-opcode arms of the x86-64 JIT's `jit_compile` as translated from src/jit.rs on every run (Generated/JitArms.lean: the `emit_*` calls of every arm in
   source order, with their arguments and casts) are the arms of the byte-level model `JitEmit.arm` — the model whose output `C03_x86_*`, `C12_code_wellformed`
   and the instruction-level description `JitAst` are proved about, and whose bytes are compared with the real JIT's on every engine case. -/
import RbpfModel.Lemmas.JitArmsAux
namespace Rbpf
open Rbpf.JitEmit Rbpf.Generated.Jit

/-- the translator understood every arm (123 opcodes, no opcode twice), and the loop body around the match has the recognised shape
    (fetch, `pc_locs[insn_ptr] = mem.offset`, `map_register` of both register fields, `target_pc`; `insn_ptr += 1` after the match) -/
theorem JitArms_translated : armSrcOk = true ∧ loopPreShape = true ∧ loopPostShape = true ∧ armCount = 123 := by decide

/-- for every emitter state, helper table, index, instruction and following slot: the model's arm is the source's -/
theorem JitArms_arm (e : Em) (helperAddr : Nat → Option Nat) (pc : Nat) (i : Insn) (next : Option Insn) :
    JitEmit.arm e helperAddr pc i next = armSrc e helperAddr pc i next := (armSrc_eq e helperAddr pc i next).symm

end Rbpf
