/-
  C07 — local calls preserve the caller's frame and callee-saved registers.  Only property theorems
  and their non-vacuity examples live here; helper lemmas (and the definitions `stepsAbove`,
  `R10ReadOnly`) are in `Lemmas/FrameLemmas.lean`.
-/
import RbpfModel.Model.Interp
import RbpfModel.Lemmas.FrameLemmas
namespace Rbpf

/-- the call itself: r0..r9 untouched (arguments pass through), r10 lowered by the CALLER's frame size
    (no wrap-around: an underflow is a panic), execution continues at pc + 1 + imm (`s.pc` is already
    the return address pc+1), one frame pushed -/
theorem C07_call_step (s s' : State) (imm : BitVec 32) (h : Interp.callLocal s imm = .next s') :
    (∀ i, i < 10 → s'.reg[i]? = s.reg[i]?) ∧
    (∃ r10, s.reg[10]? = some r10 ∧ (s.usage[s.depth]?).getD 0 ≤ r10.toNat ∧
      s'.reg[10]? = some (r10 - BitVec.ofNat 64 ((s.usage[s.depth]?).getD 0))) ∧
    (s'.pc : Int) = (s.pc : Int) + imm.toInt ∧ s'.depth = s.depth + 1 ∧ s'.mem = s.mem ∧ s'.usage = s.usage ∧
    s'.log = s.log := by
  obtain ⟨r6, r7, r8, r9, r10, _, _, _, _, h10, _, hu, hpc, rfl⟩ := callLocal_next s s' imm h
  refine ⟨fun i hi => Vector.getElem?_setIfInBounds_ne (by omega), ⟨r10, h10, hu, by simp⟩, ?_, rfl, rfl, rfl, rfl⟩
  simp only [Int.toNat_of_nonneg hpc]

/-- the frame a call pushes holds the return address and the caller's r6..r9 -/
theorem C07_call_frame (s s' : State) (imm : BitVec 32) (h : Interp.callLocal s imm = .next s') :
    ∃ r6 r7 r8 r9, s.reg[6]? = some r6 ∧ s.reg[7]? = some r7 ∧ s.reg[8]? = some r8 ∧ s.reg[9]? = some r9 ∧
      s'.frames = { ret := s.pc, saved := (r6, r7, r8, r9) } :: s.frames := by
  obtain ⟨r6, r7, r8, r9, r10, h6, h7, h8, h9, _, _, _, _, rfl⟩ := callLocal_next s s' imm h
  exact ⟨r6, r7, r8, r9, h6, h7, h8, h9, rfl⟩

/-- the return itself: r0..r5 untouched (results pass through), r6..r9 restored from the frame, r10
    raised by the frame size recorded for the depth returned to, pc = saved return address, one frame
    popped -/
theorem C07_exit_step (s s' : State) (f : Frame) (rest : List Frame) (hf : s.frames = f :: rest)
    (h : Interp.exitInsn s = .next s') :
    (∀ i, i < 6 → s'.reg[i]? = s.reg[i]?) ∧
    s'.reg[6]? = some f.saved.1 ∧ s'.reg[7]? = some f.saved.2.1 ∧ s'.reg[8]? = some f.saved.2.2.1 ∧
    s'.reg[9]? = some f.saved.2.2.2 ∧
    (∃ r10, s.reg[10]? = some r10 ∧ s'.reg[10]? = some (r10 + BitVec.ofNat 64 ((s.usage[rest.length]?).getD 0))) ∧
    s'.pc = f.ret ∧ s'.frames = rest ∧ s'.mem = s.mem ∧ s'.usage = s.usage ∧ s'.log = s.log := by
  obtain ⟨f', rest', r10, hfr, h10, rfl⟩ := exitInsn_next s s' h
  rw [hf] at hfr
  cases hfr
  refine ⟨fun i hi => ?_, by simp, by simp, by simp, by simp, ⟨r10, h10, by simp⟩, rfl, rfl, rfl, rfl, rfl⟩
  simp only []
  rw [Vector.getElem?_setIfInBounds_ne (by omega), Vector.getElem?_setIfInBounds_ne (by omega),
    Vector.getElem?_setIfInBounds_ne (by omega), Vector.getElem?_setIfInBounds_ne (by omega),
    Vector.getElem?_setIfInBounds_ne (by omega)]

/-- across a local call and its matching return — however long the callee runs, whatever it calls
    (nested, recursive), whatever it does to r6..r9 — r6..r9 have their pre-call values, execution
    resumes at the instruction after the call with the caller's frames, and r0..r5 are exactly what the
    callee left; r10 has its pre-call value provided the callee returns with the r10 it was entered
    with (`exit` adds the frame size back, it does not restore a saved r10).  No assumption on the
    program. -/
theorem C07_balanced_saved (env : Env) (s s1 s2 s3 : State) (imm : BitVec 32) (n : Nat)
    (hcall : Interp.callLocal s imm = .next s1)
    (hrun : stepsAbove env s.depth n s1 = some s2)          -- n steps, all at depth > s.depth
    (hret : Interp.step env s2 = .next s3) (hd : s3.depth = s.depth) :
    (∀ i, 6 ≤ i → i ≤ 9 → s3.reg[i]? = s.reg[i]?) ∧ s3.pc = s.pc ∧ (∀ i, i < 6 → s3.reg[i]? = s2.reg[i]?) ∧
    s3.frames = s.frames ∧ (s2.reg[10]? = s1.reg[10]? → s3.reg[10]? = s.reg[10]?) := by
  obtain ⟨h1, h2, h3, h4, h5, _⟩ := call_return env s s1 s2 s3 imm n hcall hrun hret hd
  exact ⟨h1, h2, h3, h5, h4⟩

/-- the same with r10: in a program where r10 is written by no instruction but call and exit
    (`R10ReadOnly`: destination field 10 only in stores and atomic adds — the verifier's register rule),
    r6..r9 and r10 have their pre-call values after the matching return -/
theorem C07_balanced (env : Env) (s s1 s2 s3 : State) (imm : BitVec 32) (n : Nat)
    (hro : R10ReadOnly env.prog)
    (hcall : Interp.callLocal s imm = .next s1)
    (hrun : stepsAbove env s.depth n s1 = some s2)          -- n steps, all at depth > s.depth
    (hret : Interp.step env s2 = .next s3) (hd : s3.depth = s.depth) :
    (∀ i, 6 ≤ i → i ≤ 10 → s3.reg[i]? = s.reg[i]?) ∧ s3.pc = s.pc ∧ (∀ i, i < 6 → s3.reg[i]? = s2.reg[i]?) := by
  obtain ⟨h1, h2, h3, h4, _, hdep⟩ := call_return env s s1 s2 s3 imm n hcall hrun hret hd
  refine ⟨fun i hi1 hi2 => ?_, h2, h3⟩
  by_cases h : i = 10
  · subst h
    exact h4 (call_return_r10 env hro s s1 s2 imm n hcall hrun hdep)
  · exact h1 i hi1 (by omega)

/-- nesting more than 8 calls is an error, not a crash -/
theorem C07_depth_limit (s : State) (imm : BitVec 32) (h : 8 ≤ s.depth) :
    Interp.callLocal s imm = .err .callDepth s := by
  unfold Interp.callLocal
  rw [if_pos h]

/-- caller and callee stack slots never alias: the callee's r10 is the bottom of the caller's frame
    (`r10' + usage = r10` as numbers), so any callee slot `[r10' − x − w, r10' − x)` is disjoint from
    the caller's frame `[r10', r10)` -/
theorem C07_no_alias (s s' : State) (imm : BitVec 32) (h : Interp.callLocal s imm = .next s')
    (r10 r10' : BitVec 64) (h10 : s.reg[10]? = some r10) (h10' : s'.reg[10]? = some r10') :
    r10'.toNat + (s.usage[s.depth]?).getD 0 = r10.toNat ∧
    ∀ x w b, x + w ≤ r10'.toNat → r10'.toNat - x - w ≤ b → b < r10'.toNat - x →
      ¬ (r10'.toNat ≤ b ∧ b < r10.toNat) := by
  obtain ⟨_, ⟨r, hr, hu, hr'⟩, _⟩ := C07_call_step s s' imm h
  rw [h10] at hr; cases hr
  rw [h10'] at hr'; cases hr'
  refine ⟨?_, fun x w b _ _ hb hc => by omega⟩
  have hlt := r10.isLt
  rw [BitVec.toNat_sub_of_le]
  · simp only [BitVec.toNat_ofNat]
    rw [Nat.mod_eq_of_lt (by omega)]; omega
  · rw [BitVec.le_def, BitVec.toNat_ofNat, Nat.mod_eq_of_lt (by omega)]; exact hu

/-! ### non-vacuity: `Ex7.prog` is
    `0: mov r6,5  1: call 3  2: exit  3: mov r6,7  4: call 6  5: exit  6: mov r7,9  7: exit`;
    `Ex7.s` is the state in which the call at pc 1 is executed (r6 = 5, r7 = 1, r10 = 0x3200) -/

-- the hypotheses of `C07_balanced` hold for the outer call (n = 4: mov, nested call, mov, nested exit);
-- the callee overwrote r6 (7), the nested callee r7 (9, already put back to 1 by the nested return)
example : ∃ s1 s2 s3, R10ReadOnly Ex7.env.prog ∧ Interp.callLocal Ex7.s 1 = .next s1 ∧
    stepsAbove Ex7.env Ex7.s.depth 4 s1 = some s2 ∧ Interp.step Ex7.env s2 = .next s3 ∧ s3.depth = Ex7.s.depth ∧
    s1.reg[10]? = some 0x3100#64 ∧ s2.reg[6]? = some 7#64 ∧ s2.reg[7]? = some 1#64 ∧
    s3.reg[6]? = some 5#64 ∧ s3.reg[7]? = some 1#64 ∧ s3.reg[10]? = some 0x3200#64 ∧ s3.pc = 2 :=
  ⟨_, _, _, Ex7.r10ReadOnly, rfl, rfl, rfl, rfl, by decide +kernel, by decide +kernel, by decide +kernel,
    by decide +kernel, by decide +kernel, by decide +kernel, by decide +kernel⟩
-- and the theorem applies to it
example (s1 s2 s3 : State) (h1 : Interp.callLocal Ex7.s 1 = .next s1)
    (h2 : stepsAbove Ex7.env Ex7.s.depth 4 s1 = some s2) (h3 : Interp.step Ex7.env s2 = .next s3)
    (h4 : s3.depth = Ex7.s.depth) : s3.reg[6]? = some 5#64 ∧ s3.reg[10]? = some 0x3200#64 ∧ s3.pc = 2 :=
  have h := C07_balanced Ex7.env Ex7.s s1 s2 s3 1 4 Ex7.r10ReadOnly h1 h2 h3 h4
  ⟨h.1 6 (by decide) (by decide), h.1 10 (by decide) (by decide), h.2.1⟩
-- a ninth nested call
example : Interp.callLocal { Ex7.s with frames := List.replicate 8 default } 1 =
    .err .callDepth { Ex7.s with frames := List.replicate 8 default } :=
  C07_depth_limit _ _ (by decide)
-- the callee's r10 is 0x3100 = 0x3200 − 256
example : ∃ s', Interp.callLocal Ex7.s 1 = .next s' ∧ s'.reg[10]? = some 0x3100#64 ∧
    (0x3100#64).toNat + (Ex7.s.usage[Ex7.s.depth]?).getD 0 = (0x3200#64).toNat :=
  ⟨_, rfl, by decide +kernel, by decide +kernel⟩

end Rbpf
