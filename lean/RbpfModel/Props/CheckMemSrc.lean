/-
  `fn check_mem` of `src/interpreter.rs`, translated from the source on every run (`checklib/gen_checkmem.py` →
  `Generated/CheckMem.lean`), against the model's `checkMem` — the function C02's theorems (`C02_checkMem_iff`, `C02_refused`,
  `C02_admitted` …) are about.  The u64 sums `X.as_ptr() as u64 + X.len() as u64` of the source are natural-number sums here:
  they cannot overflow for a real slice (the Rust build the harness uses would panic), which is C02's `RegionsOk`.
-/
import RbpfModel.Generated.CheckMem
import RbpfModel.Model.Mem
namespace Rbpf
open Rbpf.Generated

/-- the translator recognised the function -/
theorem CheckMemSrc_translated : checkMemSrcOk = true := by decide

/-- the model's bounds test is the source's, for every address, length, region layout and set of registered ranges -/
theorem CheckMemSrc_eq (m : Memory) (allowed : List (Nat × Nat)) (addr : BitVec 64) (len : Nat) :
    checkMem m allowed addr len =
      checkMemSrc addr.toNat len m.mbuff.base m.mbuff.bytes.size m.mem.base m.mem.bytes.size
        m.stack.base m.stack.bytes.size allowed := by
  unfold checkMem checkMemSrc Region.contains
  by_cases h : addr.toNat + len ≥ 2 ^ 64
  · have : ¬ (addr.toNat + len < 2 ^ 64) := by omega
    simp [h, this]
  · have h' : addr.toNat + len < 2 ^ 64 := by omega
    simp [h, h']

end Rbpf
