/-
  C09 — each VM kind presents the documented execution context.
  Only property theorems and their non-vacuity examples live here.
-/
import RbpfModel.Lemmas.VmLemmas
namespace Rbpf
open Vm

/-- fixed-metadata VM: for every pair of non-overlapping offsets (either order, adjacent, far apart) and
    every packet (incl. empty), after `fixedPrepare` the buffer holds the packet's first-byte address at
    data_offset and the one-past-the-end address at data_end_offset -/
theorem C09_fixed_slots (buf : Bytes) (d e memBase memLen : Nat) (hd : d + 8 ≤ e ∨ e + 8 ≤ d)
    (hsz : fixedBufLen d e ≤ buf.size) (hb : memBase + memLen < 2 ^ 64) :
    readU64 (fixedPrepare buf d e memBase memLen) d = memBase ∧
    readU64 (fixedPrepare buf d e memBase memLen) e = memBase + memLen := by
  have hlen := VmL.fixedBufLen_ge d e
  unfold fixedPrepare
  constructor
  · rw [VmL.readU64_writeU64_disjoint _ d e _ hd]
    exact VmL.readU64_writeU64 buf d memBase (by omega) (by omega)
  · apply VmL.readU64_writeU64 _ e _ _ hb
    rw [VmL.size_writeU64]
    omega

/-- a later execution with another packet overwrites both slots (successive executions) -/
theorem C09_fixed_reexec (buf : Bytes) (d e b1 l1 b2 l2 : Nat) (hd : d + 8 ≤ e ∨ e + 8 ≤ d)
    (hsz : fixedBufLen d e ≤ buf.size) (h1 : b1 + l1 < 2 ^ 64) (h2 : b2 + l2 < 2 ^ 64) :
    readU64 (fixedPrepare (fixedPrepare buf d e b1 l1) d e b2 l2) d = b2 ∧
    readU64 (fixedPrepare (fixedPrepare buf d e b1 l1) d e b2 l2) e = b2 + l2 := by
  have _ := h1   -- not needed: whatever the first execution wrote is overwritten
  exact C09_fixed_slots (fixedPrepare buf d e b1 l1) d e b2 l2 hd (by rw [VmL.size_fixedPrepare]; exact hsz) h2

/-- no other byte of the buffer changes, and its size does not change -/
theorem C09_fixed_frame (buf : Bytes) (d e memBase memLen : Nat) (k : Nat)
    (hk : ¬ (d ≤ k ∧ k < d + 8) ∧ ¬ (e ≤ k ∧ k < e + 8)) :
    (fixedPrepare buf d e memBase memLen).getD k 0 = buf.getD k 0 ∧
    (fixedPrepare buf d e memBase memLen).size = buf.size := by
  refine ⟨?_, VmL.size_fixedPrepare buf d e memBase memLen⟩
  unfold fixedPrepare
  rw [VmL.getD_writeU64_out _ e _ k hk.2, VmL.getD_writeU64_out _ d _ k hk.1]

/-- the overlap hypothesis is necessary: with |d − e| < 8 the second write clobbers the first -/
theorem C09_overlap_witness :
    ∃ buf d e b l, fixedBufLen d e ≤ buf.size ∧ readU64 (fixedPrepare buf d e b l) d ≠ b :=
  ⟨#[0, 0, 0, 0, 0, 0, 0, 0, 0, 0, 0, 0], 0, 4, 1, 0, by decide, by decide⟩

/-- r1 at entry, by VM kind: metadata address for metadata VMs (the buffer is never empty for the fixed
    one), packet address for raw VMs, 0 for no-data VMs and for an empty packet -/
theorem C09_r1 (k : Kind) (mem mbuff stack : Region) (extra : List Region) (fixedBase : Nat)
    (fixedBuf : Bytes) (d e : Nat) (hfb : fixedBuf.size = fixedBufLen d e) :
    (Interp.init (memOf k mem mbuff fixedBase fixedBuf d e stack extra)).reg[1]? = some (BitVec.ofNat 64 (
      match k with
      | .mbuff => if mbuff.bytes.size ≠ 0 then mbuff.base else if mem.bytes.size ≠ 0 then mem.base else 0
      | .fixed => fixedBase
      | .raw => if mem.bytes.size ≠ 0 then mem.base else 0
      | .noData => 0)) := by
  have hne : fixedBuf.size ≠ 0 := by
    have := VmL.fixedBufLen_ge d e
    omega
  cases k <;> simp [Interp.init, memOf, VmL.size_fixedPrepare, hne]
  all_goals (unfold pktRegion; by_cases hm : mem.bytes.size = 0 <;> simp_all)

/-- r10 = top of the 512-byte stack -/
theorem C09_r10 (k : Kind) (mem mbuff stack : Region) (extra : List Region) (fixedBase : Nat)
    (fixedBuf : Bytes) (d e : Nat) :
    (Interp.init (memOf k mem mbuff fixedBase fixedBuf d e stack extra)).reg[10]? =
      some (BitVec.ofNat 64 (stack.base + stack.bytes.size)) := by
  cases k <;> simp [Interp.init, memOf]

/-- every other register is 0 -/
theorem C09_other_regs_zero (k : Kind) (mem mbuff stack : Region) (extra : List Region) (fixedBase : Nat)
    (fixedBuf : Bytes) (d e : Nat) (i : Nat) (hi : i ≤ 9) (h1 : i ≠ 1) :
    (Interp.init (memOf k mem mbuff fixedBase fixedBuf d e stack extra)).reg[i]? = some 0 := by
  have h10 : 10 ≠ i := by omega
  have h1' : 1 ≠ i := by omega
  have hlt : i < 11 := by omega
  simp only [Interp.init]
  rw [Vector.getElem?_setIfInBounds_ne h10, Vector.getElem?_setIfInBounds_ne h1']
  simp [hlt]

/-- absolute / indirect packet loads address the packet data: the `mem` region of the memory every kind
    builds is the caller's packet, and the empty region at the null address when there is none -/
theorem C09_packet_region (k : Kind) (mem mbuff stack : Region) (extra : List Region) (fixedBase : Nat)
    (fixedBuf : Bytes) (d e : Nat) :
    (memOf k mem mbuff fixedBase fixedBuf d e stack extra).mem = (if k = .noData then ⟨0, #[]⟩ else pktRegion mem) ∧
    (memOf k mem mbuff fixedBase fixedBuf d e stack extra).stack = stack := by
  cases k <;> simp [memOf]

-- non-vacuity ---------------------------------------------------------------------------------------

namespace C09Ex
def zeros16 : Bytes := #[0, 0, 0, 0, 0, 0, 0, 0, 0, 0, 0, 0, 0, 0, 0, 0]
def zeros24 : Bytes := #[0, 0, 0, 0, 0, 0, 0, 0, 0, 0, 0, 0, 0, 0, 0, 0, 0, 0, 0, 0, 0, 0, 0, 0]
def pkt : Region := ⟨0x7f0000001000, #[1, 2, 3, 4]⟩
def mdat : Region := ⟨0x7f0000002000, #[0, 0, 0, 0, 0, 0, 0, 0]⟩
def empty : Region := ⟨1, #[]⟩
def stk : Region := ⟨0x7ffe00000000, Array.replicate 512 0⟩
end C09Ex

open C09Ex in
/-- adjacent offsets, either order; far-apart offsets; the hypotheses of `C09_fixed_slots` hold and the slots read back -/
example :
    fixedBufLen 0 8 ≤ zeros16.size ∧ fixedBufLen 8 0 ≤ zeros16.size ∧ fixedBufLen 0 16 ≤ zeros24.size ∧
    readU64 (fixedPrepare zeros16 0 8 0x7f0000001000 64) 0 = 0x7f0000001000 ∧
    readU64 (fixedPrepare zeros16 0 8 0x7f0000001000 64) 8 = 0x7f0000001040 ∧
    readU64 (fixedPrepare zeros16 8 0 0x7f0000001000 64) 8 = 0x7f0000001000 ∧
    readU64 (fixedPrepare zeros16 8 0 0x7f0000001000 64) 0 = 0x7f0000001040 ∧
    readU64 (fixedPrepare zeros24 0 16 0x7f0000001000 64) 0 = 0x7f0000001000 ∧
    readU64 (fixedPrepare zeros24 0 16 0x7f0000001000 64) 16 = 0x7f0000001040 ∧
    (fixedPrepare zeros24 0 16 0x7f0000001000 64).getD 8 0 = 0 := by decide
open C09Ex in
/-- empty packet (dangling address 1, length 0): both slots hold the same address -/
example : readU64 (fixedPrepare zeros16 0 8 1 0) 0 = 1 ∧ readU64 (fixedPrepare zeros16 0 8 1 0) 8 = 1 := by decide
open C09Ex in
/-- largest representable end address; one more wraps to 0 (so `memBase + memLen < 2^64` is needed) -/
example : (18446744073709551611 + 4 < 2 ^ 64) ∧
    readU64 (fixedPrepare zeros16 0 8 18446744073709551611 4) 8 = 18446744073709551615 ∧
    ¬ (18446744073709551612 + 4 < 2 ^ 64) ∧
    readU64 (fixedPrepare zeros16 0 8 18446744073709551612 4) 8 = 0 := by decide
set_option maxRecDepth 10000 in
open C09Ex in
/-- successive executions: the second packet's addresses replace the first's -/
example : readU64 (fixedPrepare (fixedPrepare zeros16 0 8 0x7f0000001000 64) 0 8 0x1000 4) 0 = 0x1000 ∧
    readU64 (fixedPrepare (fixedPrepare zeros16 0 8 0x7f0000001000 64) 0 8 0x1000 4) 8 = 0x1004 := by decide
open C09Ex in
/-- overlapping offsets (0 and 4): the start slot is clobbered by the end write -/
example : readU64 (fixedPrepare zeros16 0 4 1 0) 0 = 0x100000001 := by decide
set_option maxRecDepth 10000 in
open C09Ex in
/-- r1 / r10 / r2 for each kind on concrete regions -/
example :
    (Interp.init (memOf .mbuff pkt mdat 0x5000 zeros16 0 8 stk [])).reg[1]? = some 0x7f0000002000#64 ∧
    (Interp.init (memOf .mbuff pkt empty 0x5000 zeros16 0 8 stk [])).reg[1]? = some 0x7f0000001000#64 ∧
    (Interp.init (memOf .mbuff empty empty 0x5000 zeros16 0 8 stk [])).reg[1]? = some 0#64 ∧
    (Interp.init (memOf .fixed pkt empty 0x5000 zeros16 0 8 stk [])).reg[1]? = some 0x5000#64 ∧
    (Interp.init (memOf .fixed empty empty 0x5000 zeros16 0 8 stk [])).reg[1]? = some 0x5000#64 ∧
    (Interp.init (memOf .raw pkt mdat 0x5000 zeros16 0 8 stk [])).reg[1]? = some 0x7f0000001000#64 ∧
    (Interp.init (memOf .raw empty mdat 0x5000 zeros16 0 8 stk [])).reg[1]? = some 0#64 ∧
    (Interp.init (memOf .noData pkt mdat 0x5000 zeros16 0 8 stk [])).reg[1]? = some 0#64 ∧
    (Interp.init (memOf .raw pkt mdat 0x5000 zeros16 0 8 stk [])).reg[10]? = some 0x7ffe00000200#64 ∧
    (Interp.init (memOf .raw pkt mdat 0x5000 zeros16 0 8 stk [])).reg[2]? = some 0#64 := by
  have hs : zeros16.size = fixedBufLen 0 8 := by decide
  refine ⟨?_, ?_, ?_, ?_, ?_, ?_, ?_, ?_, ?_, ?_⟩
  · exact C09_r1 .mbuff pkt mdat stk [] 0x5000 zeros16 0 8 hs
  · exact C09_r1 .mbuff pkt empty stk [] 0x5000 zeros16 0 8 hs
  · exact C09_r1 .mbuff empty empty stk [] 0x5000 zeros16 0 8 hs
  · exact C09_r1 .fixed pkt empty stk [] 0x5000 zeros16 0 8 hs
  · exact C09_r1 .fixed empty empty stk [] 0x5000 zeros16 0 8 hs
  · exact C09_r1 .raw pkt mdat stk [] 0x5000 zeros16 0 8 hs
  · exact C09_r1 .raw empty mdat stk [] 0x5000 zeros16 0 8 hs
  · exact C09_r1 .noData pkt mdat stk [] 0x5000 zeros16 0 8 hs
  · exact C09_r10 .raw pkt mdat stk [] 0x5000 zeros16 0 8
  · exact C09_other_regs_zero .raw pkt mdat stk [] 0x5000 zeros16 0 8 2 (by omega) (by omega)

end Rbpf
