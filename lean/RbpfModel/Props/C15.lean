/-
  C15 — disassembly reports every instruction's true fields and never panics on its domain.  Only
  property theorems and their non-vacuity examples live here.
-/
import RbpfModel.Model.Disasm
import RbpfModel.Model.RtSpec
import RbpfModel.Model.AsmSpec
import RbpfModel.Lemmas.TextLemmas
namespace Rbpf
open TextL

/-- never a panic on whole instructions with supported opcodes, wide loads followed by their second
    half, call kinds 0/1 (including offset -32768 and extreme immediates: no side condition on the
    fields) -/
theorem C15_total (p : Bytes) (h : RtSpec.DisasmOk p) : ∃ es, Disasm.toInsnVec p = some es :=
  (toInsnVec_isSome_iff p).2 h

/-- and the domain is exact: outside it the disassembler panics -/
theorem C15_domain_exact (p : Bytes) : (∃ es, Disasm.toInsnVec p = some es) ↔ RtSpec.DisasmOk p :=
  toInsnVec_isSome_iff p

/-- one entry per instruction (the two halves of a wide load merged), in order, with the encoded fields -/
theorem C15_entries (p : Bytes) (es : List Disasm.HLInsn) (h : Disasm.toInsnVec p = some es) :
    es.length = (starts p).length ∧
    ∀ k (hk : k < es.length) (hk' : k < (starts p).length),
      ∃ x, getInsn? p ((starts p)[k]) = some x ∧
        es[k].opc = x.opc ∧ es[k].dst = x.dst ∧ es[k].src = x.src ∧ es[k].off = x.off ∧
        (x.opc ≠ 0x18 → es[k].imm = x.imm.signExtend 64) ∧
        (x.opc = 0x18 → ∃ y, getInsn? p ((starts p)[k] + 1) = some y ∧ es[k].imm = (y.imm ++ x.imm : BitVec 64)) := by
  obtain ⟨hl, hk⟩ := toInsnVec_entries h
  refine ⟨hl, fun k hk1 hk2 => ?_⟩
  obtain ⟨x, hx, h1, h2, h3, h4, h5, h6, -⟩ := hk k hk1 hk2
  exact ⟨x, hx, h1, h2, h3, h4, h5, h6⟩

/-- the arm table: each name is the documented mnemonic of its opcode — a row of `AsmSpec.table`
    carrying that opcode (immediate form; the register form of an ALU operation or conditional jump has
    bit 3 set); the byte swaps are "le"/"be" (the width is printed from the immediate), atomic adds are
    "stxxaddw"/"stxxadddw", the tail call "tail_call" -/
theorem C15_arm_names (o : Nat) (name : String) (r : String → Insn → String)
    (h : Disasm.arm o = some (name, r)) :
    (name = "stxxaddw" ∧ o = 0xc3) ∨ (name = "stxxadddw" ∧ o = 0xdb) ∨ (name = "tail_call" ∧ o = 0x8d) ∨
    (name = "le" ∧ o = 0xd4) ∨ (name = "be" ∧ o = 0xdc) ∨
    ∃ sh opc, (name, sh, opc) ∈ AsmSpec.table ∧ (o = opc ∨ (o = opc + 8 ∧ (sh = .aluBin ∨ sh = .jcc))) :=
  arm_nameOk h

/-- each entry's name is the documented mnemonic of its opcode (wide loads "lddw", calls "call"/"callx"
    included) -/
theorem C15_names (p : Bytes) (es : List Disasm.HLInsn) (h : Disasm.toInsnVec p = some es)
    (k : Nat) (hk : k < es.length) :
    let name := es[k].name
    let o := es[k].opc.toNat
    (name = "stxxaddw" ∧ o = 0xc3) ∨ (name = "stxxadddw" ∧ o = 0xdb) ∨ (name = "tail_call" ∧ o = 0x8d) ∨
    (name = "le" ∧ o = 0xd4) ∨ (name = "be" ∧ o = 0xdc) ∨
    ∃ sh opc, (name, sh, opc) ∈ AsmSpec.table ∧ (o = opc ∨ (o = opc + 8 ∧ (sh = .aluBin ∨ sh = .jcc))) := by
  obtain ⟨hl, hks⟩ := toInsnVec_entries h
  obtain ⟨x, -, h1, -, -, -, -, -, hn⟩ := hks k hk (hl ▸ hk)
  rw [← h1] at hn
  exact hn

-- non-vacuity ------------------------------------------------------------------------------------------

-- `mov64 r1, -1; lddw r2, 0x8000000000000001; ja -32768; call 0x7fffffff; callx 0x80000000;
--  stxxadddw [r10-32768], r1; tail_call; exit` is in the domain …
example : RtSpec.DisasmOk (#[0xb7,1,0,0,0xff,0xff,0xff,0xff, 0x18,2,0,0,1,0,0,0, 0,0,0,0,0,0,0,0x80, 0x05,0,0x00,0x80,0,0,0,0,
    0x85,0,0,0,0xff,0xff,0xff,0x7f, 0x85,0x10,0,0,0,0,0,0x80, 0xdb,0x1a,0x00,0x80,0,0,0,0,
    0x8d,0,0,0,0,0,0,0, 0x95,0,0,0,0,0,0,0] : Bytes) := by decide +kernel
-- … and is reported with these names, merged immediates and texts
example : (Disasm.toInsnVec (#[0xb7,1,0,0,0xff,0xff,0xff,0xff, 0x18,2,0,0,1,0,0,0, 0,0,0,0,0,0,0,0x80, 0x05,0,0x00,0x80,0,0,0,0,
    0x85,0,0,0,0xff,0xff,0xff,0x7f, 0x85,0x10,0,0,0,0,0,0x80, 0xdb,0x1a,0x00,0x80,0,0,0,0,
    0x8d,0,0,0,0,0,0,0, 0x95,0,0,0,0,0,0,0] : Bytes)).map (·.map fun e => (e.name, e.imm, e.desc)) = some [
    ("mov64", 0xffffffffffffffff#64, "mov64 r1, 0xffffffff"),
    ("lddw", 0x8000000000000001#64, "lddw r2, 0x8000000000000001"),
    ("ja", 0#64, "ja -0x8000"),
    ("call", 0x7fffffff#64, "call 0x7fffffff"),
    ("callx", 0xffffffff80000000#64, "callx 0x80000000"),
    ("stxxadddw", 0#64, "stxxadddw [r10-0x8000], r1"),
    ("tail_call", 0#64, "tail_call"),
    ("exit", 0#64, "exit")] := by decide +kernel
-- outside the domain: a trailing partial slot, an unknown opcode, a wide load without its second half, a
-- call of kind 2, and the opcode-0 second half read as an instruction
example : ¬ RtSpec.DisasmOk (#[0x95,0,0,0,0,0,0,0, 0x95] : Bytes) := by decide +kernel
example : Disasm.toInsnVec (#[0x95,0,0,0,0,0,0,0, 0x95] : Bytes) = none := by decide +kernel
example : ¬ RtSpec.DisasmOk (#[0x06,0,0,0,0,0,0,0] : Bytes) := by decide +kernel
example : Disasm.toInsnVec (#[0x06,0,0,0,0,0,0,0] : Bytes) = none := by decide +kernel
example : ¬ RtSpec.DisasmOk (#[0x18,0,0,0,0,0,0,0] : Bytes) := by decide +kernel
example : Disasm.toInsnVec (#[0x18,0,0,0,0,0,0,0] : Bytes) = none := by decide +kernel
example : ¬ RtSpec.DisasmOk (#[0x85,0x20,0,0,0,0,0,0] : Bytes) := by decide +kernel
example : Disasm.toInsnVec (#[0x85,0x20,0,0,0,0,0,0] : Bytes) = none := by decide +kernel
example : Disasm.toInsnVec (#[] : Bytes) = some [] := by decide +kernel
-- the names theorem has content: the table statement is about 150 populated arms
example : ∃ r, Disasm.arm 0xbf = some ("mov64", r) := ⟨_, rfl⟩
example : ("mov64", AsmSpec.Shape.aluBin, 0xb7) ∈ AsmSpec.table := by decide +kernel

end Rbpf
