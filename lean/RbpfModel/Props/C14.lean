/-
  C14 — the assembler is total: every text yields `Ok` or `Err`, never a panic.  Only property
  theorems and their non-vacuity examples live here.
-/
import RbpfModel.Model.Asm
import RbpfModel.Lemmas.TextLemmas
namespace Rbpf
open TextL

/-- the parser never panics -/
theorem C14_parse_total (cc : Asm.CharClass) (s : List Char) : Asm.parse cc s ≠ .panic :=
  (parse_spec cc s).1

/-- the assembler never panics -/
theorem C14_total (cc : Asm.CharClass) (s : List Char) : Asm.assemble cc s ≠ .panic :=
  assemble_ne_panic cc s

/-- the ASCII instance of the two Unicode-aware character classes -/
def C14.ascii : Asm.CharClass :=
  { isWs := fun c => c = ' ' || c = '\n' || c = '\t', isAlnum := Char.isAlphanum, isAlpha := Char.isAlpha }

open C14 in
section
-- non-vacuity: the inputs that used to panic are now refused with an error value …
example : Asm.assemble ascii "mov r1, 0x10000000000000000".toList = .err := by decide +kernel
example : Asm.assemble ascii "mov r1, 18446744073709551616".toList = .err := by decide +kernel
example : Asm.assemble ascii "mov r1, -0x8000000000000000".toList = .err := by decide +kernel
example : Asm.assemble ascii "mov r1, -9223372036854775809".toList = .err := by decide +kernel
example : Asm.assemble ascii "add r99999999999999999999, 1".toList = .err := by decide +kernel
example : Asm.assemble ascii "lddw r1, 9223372036854775808".toList = .err := by decide +kernel
-- … or accepted with the value the text denotes
example : Asm.assemble ascii "lddw r1, -9223372036854775808".toList =
    .ok [0x18,1,0,0,0,0,0,0, 0,0,0,0,0,0,0,0x80] := by decide +kernel
example : Asm.assemble ascii "lddw r1, -0x8000000000000000".toList =
    .ok [0x18,1,0,0,0,0,0,0, 0,0,0,0,0,0,0,0x80] := by decide +kernel
example : Asm.assemble ascii "lddw r1, 0xffffffffffffffff".toList =
    .ok [0x18,1,0,0,0xff,0xff,0xff,0xff, 0,0,0,0,0xff,0xff,0xff,0xff] := by decide +kernel
-- and ordinary programs assemble, ordinary mistakes are errors
example : Asm.assemble ascii "mov r0, 7\nexit".toList =
    .ok [0xb7,0,0,0,7,0,0,0, 0x95,0,0,0,0,0,0,0] := by decide +kernel
example : Asm.assemble ascii "mov r0,".toList = .err := by decide +kernel
example : Asm.assemble ascii "frob r0".toList = .err := by decide +kernel
example : Asm.parse ascii "ldxw r1, [r2".toList = .err := by decide +kernel
example : Asm.parse ascii "exit".toList = .ok [{ name := "exit".toList, operands := [] }] := by decide +kernel
end

end Rbpf
