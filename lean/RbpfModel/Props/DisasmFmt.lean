/- The disassembler's ten operand renderers as translated from src/disassembler.rs on every run (Generated/DisasmFmt.lean: format strings split
   into pieces, placeholders typed by their arguments) are the model's renderers (`Disasm.aluImm` …, what C15/C16's theorems are about). -/
import RbpfModel.Generated.DisasmFmt
namespace Rbpf
open Rbpf.Disasm Rbpf.Generated.DisasmFmt

theorem DisasmFmt_translated : aluImmSrcOk = true ∧ aluRegSrcOk = true ∧ byteswapSrcOk = true ∧ ldStImmSrcOk = true ∧ ldRegSrcOk = true ∧
    stRegSrcOk = true ∧ ldabsSrcOk = true ∧ ldindSrcOk = true ∧ jmpImmSrcOk = true ∧ jmpRegSrcOk = true ∧
    jaSrcOk = true ∧ callArmSrcOk = true ∧ lddwSrcOk = true := by decide

private theorem ts (s : String) : toString s = s := rfl
/-- `-(off as isize)` printed with `{:#x}`: for a negative `i16` the magnitude, no wrap-around -/
private theorem negOff (off : BitVec 16) : (-(off.toInt)) % 2 ^ 64 = -(off.toInt) ∨ off.toInt ≥ 0 := by
  have := BitVec.toInt_lt (x := off); have := BitVec.le_toInt (x := off); omega

macro "fmt_eq" i:term : tactic => `(tactic| (
  simp only [aluImmSrc, aluRegSrc, byteswapSrc, ldStImmSrc, ldRegSrc, stRegSrc, ldabsSrc, ldindSrc, jmpImmSrc, jmpRegSrc,
    aluImm, aluReg, byteswap, ldStImm, ldReg, stReg, ldabs, ldind, jmpImm, jmpReg, offSigned, reg, immHex, String.join, ts, List.foldl, ge_iff_le]
  by_cases h : 0 ≤ (Insn.off $i).toInt
  · (try simp only [h, ↓reduceIte])
    apply String.toList_inj.mp; simp [String.toList_append]
  · have h2 := (negOff (Insn.off $i)).resolve_right h
    (try simp only [h, ↓reduceIte, h2])
    apply String.toList_inj.mp; simp [String.toList_append]))

theorem DisasmFmt_aluImm (n : String) (i : Insn) : aluImmSrc n i = aluImm n i := by fmt_eq i
theorem DisasmFmt_aluReg (n : String) (i : Insn) : aluRegSrc n i = aluReg n i := by fmt_eq i
theorem DisasmFmt_byteswap (n : String) (i : Insn) : byteswapSrc n i = byteswap n i := by fmt_eq i
theorem DisasmFmt_ldStImm (n : String) (i : Insn) : ldStImmSrc n i = ldStImm n i := by fmt_eq i
theorem DisasmFmt_ldReg (n : String) (i : Insn) : ldRegSrc n i = ldReg n i := by fmt_eq i
theorem DisasmFmt_stReg (n : String) (i : Insn) : stRegSrc n i = stReg n i := by fmt_eq i
theorem DisasmFmt_ldabs (n : String) (i : Insn) : ldabsSrc n i = ldabs n i := by fmt_eq i
theorem DisasmFmt_ldind (n : String) (i : Insn) : ldindSrc n i = ldind n i := by fmt_eq i
theorem DisasmFmt_jmpImm (n : String) (i : Insn) : jmpImmSrc n i = jmpImm n i := by fmt_eq i
theorem DisasmFmt_jmpReg (n : String) (i : Insn) : jmpRegSrc n i = jmpReg n i := by fmt_eq i


/-- the `JA` arm: the model's row for opcode 0x05 has the source's name and description -/
theorem DisasmFmt_ja (n : String) (i : Insn) :
    match Disasm.arm 0x05 with
    | some (nm, r) => nm = jaNameSrc ∧ r n i = jaDescSrc n i
    | none => False := by
  simp only [Disasm.arm, jaNameSrc, true_and]
  simp only [jaDescSrc, offSigned, String.join, ts, List.foldl, ge_iff_le]
  by_cases h : 0 ≤ i.off.toInt
  · simp only [h, ↓reduceIte]
    apply String.toList_inj.mp; simp [String.toList_append]
  · have h2 := (negOff i.off).resolve_right h
    simp only [h, ↓reduceIte, h2]
    apply String.toList_inj.mp; simp [String.toList_append]

/-- the `CALL` arm: name and description by `insn.src`, `panic!` otherwise, immediate sign-extended -/
theorem DisasmFmt_call (p : Bytes) (pc : Nat) (i : Insn) (h : getInsn? p pc = some i) (ho : i.opc = 0x85) :
    entryAt p pc = (callArmSrc i).map fun (nd : String × String) =>
      ({ opc := i.opc, name := nd.1, desc := nd.2, dst := i.dst, src := i.src, off := i.off, imm := i.imm.signExtend 64 }, 1) := by
  have hs : ∀ n : String, callStr n i = String.join [n, " ", fmtHex i.imm.toNat] := by
    intro n; simp only [callStr, immHex, String.join, ts, List.foldl]
    apply String.toList_inj.mp; simp [String.toList_append]
  unfold entryAt callArmSrc
  simp only [h, ho]
  by_cases h0 : i.src = 0
  · simp [h0, hs]
  · by_cases h1 : i.src = 1
    · simp [h1, hs]
    · have : i.src.toNat ≠ 0 := by intro hh; apply h0; apply BitVec.eq_of_toNat_eq; simpa using hh
      have : i.src.toNat ≠ 1 := by intro hh; apply h1; apply BitVec.eq_of_toNat_eq; simpa using hh
      simp
      split <;> simp_all

/-- the `LD_DW_IMM` arm: two slots, the merged immediate, the description -/
theorem DisasmFmt_lddw (p : Bytes) (pc : Nat) (i : Insn) (h : getInsn? p pc = some i) (ho : i.opc = 0x18) :
    entryAt p pc = match getInsn? p (pc + 1) with
      | none => none
      | some nx => some ({ opc := i.opc, name := lddwNameSrc, desc := lddwDescSrc lddwNameSrc i (lddwImmSrc i.imm nx.imm),
                           dst := i.dst, src := i.src, off := i.off, imm := lddwImmSrc i.imm nx.imm }, 2) := by
  unfold entryAt
  simp only [h, ho]
  cases hn : getInsn? p (pc + 1) with
  | none => simp
  | some nx =>
    simp only [lddwNameSrc, lddwDescSrc, lddwImmSrc, reg, String.join, ts, List.foldl]
    simp
    apply String.toList_inj.mp; simp [String.toList_append]

/-- `to_insn_vec` around its match (length test, empty program, loop test, fetch, default immediate, the `HLInsn` pushed, the step, the panic on an unknown opcode) has
    the shape the model's `toInsnVec` / `loop` / `entryAt` mirror (recognised as a whole by the translator: any other text makes a flag false) -/
theorem DisasmFmt_loop_shape : toInsnVecHead = true ∧ toInsnVecTail = true ∧ toInsnVecDefault = true := by decide

end Rbpf
