/-
  C04 — Cranelift-compiled code computes the same result as the interpreter (on the model
  `EngineSem.clif*` of what `cranelift.rs` generates).  Only property theorems and their non-vacuity examples
  live here; definitions and helper lemmas are in `Lemmas/EngineLemmas.lean`.

  Hypotheses, as for C03: no eBPF-to-eBPF call (Cranelift refuses such programs at compile time:
  `C04_local_call_refused`), no F7 instruction, the interpreter does not refuse a misaligned atomic add
  (`hna`; generated code performs it) — and no registered ranges (`hal`): compiled code checks accesses
  against stack, packet and metadata buffer only (C11).
-/
import RbpfModel.Model.EngineSem
import RbpfModel.Lemmas.EngineLemmas
namespace Rbpf

/-- one instruction: the generated code's step and the interpreter's step are related, from related states -/
theorem C04_step (env : Env) (a b : State) (hl : NoLocalCall env.prog) (h7 : NoF7 env.prog)
    (hal : env.allowed = []) (hab : SameButUsage a b) (hd : b.frames = [])
    (hna : ∀ b', Interp.step env b ≠ .err .unaligned b') :
    OutcomeRel (EngineSem.clifStep env a) (Interp.step env b) := by
  rcases clifStep_rel env a b hl h7 hal hab hd with h | ⟨s', h⟩
  · exact h
  · exact absurd h (hna s')

/-- whole runs, any length: same return value, same packet / metadata / stack bytes, same helper log, same
    errors — on every run the interpreter does not end by refusing a misaligned atomic add -/
theorem C04_run (env : Env) (m : Memory) (fuel : Nat) (hl : NoLocalCall env.prog) (h7 : NoF7 env.prog)
    (hal : env.allowed = []) (hna : ∀ s', Interp.run env (Interp.init m) fuel ≠ .err .unaligned s') :
    ResultRel (EngineSem.clifRun env (Interp.init m) fuel) (Interp.run env (Interp.init m) fuel) := by
  rcases clifRun_rel env hl h7 hal fuel _ _ (SameButUsage.refl (Interp.init m)) rfl with h | ⟨s', h⟩
  · exact h
  · exact absurd h (hna s')

/-- the same without the alignment hypothesis: the results are related, or the interpreter ended by refusing a
    misaligned atomic add -/
theorem C04_run_or (env : Env) (m : Memory) (fuel : Nat) (hl : NoLocalCall env.prog) (h7 : NoF7 env.prog)
    (hal : env.allowed = []) :
    ResultRel (EngineSem.clifRun env (Interp.init m) fuel) (Interp.run env (Interp.init m) fuel) ∨
    ∃ s', Interp.run env (Interp.init m) fuel = .err .unaligned s' :=
  clifRun_rel env hl h7 hal fuel _ _ (SameButUsage.refl (Interp.init m)) rfl

/-- a program that contains an eBPF-to-eBPF call is refused by Cranelift compilation — whatever helpers are
    registered (in particular one whose id equals the displacement) -/
theorem C04_local_call_refused (env : Env) (h : ∃ e ∈ EngineSem.insns env.prog, e.2.opc = 0x85 ∧ e.2.src = 1) :
    EngineSem.clifCompile env = .err := by
  obtain ⟨e, he, hop, h1⟩ := h
  refine compile_ne_ok (clifCompile_cases env) fun hok => ?_
  have h0 := ((clifCompile_ok_iff env).1 hok e he hop).1
  rw [h1] at h0
  revert h0; decide

/-- known finding F7 shows in Cranelift-generated code as well: on `jeq r1, -1, +5` with
    r1 = 0xffff_ffff_ffff_ffff the generated code branches, the interpreter does not -/
theorem C04_f7_witness : ∃ (env : Env) (s : State) (insn : Insn),
    EngineSem.clifExec env s insn ≠ Interp.exec env s insn :=
  ⟨demoEnv, f7State, ⟨0x15, 1, 0, 5, -1⟩, fun h => absurd (congrArg Outcome.pc? h) (by decide +kernel)⟩

set_option maxRecDepth 8192 in
/-- the atomic add: `xaddw [r10-6], r1` (inside the stack, misaligned) is performed by generated code and
    refused by the interpreter -/
theorem C04_unaligned_witness : ∃ (env : Env) (s s' : State) (insn : Insn),
    EngineSem.clifExec env s insn = .next s' ∧ Interp.exec env s insn = .err .unaligned s :=
  ⟨Ex.env, Ex.state, _, ⟨0xc3, 10, 1, 0xfffa, 0⟩, rfl, rfl⟩

set_option maxRecDepth 8192 in
/-- why `hal` is needed: with a registered range [0x2000, 0x4000) the interpreter admits `ldxw r0, [r1+5]`
    (one byte past the packet), compiled code traps -/
theorem C04_allowed_witness : ∃ (env : Env) (s : State) (insn : Insn),
    EngineSem.clifExec env s insn = .err .oob s ∧ Interp.exec env s insn = .fault ∧ env.allowed ≠ [] :=
  ⟨{ Ex.env with allowed := [(0x2000, 0x4000)] }, Ex.state, ⟨0x61, 0, 1, 5, 0⟩, rfl, rfl, by decide⟩

/-! ### non-vacuity (`ExEng.prog`: `mov r0,7; jeq r0,7,+1; mov r0,0; exit`) -/

-- the hypotheses of `C04_run` hold of it, and both sides return 7 after 3 steps
example : ∃ s1 s2, NoLocalCall ExEng.env.prog ∧ NoF7 ExEng.env.prog ∧ ExEng.env.allowed = [] ∧
    EngineSem.clifCompile ExEng.env = .ok ∧
    EngineSem.clifRun ExEng.env (Interp.init Ex.mem) 3 = .done 7 s1 ∧
    Interp.run ExEng.env (Interp.init Ex.mem) 3 = .done 7 s2 :=
  ⟨_, _, ExEng.noLocalCall, ExEng.noF7, rfl, by decide +kernel, rfl, rfl⟩
example : ResultRel (EngineSem.clifRun ExEng.env (Interp.init Ex.mem) 3) (Interp.run ExEng.env (Interp.init Ex.mem) 3) :=
  C04_run ExEng.env Ex.mem 3 ExEng.noLocalCall ExEng.noF7 rfl (fun s' h => by
    have h' : Interp.Result.done 7 _ = .err .unaligned s' := h
    cases h')
example : OutcomeRel (EngineSem.clifStep ExEng.env (Interp.init Ex.mem)) (Interp.step ExEng.env (Interp.init Ex.mem)) :=
  C04_step ExEng.env _ _ ExEng.noLocalCall ExEng.noF7 rfl (SameButUsage.refl _) rfl (fun b' h => by
    have h' : Outcome.next _ = .err .unaligned b' := h
    cases h')
-- `Ex7.prog` has a local call at pc 1 (`call +1`): refused — also with a helper registered under id 1
example : EngineSem.clifCompile { Ex7.env with helpers := fun n => if n = 1 then some (fun a _ _ _ _ => a) else none } = .err :=
  C04_local_call_refused _ ⟨(1, ⟨0x85, 0, 1, 0, 1⟩), by decide +kernel, rfl, rfl⟩

end Rbpf
