/-
  C06 — the default verifier accepts exactly the well-formed programs, and refuses the others with an
  error value.  Only property theorems and their non-vacuity examples live here.
-/
import RbpfModel.Model.Verifier
import RbpfModel.Model.WellFormed
import RbpfModel.Lemmas.VerifierLemmas
namespace Rbpf

/-- the default verifier accepts exactly the well-formed programs -/
theorem C06_check_iff (p : Bytes) : Verifier.check p = .ok ↔ WellFormed p :=
  ⟨wellFormed_of_check_ok, check_ok_of_wellFormed⟩

/-- a refusal is an error value, never a panic -/
theorem C06_check_total (p : Bytes) : Verifier.check p ≠ .panic :=
  check_ne_panic p

/-- the refusal side stated outright: the verifier returns its error value exactly on the byte strings
    that are NOT well-formed (`C06_check_iff` with `C06_check_total`: there is no third outcome) -/
theorem C06_refuse_iff (p : Bytes) : Verifier.check p = .err ↔ ¬ WellFormed p := by
  rw [← C06_check_iff]
  have h := C06_check_total p
  cases hc : Verifier.check p <;> simp_all

/-- every byte string is decided: accepted or refused with an error, and the two exclude each other -/
theorem C06_decides (p : Bytes) :
    (Verifier.check p = .ok ∧ WellFormed p) ∨ (Verifier.check p = .err ∧ ¬ WellFormed p) := by
  by_cases h : WellFormed p
  · exact .inl ⟨(C06_check_iff p).mpr h, h⟩
  · exact .inr ⟨(C06_refuse_iff p).mpr h, h⟩

/-- what acceptance guarantees about the length: a whole, positive number of 8-byte slots, at most
    1,000,000 of them (the bound `check_prog_len` enforces; other engines' size proofs start here) -/
theorem C06_accepted_size (p : Bytes) (h : Verifier.check p = .ok) :
    p.size % 8 = 0 ∧ 0 < p.size ∧ p.size ≤ 8 * 1000000 := by
  have w := (C06_check_iff p).mp h
  exact ⟨w.1, w.2.1, w.2.2.1⟩

-- non-vacuity: `mov r0, 0; exit` is well-formed (and accepted), a lone `mov` is not (and refused)
example : WellFormed (#[0xb7,0,0,0,0,0,0,0, 0x95,0,0,0,0,0,0,0] : Bytes) := by decide +kernel
example : ¬ WellFormed (#[0xb7,0,0,0,0,0,0,0] : Bytes) := by decide +kernel
example : Verifier.check (#[0xb7,0,0,0,0,0,0,0, 0x95,0,0,0,0,0,0,0] : Bytes) = .ok := by
  rw [C06_check_iff]; decide +kernel
example : Verifier.check (#[0xb7,0,0,0,0,0,0,0] : Bytes) = .err := by decide
example : Verifier.check (#[0xb7,0,0,0,0,0,0,0] : Bytes) = .err := by
  rw [C06_refuse_iff]; decide +kernel
-- `lddw r1, 0; ja +0; exit` is well-formed; the same program with the jump aimed at the second half of
-- the wide load (`ja -2`) is not
example : WellFormed (#[0x18,1,0,0,0,0,0,0, 0,0,0,0,0,0,0,0, 0x05,0,0,0,0,0,0,0,
    0x95,0,0,0,0,0,0,0] : Bytes) := by decide +kernel
example : ¬ WellFormed (#[0x18,1,0,0,0,0,0,0, 0,0,0,0,0,0,0,0, 0x05,0,0xfe,0xff,0,0,0,0,
    0x95,0,0,0,0,0,0,0] : Bytes) := by decide +kernel

end Rbpf
