/-
  C06 — the default verifier accepts exactly the well-formed programs, and refuses the others with an
  error value.  Only property theorems and their non-vacuity examples live here.
-/
import RbpfModel.Model.Verifier
import RbpfModel.Model.WellFormed
import RbpfModel.Lemmas.VerifierLemmas
namespace Rbpf

/-- the default verifier accepts exactly the well-formed programs -/
theorem C06_check_iff (p : Bytes) : Verifier.check p = .ok ↔ WellFormed p :=
  ⟨wellFormed_of_check_ok, check_ok_of_wellFormed⟩

/-- a refusal is an error value, never a panic -/
theorem C06_check_total (p : Bytes) : Verifier.check p ≠ .panic :=
  check_ne_panic p

-- non-vacuity: `mov r0, 0; exit` is well-formed (and accepted), a lone `mov` is not (and refused)
example : WellFormed (#[0xb7,0,0,0,0,0,0,0, 0x95,0,0,0,0,0,0,0] : Bytes) := by decide +kernel
example : ¬ WellFormed (#[0xb7,0,0,0,0,0,0,0] : Bytes) := by decide +kernel
example : Verifier.check (#[0xb7,0,0,0,0,0,0,0, 0x95,0,0,0,0,0,0,0] : Bytes) = .ok := by
  rw [C06_check_iff]; decide +kernel
example : Verifier.check (#[0xb7,0,0,0,0,0,0,0] : Bytes) = .err := by decide
-- `lddw r1, 0; ja +0; exit` is well-formed; the same program with the jump aimed at the second half of
-- the wide load (`ja -2`) is not
example : WellFormed (#[0x18,1,0,0,0,0,0,0, 0,0,0,0,0,0,0,0, 0x05,0,0,0,0,0,0,0,
    0x95,0,0,0,0,0,0,0] : Bytes) := by decide +kernel
example : ¬ WellFormed (#[0x18,1,0,0,0,0,0,0, 0,0,0,0,0,0,0,0, 0x05,0,0xfe,0xff,0,0,0,0,
    0x95,0,0,0,0,0,0,0] : Bytes) := by decide +kernel

end Rbpf
