/-
  The pure core of the interpreter, translated from the source: `Generated/InterpArms.lean` is produced on every run by
  `checklib/gen_interp.py` from the arms of `match insn.opc` in `src/interpreter.rs` (ALU, ALU64, byte swaps, JMP, JMP32: 97 opcodes;
  Rust expressions parsed with Rust's precedence, typed, and emitted as `BitVec` terms).  The theorems below say that the
  hand-written model `Interp.exec` — the one every C01/C05/… theorem is about — does exactly what the translated arms do, for every
  opcode of those classes and ALL register and immediate values.  For this slice the tie between model and code is therefore a proof
  about the translation of the current source, not a comparison of runs.
-/
import RbpfModel.Generated.InterpArms
import RbpfModel.Model.Interp
import RbpfModel.Lemmas.InterpArmsAux
namespace Rbpf
open Rbpf.Generated

/-- ALU / ALU64 / byte-swap arms: the model writes what the translated arm computes, leaves the state alone where the arm does
    nothing (`mod` by zero), and panics where the arm hits `unreachable!()` (a byte-swap width other than 16/32/64) -/
theorem InterpArms_alu (env : Env) (s : State) (i : Insn) (h : i.opc.toNat ∈ aluOpcodes)
    (hd : i.dst.toNat < 11) (hs : i.src.toNat < 11) :
    Interp.exec env s i =
      (match aluArm i.opc.toNat (s.reg[i.dst.toNat]'hd) (s.reg[i.src.toNat]'hs) i.imm with
       | some (some v) => Interp.wr s i.dst.toNat v
       | some none => .next s
       | none => .panic) := by
  obtain ⟨opc, dst, src, off, imm⟩ := i
  exact InterpArmsAux.ia_alu_all h hd hs

/-- JMP / JMP32 arms: the model branches exactly when the translated condition holds -/
theorem InterpArms_jmp (env : Env) (s : State) (i : Insn) (h : i.opc.toNat ∈ jmpOpcodes)
    (hd : i.dst.toNat < 11) (hs : i.src.toNat < 11) :
    Interp.exec env s i =
      (match jmpArm i.opc.toNat (s.reg[i.dst.toNat]'hd) (s.reg[i.src.toNat]'hs) i.imm with
       | some c => Interp.branch s i.off c
       | none => .panic) := by
  obtain ⟨opc, dst, src, off, imm⟩ := i
  exact InterpArmsAux.ia_jmp_all h hd hs

/-- the translator covered every arm of those classes -/
theorem InterpArms_complete : aluOpcodes.length = 52 ∧ jmpOpcodes.length = 45 := by decide

end Rbpf
