/-
  The helper functions of `src/verifier.rs` — `check_prog_len`, `check_imm_endian`, `check_load_dw`, `check_jmp_offset`,
  `check_registers` — translated from the source on every run (`checklib/gen_verifier.py` → `Generated/VerifierFns.lean`; integers as
  mathematical integers, `ebpf::get_insn(prog, k).opc` as the abstract `opcAt k`), against the functions of the verifier model
  (`Model/Verifier.lean`) that C06's theorems are about.  With `Consts_verifier_arms` (which arm does what, all 256 opcode bytes) this
  ties the per-instruction part of C06's model to the source by translation and proof; the loop around it (the store flag, the slot
  skipped after a wide load, the final length test) and the local-call arm remain tied by execution.
-/
import RbpfModel.Generated.VerifierFns
import RbpfModel.Model.Verifier
import RbpfModel.Lemmas.VerifierFnsAux
namespace Rbpf
open Rbpf.Generated Rbpf.VerifierFnsAux

def vresOf : V → Verifier.VRes | .ok => .ok | .err => .err | .panic => .panic

/-- the opcode of the instruction in slot `k`, as the source's `ebpf::get_insn(prog, k).opc` (`none`: out of range, a panic) -/
def opcAtOf (p : Bytes) (k : Nat) : Option Nat := (getInsn? p k).map (·.opc.toNat)

theorem VerifierFns_translated :
    checkProgLenSrcOk = true ∧ checkImmEndianSrcOk = true ∧ checkLoadDwSrcOk = true ∧ checkJmpOffsetSrcOk = true ∧
    checkRegistersSrcOk = true := by decide

theorem VerifierFns_progLen (p : Bytes) : Verifier.checkProgLen p = vresOf (checkProgLenSrc p.size (opcAtOf p)) := by
  unfold Verifier.checkProgLen checkProgLenSrc opcAtOf
  have e : Int.toNat (((p.size : Int) / 8) - 1) = p.size / 8 - 1 := by omega
  rw [e]
  by_cases h1 : p.size % 8 = 0
  · have h1' : (p.size : Int) % 8 = 0 := by omega
    by_cases h2 : p.size > 8 * 1000000
    · have h2' : (p.size : Int) > 8000000 := by omega
      simp [h1, h2, h1', h2', vresOf]
    · have h2' : ¬ (p.size : Int) > 8000000 := by omega
      by_cases h3 : p.size = 0
      · simp [h3, vresOf]
      · simp only [h1, h2, h1', h2', h3, ne_eq, not_true_eq_false, if_false, decide_true, decide_false, Bool.not_true,
          Bool.false_eq_true]
        cases hg : getInsn? p (p.size / 8 - 1) with
        | none => simp [vresOf]
        | some last =>
          simp only [Option.map_some]
          have a := opc_ne last.opc 0x95 (by decide)
          have b := opc_ne last.opc 0x05 (by decide)
          by_cases c1 : last.opc = 0x95 <;> by_cases c2 : last.opc = 0x05 <;> simp_all [vresOf]
  · have h1' : ¬ (p.size : Int) % 8 = 0 := by omega
    simp [h1, h1', vresOf]

theorem VerifierFns_loadDw (p : Bytes) (pc : Nat) : Verifier.checkLoadDw p pc = vresOf (checkLoadDwSrc (opcAtOf p) pc) := by
  unfold Verifier.checkLoadDw checkLoadDwSrc opcAtOf
  have e : Int.toNat ((pc : Int) + 1) = pc + 1 := by omega
  rw [e]
  cases hg : getInsn? p (pc + 1) with
  | none => simp [vresOf]
  | some next =>
    have a := opc_ne next.opc 0 (by decide)
    by_cases c : next.opc = 0 <;> simp_all [vresOf]

theorem VerifierFns_jmpOffset (p : Bytes) (pc : Nat) (insn : Insn) :
    Verifier.checkJmpOffset p pc insn = vresOf (checkJmpOffsetSrc p.size (opcAtOf p) pc insn.off.toInt) := by
  unfold Verifier.checkJmpOffset checkJmpOffsetSrc Verifier.checkTarget opcAtOf
  have e1 : insn.off = -1 ↔ insn.off.toInt = -1 := toInt_iff insn.off (-1) (-1) (by decide)
  by_cases h1 : insn.off = -1
  · simp [h1, vresOf]
  · have h1' : ¬ insn.off.toInt = -1 := fun h => h1 (e1.mpr h)
    simp only [h1, h1', if_false, decide_false, Bool.false_eq_true]
    generalize (pc : Int) + 1 + insn.off.toInt = t
    by_cases h2 : t < 0 ∨ t.toNat ≥ p.size / 8
    · have h2' : t < 0 ∨ t ≥ (p.size : Int) / 8 := by omega
      simp [h2, h2', vresOf]
    · have h2' : ¬ (t < 0 ∨ t ≥ (p.size : Int) / 8) := by omega
      have h2b : (decide (t < 0) || decide (t ≥ (p.size : Int) / 8)) = false := by simpa using h2'
      simp only [h2, if_false, h2b, Bool.false_eq_true]
      cases hg : getInsn? p t.toNat with
      | none => simp [vresOf]
      | some d =>
        have a := opc_ne d.opc 0 (by decide)
        by_cases c : d.opc = 0 <;> simp_all [vresOf]

theorem VerifierFns_registers (insn : Insn) (store : Bool) :
    Verifier.checkRegisters insn store = vresOf (checkRegistersSrc insn.dst.toNat insn.src.toNat store) := by
  unfold Verifier.checkRegisters checkRegistersSrc
  by_cases h1 : insn.src.toNat > 10
  · have h1' : (insn.src.toNat : Int) > 10 := by omega
    simp [h1, h1', vresOf]
  · have h1' : ¬ (insn.src.toNat : Int) > 10 := by omega
    by_cases h2 : insn.dst.toNat ≤ 9
    · have h2' : (insn.dst.toNat : Int) ≤ 9 := by omega
      simp [h1, h1', h2, h2', vresOf]
    · have h2' : ¬ (insn.dst.toNat : Int) ≤ 9 := by omega
      by_cases h3 : insn.dst.toNat = 10
      · have h3' : (insn.dst.toNat : Int) = 10 := by omega
        cases store <;> simp [h1, h1', h3, vresOf]
      · have h3' : ¬ (insn.dst.toNat : Int) = 10 := by omega
        simp [h1, h1', h2, h2', h3, h3', vresOf]

/-- `check_imm_endian`: the model's `endian` arm accepts exactly 16, 32, 64 -/
theorem VerifierFns_immEndian (imm : BitVec 32) :
    (if imm = 16 ∨ imm = 32 ∨ imm = 64 then Verifier.VRes.ok else .err) = vresOf (checkImmEndianSrc imm.toInt) := by
  unfold checkImmEndianSrc
  simp only [toInt_iff imm 16 16 (by decide), toInt_iff imm 32 32 (by decide), toInt_iff imm 64 64 (by decide)]
  by_cases h1 : imm.toInt = 16 <;> by_cases h2 : imm.toInt = 32 <;> by_cases h3 : imm.toInt = 64 <;> simp [h1, h2, h3, vresOf]

end Rbpf
