/- The instruction codec of src/ebpf.rs as translated on every run (Generated/Codec.lean) is the model's (`Model/Insn.lean`, what C17's theorems are about). -/
import RbpfModel.Generated.Codec
namespace Rbpf
open Rbpf.Generated.Codec

theorem CodecSrc_translated : toArraySrcOk = true ∧ toVecSrcOk = true ∧ getInsnSrcOk = true ∧ toInsnVecShape = true := by decide

/-- `Insn::to_array`: the eight byte expressions -/
theorem CodecSrc_toArray (i : Insn) : toArraySrc i = i.toArray := by
  simp [toArraySrc, Insn.toArray]

/-- `Insn::to_vec`: the second copy of the expression list -/
theorem CodecSrc_toVec (i : Insn) : toVecSrc i = i.toVec := by
  simp [toVecSrc, Insn.toVec]

/-- `get_insn`: bound test and field extraction -/
theorem CodecSrc_getInsn (p : Bytes) (idx : Nat) : getInsnSrc p idx = getInsn? p idx := by
  unfold getInsnSrc getInsn? decodeSlot
  rfl

end Rbpf
