/-
  C10 — loading, verifying and compiling stay consistent over any history of API calls.
  Only property theorems and their non-vacuity examples live here.
-/
import RbpfModel.Lemmas.VmLemmas
namespace Rbpf
open Vm

/-- the invariant: the loaded program was accepted by the verifier in force; compiled code belongs to
    the loaded program -/
def VmInv (w : World) (s : VmState) : Prop :=
  (∀ p, s.prog = some p → w.accepts s.verifier p = true) ∧
  (∀ a, s.jit = some a → s.prog = some a.prog) ∧
  (∀ a, s.clif = some a → s.prog = some a.prog)

theorem C10_inv_create (w : World) (prog : Option Bytes) (fixed : Option (Nat × Nat)) (s : VmState)
    (h : create w prog fixed = some s) : VmInv w s := by
  unfold create at h
  split at h
  · split at h
    · cases h
      refine ⟨?_, ?_, ?_⟩ <;> simp_all
    · cases h
  · cases h
    refine ⟨?_, ?_, ?_⟩ <;> simp

theorem C10_inv_step (w : World) (s : VmState) (o : Op) (h : VmInv w s) : VmInv w (step w s o).1 := by
  obtain ⟨h1, h2, h3⟩ := h
  cases o <;> simp only [step]
  case setProgram p offs =>
    split
    · refine ⟨?_, ?_, ?_⟩ <;> simp_all
    · exact ⟨h1, h2, h3⟩
  case setVerifier v =>
    split
    · split
      · refine ⟨?_, h2, h3⟩
        simp_all
      · exact ⟨h1, h2, h3⟩
    · refine ⟨?_, h2, h3⟩
      simp_all
  case registerHelper id fn => exact ⟨h1, h2, h3⟩
  case setCalc c => exact ⟨h1, h2, h3⟩
  case jitCompile =>
    split
    · split
      · refine ⟨h1, ?_, h3⟩
        simp_all
      · exact ⟨h1, h2, h3⟩
    · exact ⟨h1, h2, h3⟩
  case clifCompile =>
    split
    · split
      · refine ⟨h1, h2, ?_⟩
        simp_all
      · exact ⟨h1, h2, h3⟩
    · exact ⟨h1, h2, h3⟩
  case exec => split <;> exact ⟨h1, h2, h3⟩
  case execJit => split <;> exact ⟨h1, h2, h3⟩
  case execClif => split <;> exact ⟨h1, h2, h3⟩

/-- after ANY finite sequence of API calls -/
theorem C10_inv_history (w : World) (s0 : VmState) (ops : List Op) (h : VmInv w s0) :
    VmInv w (runOps w s0 ops).1 := by
  induction ops generalizing s0 with
  | nil => exact h
  | cons o rest ih =>
    rw [VmL.runOps_cons]
    exact ih _ (C10_inv_step w s0 o h)

/-- a call that returns an error leaves the VM exactly as it was (in particular a failed
    set_program / set_verifier) -/
theorem C10_failed_op_frame (w : World) (s : VmState) (o : Op) (h : (step w s o).2 = .err) :
    (step w s o).1 = s := by
  cases o <;> simp only [step] at h ⊢ <;> (repeat' split at h) <;> simp_all

/-- what runs is the most recently successfully loaded program: an abstract two-field specification
    (current program, verifier in force) is refined by the VM -/
def SpecState := Option Bytes × VerifierId

/-- only set_program / set_verifier change it, and only when the check passes -/
def specStep (w : World) (t : SpecState) (o : Op) : SpecState :=
  match o with
  | .setProgram p _ => if w.accepts t.2 p then (some p, t.2) else t
  | .setVerifier v =>
    (match t.1 with
     | some p => if w.accepts v p then (t.1, v) else t
     | none => (t.1, v))
  | _ => t

theorem C10_refines_spec (w : World) (s : VmState) (o : Op) :
    ((step w s o).1.prog, (step w s o).1.verifier) = specStep w (s.prog, s.verifier) o := by
  cases o <;> simp only [step, specStep] <;> (repeat' split) <;> simp_all

theorem C10_history_spec (w : World) (s0 : VmState) (ops : List Op) :
    ((runOps w s0 ops).1.prog, (runOps w s0 ops).1.verifier)
      = ops.foldl (specStep w) (s0.prog, s0.verifier) := by
  induction ops generalizing s0 with
  | nil => rfl
  | cons o rest ih =>
    rw [VmL.runOps_cons, ih, C10_refines_spec]
    rfl

/-- every execution — interpreter, JIT-compiled, Cranelift-compiled — runs the current program of the
    specification, or returns an error -/
theorem C10_exec_runs_current (w : World) (s : VmState) (hinv : VmInv w s) (o : Op)
    (ho : o = .exec ∨ o = .execJit ∨ o = .execClif) (p : Bytes) (h : List (Nat × Nat))
    (f : Option (Nat × Nat)) (eng : Nat) (cal : Option Nat) (hr : (step w s o).2 = .ran eng p h f cal) : s.prog = some p := by
  obtain ⟨_, h2, h3⟩ := hinv
  rcases ho with rfl | rfl | rfl <;> simp only [step] at hr <;> split at hr
  · cases hr; assumption
  · cases hr
  · rename_i a ha
    cases hr; exact h2 a ha
  · cases hr
  · rename_i a ha
    cases hr; exact h3 a ha
  · cases hr

/-- no program loaded: executing and compiling are errors; never compiled: executing compiled code is
    an error -/
theorem C10_no_program (w : World) (s : VmState) (h : s.prog = none) :
    (step w s .exec).2 = .err ∧ (step w s .jitCompile).2 = .err ∧ (step w s .clifCompile).2 = .err := by
  simp [step, h]

theorem C10_not_compiled (w : World) (s : VmState) :
    (s.jit = none → (step w s .execJit).2 = .err) ∧ (s.clif = none → (step w s .execClif).2 = .err) := by
  constructor <;> intro h <;> simp [step, h]

/-- with no program loaded, under the invariant, nothing is compiled either -/
theorem C10_no_program_no_code (w : World) (s : VmState) (hinv : VmInv w s) (h : s.prog = none) :
    s.jit = none ∧ s.clif = none := by
  obtain ⟨_, h2, h3⟩ := hinv
  constructor
  · cases hj : s.jit with
    | none => rfl
    | some a => have := h2 a hj; simp_all
  · cases hc : s.clif with
    | none => rfl
    | some a => have := h3 a hc; simp_all

/-- executions do not change the VM: the result of an execution depends only on the loaded program,
    the registered helpers (the table compiled code was built against) and the fixed offsets — never
    on earlier executions -/
theorem C10_exec_pure (w : World) (s : VmState) (o : Op)
    (ho : o = .exec ∨ o = .execJit ∨ o = .execClif) : (step w s o).1 = s := by
  rcases ho with rfl | rfl | rfl <;> simp only [step] <;> split <;> rfl

-- non-vacuity ---------------------------------------------------------------------------------------

namespace C10Ex
/-- verifier 1 accepts everything; the default verifier 0 accepts exactly the 16-byte programs -/
def w : World :=
  { accepts := fun v p => v = 1 || (v = 0 && p.size = 16),
    jitCompiles := fun _ hs => hs.length ≤ 1,
    clifCompiles := fun _ _ => true }
def pA : Bytes := #[0xb7, 0, 0, 0, 1, 0, 0, 0, 0x95, 0, 0, 0, 0, 0, 0, 0]
def pB : Bytes := #[0xb7, 0, 0, 0, 2, 0, 0, 0, 0x95, 0, 0, 0, 0, 0, 0, 0]
def pBad : Bytes := #[0x95, 0, 0, 0, 0, 0, 0, 0]
def s0 : VmState := { prog := none, verifier := 0, jit := none, clif := none, helpers := [], calcId := none, fixed := none }
/-- a failed load between two successful ones, compile, execute all three ways -/
def hist : List Op :=
  [.exec, .setProgram pA none, .jitCompile, .execJit, .setProgram pBad none, .exec, .execJit,
   .setProgram pB none, .exec, .execJit, .registerHelper 7 70, .clifCompile, .execClif, .exec]
end C10Ex

open C10Ex in
example : create w none none = some s0 ∧ VmInv w s0 := ⟨by decide, C10_inv_create w none none s0 (by decide)⟩
open C10Ex in
example : (create w (some pBad) none).isNone ∧ (create w (some pA) (some (0, 8))).isSome := by decide
open C10Ex in
/-- outputs of the history: the failed load of `pBad` changes nothing (`pA` and its compiled code keep
    running), the successful load of `pB` drops the compiled code -/
example : (runOps w s0 hist).2 =
    [.err, .ok, .ok, .ran 1 pA [] none none, .err, .ran 0 pA [] none none, .ran 1 pA [] none none,
     .ok, .ran 0 pB [] none none, .err, .ok, .ok, .ran 2 pB [(7, 70)] none none, .ran 0 pB [(7, 70)] none none] := by decide
open C10Ex in
example : (runOps w s0 hist).1 =
    { prog := some pB, verifier := 0, jit := none, clif := some ⟨pB, [(7, 70)]⟩, helpers := [(7, 70)],
      calcId := none, fixed := none } := by decide
open C10Ex in
example : (hist.foldl (specStep w) (s0.prog, s0.verifier) : Option Bytes × VerifierId) = (some pB, 0) := by decide
open C10Ex in
/-- a failed set_verifier keeps the old verifier; a successful one then lets the short program in -/
example : (runOps w s0 [.setVerifier 2, .setProgram pA none, .setVerifier 2, .setProgram pBad none, .setVerifier 1,
      .setProgram pBad none, .setVerifier 0, .exec]).2 =
    [.ok, .err, .ok, .err, .ok, .ok, .err, .ran 0 pBad [] none none] := by decide
open C10Ex in
/-- fixed-metadata VM: offsets are replaced only by a successful load -/
example : (runOps w { s0 with fixed := some (0, 8) }
      [.setProgram pBad (some (16, 24)), .setProgram pA (some (32, 40)), .exec]).2 =
    [.err, .ok, .ran 0 pA [] (some (32, 40)) none] := by decide

end Rbpf
