/-
  C04 / C11 at the level of the Cranelift IR that `cranelift.rs` builds.

  `Model/ClifAst.lean` is the translator (compared line by line with the IR text of the real translator on every engine case),
  `Model/ClifSem.lean` the meaning of the IR operations, `Lemmas/ClifSim/*` the simulation.  The theorems here say: for every
  program the default verifier accepts and `cranelift.rs` translates, the function it builds — prelude, one block structure,
  per instruction the op list of its arm — computes what the register-transfer semantics `EngineSem.clifRun` compute
  (`C04_ir_function`), hence what the interpreter computes where the two agree (`C04_ir_interp`), and refuses by a trap, with
  nothing written, exactly the accesses outside stack / packet / metadata (`C11_ir_trap`).  Below this level — cranelift-frontend's
  SSA construction and Cranelift's code generator — nothing is proved; the execution comparison speaks there.

  The function starts with r2 = the length of the metadata buffer or of the packet (`build_function_prelude` puts it there; the
  interpreter leaves r2 = 0): `init2`.  `C04_ir_interp` is therefore about the interpreter started from `init2 m`;
  `C04_ir_interp_r2` restates it for the interpreter's own initial state under the hypothesis that the result does not depend on
  r2 at entry (the semantic form of the property's exclusion of unset registers).
-/
import RbpfModel.Lemmas.ClifSim.All
import RbpfModel.Lemmas.ClifSim.Total
import RbpfModel.Props.C04
import RbpfModel.Lemmas.TaintInterp
namespace Rbpf
open Rbpf.ClifAst Rbpf.ClifSem Rbpf.ClifSim

/-- the IR function computes the register-transfer semantics: a returned value is returned, with the same memory and the
    same helper calls; an access the semantics refuse is a trap, with the memory and helper calls made until then -/
theorem C04_ir_function (env : Env) (tr : List (Nat × List Op)) (htr : translate env.prog (helperSet env) = some tr)
    (hv : Verifier.check env.prog = .ok) (m : Memory) (hm : MemOk m) (fuel : Nat) :
    (∀ r s', EngineSem.clifRun env (init2 m) fuel = .done r s' →
        ∃ k σ', runFunction env tr m k = .ret r σ' ∧ σ'.mem = s'.mem ∧ σ'.log = s'.log) ∧
    (∀ s', EngineSem.clifRun env (init2 m) fuel = .err .oob s' →
        ∃ k σ', runFunction env tr m k = .trap σ' ∧ σ'.mem = s'.mem ∧ σ'.log = s'.log) :=
  clif_ir_function env tr htr hv m hm fuel

/-- every instruction, every state: the op list of the instruction's arm does what one step of the semantics does -/
theorem C04_ir_step (i : Insn) : ArmSim i := armSim_all i

/-- … and so what the interpreter computes, on programs without eBPF-to-eBPF calls (Cranelift refuses them) and without an
    F7 instruction, with no registered ranges, when the interpreter does not end by refusing a misaligned atomic add -/
theorem C04_ir_interp (env : Env) (tr : List (Nat × List Op)) (htr : translate env.prog (helperSet env) = some tr)
    (hv : Verifier.check env.prog = .ok) (m : Memory) (hm : MemOk m) (fuel : Nat)
    (hl : NoLocalCall env.prog) (h7 : NoF7 env.prog) (hal : env.allowed = [])
    (r : BitVec 64) (s' : State) (hrun : Interp.run env (init2 m) fuel = .done r s') :
    ∃ k σ', runFunction env tr m k = .ret r σ' ∧ σ'.mem = s'.mem ∧ σ'.log = s'.log := by
  have hd : (init2 m).frames = [] := rfl
  rcases clifRun_rel env hl h7 hal fuel (init2 m) (init2 m) ⟨rfl, rfl, rfl, rfl, rfl⟩ hd with h | ⟨e, h⟩
  · rw [hrun] at h
    cases hc : EngineSem.clifRun env (init2 m) fuel with
    | done r2 s2 =>
      rw [hc] at h
      obtain ⟨hr, -, -, -, hmem, hlog⟩ := h
      obtain ⟨k, σ', h1, h2, h3⟩ := (C04_ir_function env tr htr hv m hm fuel).1 r2 s2 hc
      exact ⟨k, σ', hr ▸ h1, h2.trans hmem, h3.trans hlog⟩
    | err _ _ => rw [hc] at h; exact absurd h (by simp [ResultRel])
    | panic => rw [hc] at h; exact absurd h (by simp [ResultRel])
    | fault => rw [hc] at h; exact absurd h (by simp [ResultRel])
    | timeout _ => rw [hc] at h; exact absurd h (by simp [ResultRel])
  · rw [hrun] at h; cases h

/-- the same for the interpreter's own initial state, when the run does not depend on what r2 holds at entry -/
theorem C04_ir_interp_r2 (env : Env) (tr : List (Nat × List Op)) (htr : translate env.prog (helperSet env) = some tr)
    (hv : Verifier.check env.prog = .ok) (m : Memory) (hm : MemOk m) (fuel : Nat)
    (hl : NoLocalCall env.prog) (h7 : NoF7 env.prog) (hal : env.allowed = [])
    (hindep : Interp.run env (init2 m) fuel = Interp.run env (Interp.init m) fuel)
    (r : BitVec 64) (s' : State) (hrun : Interp.run env (Interp.init m) fuel = .done r s') :
    ∃ k σ', runFunction env tr m k = .ret r σ' ∧ σ'.mem = s'.mem ∧ σ'.log = s'.log :=
  C04_ir_interp env tr htr hv m hm fuel hl h7 hal r s' (hindep ▸ hrun)

/-- C11 at IR level: an access outside stack / packet / metadata (the interpreter with no registered ranges refuses it) makes
    the function trap — `trapz` of `insert_bounds_check` fires before the load, store or atomic add — and everything written
    and every helper call made before that point is as in the semantics -/
theorem C11_ir_trap (env : Env) (tr : List (Nat × List Op)) (htr : translate env.prog (helperSet env) = some tr)
    (hv : Verifier.check env.prog = .ok) (m : Memory) (hm : MemOk m) (fuel : Nat)
    (s' : State) (hrun : EngineSem.clifRun env (init2 m) fuel = .err .oob s') :
    ∃ k σ', runFunction env tr m k = .trap σ' ∧ σ'.mem = s'.mem ∧ σ'.log = s'.log :=
  (C04_ir_function env tr htr hv m hm fuel).2 s' hrun

/-- the prelude establishes the entry state of the property (C09 for Cranelift): r1 the metadata buffer or the packet or 0,
    r10 the top of the stack, the six bounds variables -/
theorem C09_ir_prelude (env : Env) (m : Memory) (hm : MemOk m) :
    ∃ σ, runOps env (entry m) [] prelude = (σ, .goto 0) ∧ RelC σ (init2 m) :=
  prelude_sim env m hm

/-! ### non-vacuity: a concrete program, memory and run on which every hypothesis holds -/
namespace C04IrEx
open Rbpf.ClifSim.WholeEx

example : MemOk mem := memOk
example : Verifier.check env.prog = .ok := by decide +kernel
example : (translate env.prog (helperSet env)).isSome = true := by decide +kernel
example : NoLocalCall env.prog ∧ NoF7 env.prog ∧ env.allowed = [] := by
  refine ⟨?_, ?_, rfl⟩
  · intro pc i h
    have : pc < 4 ∨ 4 ≤ pc := by omega
    rcases this with hp | hp
    · have : pc = 0 ∨ pc = 1 ∨ pc = 2 ∨ pc = 3 := by omega
      rcases this with rfl | rfl | rfl | rfl <;> (injection h with h; subst h; decide)
    · exfalso
      have : getInsn? env.prog pc = none := by
        unfold getInsn?; simp [env, prog]; omega
      rw [this] at h; cases h
  · intro pc i h
    have : pc < 4 ∨ 4 ≤ pc := by omega
    rcases this with hp | hp
    · have : pc = 0 ∨ pc = 1 ∨ pc = 2 ∨ pc = 3 := by omega
      rcases this with rfl | rfl | rfl | rfl <;> (injection h with h; subst h; decide)
    · exfalso
      have : getInsn? env.prog pc = none := by
        unfold getInsn?; simp [env, prog]; omega
      rw [this] at h; cases h
/-- the interpreter, started with r2 = 0 or r2 = the length, returns 7 -/
example : value (Interp.run env (init2 mem) 10) = some 7 ∧ value (Interp.run env (Interp.init mem) 10) = some 7 := by
  constructor <;> decide +kernel

end C04IrEx
end Rbpf

/-! ### the in-claim version: the dependence on r2 at entry discharged by the taint run -/
namespace Rbpf
open Rbpf.ClifAst Rbpf.ClifSem Rbpf.ClifSim

/-- **IR function = interpreter on every case the checks call in-claim.**  `C04_ir_interp` speaks about the interpreter
    started with r2 = the length Cranelift's prelude puts there; when the taint run of the interpreter model (from the
    interpreter's own initial state, r2 = 0) returns `r0` with `inClaim = true`, the run does not depend on r2 at entry
    (`taint_interpIndep`), so the IR function returns what the interpreter returns from its own initial state, leaves the same
    packet / metadata / registered ranges and makes the same helper calls.  `hdisj`: as in `C03_taint_sound` (the private
    stack shares no byte with the metadata buffer nor with the packet; true of real memory). -/
theorem C04_ir_inclaim (env : Env) (tr : List (Nat × List Op)) (htr : translate env.prog (helperSet env) = some tr)
    (hv : Verifier.check env.prog = .ok) (m : Memory) (hm : MemOk m) (fuel : Nat) (ptrSlots patched : List Nat)
    (t : Taint.TState) (r0 : BitVec 64) (sfin : State)
    (hl : NoLocalCall env.prog) (h7 : NoF7 env.prog) (hal : env.allowed = [])
    (hdisj : ∀ a w, 0 < w → m.stack.contains a w = true → m.mbuff.contains a w = false ∧ m.mem.contains a w = false)
    (hrun : Taint.run env ptrSlots patched fuel (Taint.init m) = (t, .done r0 sfin)) (hin : t.inClaim = true) :
    ∃ k σ' s', Interp.run env (Interp.init m) fuel = .done r0 s' ∧ runFunction env tr m k = .ret r0 σ' ∧
      SameData σ'.mem s'.mem ∧ σ'.log = s'.log := by
  obtain ⟨a, b, ha, hb, hmem, hlog⟩ :=
    taint_interpIndep env m fuel ptrSlots patched t r0 sfin hl h7 hdisj hrun hin (init2 m) rfl rfl rfl rfl
      (Vector.getElem?_setIfInBounds_ne (by decide)) (Vector.getElem?_setIfInBounds_ne (by decide))
  obtain ⟨k, σ', hk, hm', hl'⟩ := C04_ir_interp env tr htr hv m hm fuel hl h7 hal r0 b hb
  exact ⟨k, σ', a, ha, hk, by rw [hm']; exact hmem, by rw [hl']; exact hlog⟩

end Rbpf

/-! ### C12 for Cranelift, at the level of the translator `cranelift.rs` (`ClifAst.translateR` / `compileR` keep its
    `Err`-versus-panic distinction; `blocksFilled` is the observed condition under which Cranelift's `define_function` panics) -/
namespace Rbpf
open Rbpf.ClifAst Rbpf.ClifSim

/-- translating a program the default verifier accepts never panics — no register index out of range, no `unreachable!` /
    `unimplemented!`, no `try_into().unwrap()` on a jump target, no `get_insn` past the end — and hands Cranelift a function
    whose blocks are all filled and whose branches all land on instruction starts -/
theorem C12_ir_total (p : Bytes) (helpers : Nat → Bool) (hv : Verifier.check p = .ok) :
    compileR helpers p ≠ .error .panic ∧ translateR helpers p ≠ .error .panic :=
  ⟨clif_compile_total p helpers hv, clif_translate_total p helpers hv⟩

/-- it returns `Err` exactly for an eBPF-to-eBPF call (or another call kind) or a helper id that is not registered -/
theorem C12_ir_err_iff (p : Bytes) (helpers : Nat → Bool) (hv : Verifier.check p = .ok) :
    compileR helpers p = .error .err ↔
      ∃ e ∈ EngineSem.insns p, e.2.opc = 0x85 ∧ (e.2.src ≠ 0 ∨ helpers e.2.imm.toNat = false) :=
  clif_compile_err_iff p helpers hv

/-- the older bookkeeping model `ClifCompile` (C12_clif_total / C12_clif_err_iff) and the translator model agree on accepted programs -/
theorem C12_ir_agrees (p : Bytes) (helpers : Nat → Bool) (hv : Verifier.check p = .ok) :
    (compileR helpers p = .error .err ↔ ClifCompile.compile p helpers = .err) :=
  (clif_compile_agrees p helpers hv).1

end Rbpf
