/-
  C03 — x86-64 JIT-compiled code computes the same result as the interpreter (on the model
  `EngineSem.jit*` of what `jit.rs` generates).  Only property theorems and their non-vacuity examples live
  here; definitions (`SameButUsage`, `OutcomeRel`, `ResultRel`, `NoLocalCall`, `NoF7`) and helper lemmas are in
  `Lemmas/EngineLemmas.lean`.

  The interpreter additionally keeps `State.usage` (frame sizes per call depth), which generated code has
  no counterpart of; states are compared up to it.  Three departures of generated code are known and
  excluded by hypothesis: F16 (a local call does not lower r10: `NoLocalCall`), F7 (unsigned compare with a
  negative immediate: `NoF7`), and the atomic add at a misaligned address, which generated code performs
  and the interpreter refuses with `.err .unaligned` (`hna`).
-/
import RbpfModel.Model.EngineSem
import RbpfModel.Lemmas.EngineLemmas
namespace Rbpf

/-- one instruction: on a program without eBPF-to-eBPF calls and without the F7 instructions, at call depth 0,
    the generated code's step and the interpreter's step are related, from related states — unless the
    interpreter's step is the refusal of a misaligned atomic add -/
theorem C03_step (env : Env) (a b : State) (hl : NoLocalCall env.prog) (h7 : NoF7 env.prog)
    (hab : SameButUsage a b) (hd : b.frames = []) (hna : ∀ b', Interp.step env b ≠ .err .unaligned b') :
    OutcomeRel (EngineSem.jitStep env a) (Interp.step env b) := by
  rcases jitStep_rel env a b hl h7 hab hd with h | ⟨s', h⟩
  · exact h
  · exact absurd h (hna s')

/-- whole runs, any length: same return value, same packet / metadata / stack bytes, same helper log, same
    errors — on every run the interpreter does not end by refusing a misaligned atomic add -/
theorem C03_run (env : Env) (m : Memory) (fuel : Nat) (hl : NoLocalCall env.prog) (h7 : NoF7 env.prog)
    (hna : ∀ s', Interp.run env (Interp.init m) fuel ≠ .err .unaligned s') :
    ResultRel (EngineSem.jitRun env (Interp.init m) fuel) (Interp.run env (Interp.init m) fuel) := by
  rcases jitRun_rel env hl h7 fuel _ _ (SameButUsage.refl (Interp.init m)) rfl with h | ⟨s', h⟩
  · exact h
  · exact absurd h (hna s')

/-- the same without the alignment hypothesis: the results are related, or the interpreter ended by refusing a
    misaligned atomic add -/
theorem C03_run_or (env : Env) (m : Memory) (fuel : Nat) (hl : NoLocalCall env.prog) (h7 : NoF7 env.prog) :
    ResultRel (EngineSem.jitRun env (Interp.init m) fuel) (Interp.run env (Interp.init m) fuel) ∨
    ∃ s', Interp.run env (Interp.init m) fuel = .err .unaligned s' :=
  jitRun_rel env hl h7 fuel _ _ (SameButUsage.refl (Interp.init m)) rfl

/-- with local calls the JIT still preserves r6..r9 and resumes after the call (its part of C07).  The call:
    no register changes (in particular r10 does not: F16), execution continues at pc + 1 + imm, one frame pushed -/
theorem C03_jit_call_step (s s' : State) (imm : BitVec 32) (h : EngineSem.jitCallLocal s imm = .next s') :
    (∀ i, i ≤ 10 → s'.reg[i]? = s.reg[i]?) ∧ (s'.pc : Int) = (s.pc : Int) + imm.toInt ∧
    s'.frames.length = s.frames.length + 1 ∧ s'.mem = s.mem := by
  obtain ⟨r6, r7, r8, r9, _, _, _, _, hpc, rfl⟩ := jitCallLocal_next s s' imm h
  refine ⟨fun _ _ => rfl, ?_, rfl, rfl⟩
  simp only [Int.toNat_of_nonneg hpc]

/-- the frame the JIT's call pushes holds the return address and the caller's r6..r9 -/
theorem C03_jit_call_frame (s s' : State) (imm : BitVec 32) (h : EngineSem.jitCallLocal s imm = .next s') :
    ∃ r6 r7 r8 r9, s.reg[6]? = some r6 ∧ s.reg[7]? = some r7 ∧ s.reg[8]? = some r8 ∧ s.reg[9]? = some r9 ∧
      s'.frames = { ret := s.pc, saved := (r6, r7, r8, r9) } :: s.frames := by
  obtain ⟨r6, r7, r8, r9, h6, h7, h8, h9, _, rfl⟩ := jitCallLocal_next s s' imm h
  exact ⟨r6, r7, r8, r9, h6, h7, h8, h9, rfl⟩

/-- the return: pc = saved return address, one frame popped, r6..r9 restored from the frame, r0..r5 and r10
    untouched -/
theorem C03_jit_exit_step (s s' : State) (f : Frame) (rest : List Frame) (hf : s.frames = f :: rest)
    (h : EngineSem.jitExit s = .next s') :
    s'.pc = f.ret ∧ s'.frames = rest ∧ s'.reg[6]? = some f.saved.1 ∧ s'.reg[7]? = some f.saved.2.1 ∧
    s'.reg[8]? = some f.saved.2.2.1 ∧ s'.reg[9]? = some f.saved.2.2.2 ∧
    (∀ i, i < 6 ∨ i = 10 → s'.reg[i]? = s.reg[i]?) ∧ s'.mem = s.mem := by
  have hs := jitExit_next s s' f rest hf h
  subst hs
  refine ⟨rfl, rfl, by simp, by simp, by simp, by simp, fun i hi => ?_, rfl⟩
  simp only []
  rw [Vector.getElem?_setIfInBounds_ne (by omega), Vector.getElem?_setIfInBounds_ne (by omega),
    Vector.getElem?_setIfInBounds_ne (by omega), Vector.getElem?_setIfInBounds_ne (by omega)]

/-- the full-strength statement (all accepted programs) is FALSE of the current code — known finding F16: a
    local call does not lower r10 in JIT-compiled code.  Witness: from a state with r10 = 0x3200 and
    usage[0] = 256 the interpreter's `callLocal` gives r10 = 0x3100, the JIT's gives 0x3200. -/
theorem C03_f16_witness : ∃ (s : State) (imm : BitVec 32) (a b : State),
    Interp.callLocal s imm = .next a ∧ EngineSem.jitCallLocal s imm = .next b ∧ a.reg[10]? ≠ b.reg[10]? :=
  ⟨Ex7.s, 1, _, _, rfl, rfl, by decide +kernel⟩

/-- … and known finding F7: on `jeq r1, -1, +5` with r1 = 0xffff_ffff_ffff_ffff the generated code branches,
    the interpreter does not -/
theorem C03_f7_witness : ∃ (env : Env) (s : State) (insn : Insn),
    EngineSem.jitExec env s insn ≠ Interp.exec env s insn :=
  ⟨demoEnv, f7State, ⟨0x15, 1, 0, 5, -1⟩, fun h => absurd (congrArg Outcome.pc? h) (by decide +kernel)⟩

set_option maxRecDepth 8192 in
/-- … and the atomic add: `xaddw [r10-6], r1` (inside the stack, misaligned) is performed by generated code and
    refused by the interpreter -/
theorem C03_unaligned_witness : ∃ (env : Env) (s s' : State) (insn : Insn),
    EngineSem.jitExec env s insn = .next s' ∧ Interp.exec env s insn = .err .unaligned s :=
  ⟨Ex.env, Ex.state, _, ⟨0xc3, 10, 1, 0xfffa, 0⟩, rfl, rfl⟩

/-! ### non-vacuity (`ExEng.prog`: `mov r0,7; jeq r0,7,+1; mov r0,0; exit`) -/

-- the hypotheses of `C03_run` hold of it, and both sides return 7 after 3 steps
example : ∃ s1 s2, NoLocalCall ExEng.env.prog ∧ NoF7 ExEng.env.prog ∧
    EngineSem.jitRun ExEng.env (Interp.init Ex.mem) 3 = .done 7 s1 ∧
    Interp.run ExEng.env (Interp.init Ex.mem) 3 = .done 7 s2 :=
  ⟨_, _, ExEng.noLocalCall, ExEng.noF7, rfl, rfl⟩
example : ResultRel (EngineSem.jitRun ExEng.env (Interp.init Ex.mem) 3) (Interp.run ExEng.env (Interp.init Ex.mem) 3) :=
  C03_run ExEng.env Ex.mem 3 ExEng.noLocalCall ExEng.noF7 (fun s' h => by
    have h' : Interp.Result.done 7 _ = .err .unaligned s' := h
    cases h')
-- `C03_step` at the initial state; the interpreter's states differ from the JIT's in `usage` only
example : OutcomeRel (EngineSem.jitStep ExEng.env (Interp.init Ex.mem)) (Interp.step ExEng.env (Interp.init Ex.mem)) :=
  C03_step ExEng.env _ _ ExEng.noLocalCall ExEng.noF7 (SameButUsage.refl _) rfl (fun b' h => by
    have h' : Outcome.next _ = .err .unaligned b' := h
    cases h')
-- the JIT's local call and return on `Ex7.s` (r6 = 5, r7 = 1, r10 = 0x3200, return address 2)
example : ∃ s1 s2, EngineSem.jitCallLocal Ex7.s 1 = .next s1 ∧ s1.pc = 3 ∧ s1.reg[10]? = some 0x3200#64 ∧
    EngineSem.jitExit { s1 with reg := s1.reg.setIfInBounds 6 99 } = .next s2 ∧ s2.pc = 2 ∧ s2.reg[6]? = some 5#64 :=
  ⟨_, _, rfl, rfl, by decide +kernel, rfl, rfl, by decide +kernel⟩

end Rbpf
