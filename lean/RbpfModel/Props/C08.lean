/-
  C08 — helper calls follow the contract (interpreter part).  Only property theorems and their
  non-vacuity examples live here.
-/
import RbpfModel.Model.Interp
namespace Rbpf

/-- a call to a registered id invokes exactly that function, once, with (r1..r5) in order, stores the
    result in r0, leaves r1..r10, memory, pc, frames unchanged; the call log grows by exactly one entry
    (id, [r1..r5]) -/
theorem C08_helper_interp (env : Env) (s : State) (imm : BitVec 32) (f : HelperFn)
    (hf : env.helpers imm.toNat = some f) (a1 a2 a3 a4 a5 : BitVec 64)
    (h1 : s.reg[1]? = some a1) (h2 : s.reg[2]? = some a2) (h3 : s.reg[3]? = some a3)
    (h4 : s.reg[4]? = some a4) (h5 : s.reg[5]? = some a5) :
    ∃ s', Interp.callHelper env s imm = .next s' ∧ s'.reg[0]? = some (f a1 a2 a3 a4 a5) ∧
      (∀ i, 1 ≤ i → i ≤ 10 → s'.reg[i]? = s.reg[i]?) ∧
      s'.log = s.log ++ [(imm.toNat, [a1, a2, a3, a4, a5])] ∧
      s'.mem = s.mem ∧ s'.pc = s.pc ∧ s'.frames = s.frames ∧ s'.usage = s.usage := by
  refine ⟨{ s with log := s.log ++ [(imm.toNat, [a1, a2, a3, a4, a5])],
                   reg := s.reg.setIfInBounds 0 (f a1 a2 a3 a4 a5) }, ?_, ?_, ?_, rfl, rfl, rfl, rfl, rfl⟩
  · simp only [Interp.callHelper, hf, Interp.rd, h1, h2, h3, h4, h5, Interp.wr]
    simp
  · simp
  · intro i hi _
    exact Vector.getElem?_setIfInBounds_ne (by omega)

/-- an unregistered id is an error when reached and executes nothing -/
theorem C08_unknown_helper_interp (env : Env) (s : State) (imm : BitVec 32)
    (h : env.helpers imm.toNat = none) : Interp.callHelper env s imm = .err .unknownHelper s := by
  simp [Interp.callHelper, h]

/-- `exec` of opcode 0x85 with src = 0 is exactly `callHelper` with the instruction's immediate (any
    dst, off field); with src = 1 it is the local call; any other src is an error value -/
theorem C08_call_dispatch (env : Env) (s : State) (insn : Insn) (hop : insn.opc = 0x85) :
    (insn.src = 0 → Interp.exec env s insn = Interp.callHelper env s insn.imm) ∧
    (insn.src = 1 → Interp.exec env s insn = Interp.callLocal s insn.imm) ∧
    (insn.src ≠ 0 → insn.src ≠ 1 → Interp.exec env s insn = .err .callType s) := by
  obtain ⟨opc, dst, src, off, imm⟩ := insn
  simp only at hop
  subst hop
  refine ⟨?_, ?_, ?_⟩
  · intro h; simp only at h; subst h; simp [Interp.exec]
  · intro h; simp only at h; subst h; simp [Interp.exec]
  · intro h0 h1
    simp only at h0 h1
    have h0' : src.toNat ≠ 0 := fun h => h0 (BitVec.eq_of_toNat_eq (by simpa using h))
    have h1' : src.toNat ≠ 1 := fun h => h1 (BitVec.eq_of_toNat_eq (by simpa using h))
    simp [Interp.exec, h0', h1']

-- non-vacuity: helper 7 = (a1 + a2); r1 = 3, r2 = 4
example : ∃ s', Interp.exec { prog := #[], helpers := fun n => if n = 7 then some (fun a b _ _ _ => a + b) else none,
                              allowed := [], usage := fun _ => none }
      { reg := #v[0, 3, 4, 0, 0, 0, 0, 0, 0, 0, 0], pc := 1, frames := [], usage := Vector.replicate 8 0,
        mem := default, log := [] } ⟨0x85, 0, 0, 0, 7⟩ = .next s' ∧
    s'.reg[0]? = some 7#64 ∧ s'.log = [(7, [3#64, 4#64, 0#64, 0#64, 0#64])] :=
  ⟨_, rfl, by decide +kernel, by decide +kernel⟩
example : Interp.callHelper { prog := #[], helpers := fun _ => none, allowed := [], usage := fun _ => none }
    { reg := Vector.replicate 11 0, pc := 1, frames := [], usage := Vector.replicate 8 0, mem := default, log := [] }
    8#32 = .err .unknownHelper
    { reg := Vector.replicate 11 0, pc := 1, frames := [], usage := Vector.replicate 8 0, mem := default, log := [] } :=
  C08_unknown_helper_interp _ _ _ rfl

end Rbpf

