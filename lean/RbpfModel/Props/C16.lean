/-
  C16 — assembling the disassembler's output reproduces the program.
  Only property theorems and their non-vacuity examples live here; lemmas are in `Lemmas/RtLemmas.lean`
  (and `Lemmas/AsmLemmas.lean`, which also defines `SaneClasses`).
-/
import RbpfModel.Model.Asm
import RbpfModel.Model.Disasm
import RbpfModel.Model.RtSpec
import RbpfModel.Lemmas.AsmLemmas
import RbpfModel.Lemmas.RtLemmas
namespace Rbpf

/-- (a) a canonical program (assembler-expressible instructions, unused fields zero, non-negative 32-bit
    immediates, any 64-bit value for lddw), of any length and instruction order, comes back byte for byte -/
theorem C16_roundtrip (cc : Asm.CharClass) (hcc : SaneClasses cc) (p : Bytes) (h : RtSpec.Canonical p) :
    RtSpec.roundTrip cc p = some (.ok p.toList) :=
  roundtrip_of_canonical cc hcc p h

/-- (b) for ANY program: whenever the assembler accepts the disassembler's text, the result is the program's
    canonical form — same opcodes, same values in every used field, unused fields cleared — never a different
    instruction -/
theorem C16_canonical (cc : Asm.CharClass) (hcc : SaneClasses cc) (p : Bytes) (b : List (BitVec 8))
    (h : RtSpec.roundTrip cc p = some (.ok b)) : ∃ xs, RtSpec.canon p = some xs ∧ b = xs.flatMap Insn.toArray :=
  canonical_of_roundtrip cc hcc p b h

-- non-vacuity ------------------------------------------------------------------------------------------------

-- the hypotheses on the character classes hold of the ASCII classes and of the driver's classes
example : SaneClasses asciiClasses := saneClasses_ascii
example : SaneClasses Drive.cc := saneClasses_drive

-- `mov64 r1, 0x10 ; lddw r2, 0xffffffffffffffff ; exit` is canonical and comes back byte for byte
example : RtSpec.Canonical (#[0xb7, 1, 0, 0, 0x10, 0, 0, 0, 0x18, 2, 0, 0, 0xff, 0xff, 0xff, 0xff,
    0, 0, 0, 0, 0xff, 0xff, 0xff, 0xff, 0x95, 0, 0, 0, 0, 0, 0, 0] : Bytes) :=
  ⟨⟨[{ opc := 0xb7, dst := 1, src := 0, off := 0, imm := 0x10 }, { opc := 0x18, dst := 2, src := 0, off := 0, imm := 0xffffffff },
     { opc := 0, dst := 0, src := 0, off := 0, imm := 0xffffffff }, { opc := 0x95, dst := 0, src := 0, off := 0, imm := 0 }],
    by decide +kernel, by decide +kernel⟩, by decide +kernel⟩
example : RtSpec.roundTrip asciiClasses (#[0xb7, 1, 0, 0, 0x10, 0, 0, 0, 0x18, 2, 0, 0, 0xff, 0xff, 0xff, 0xff,
    0, 0, 0, 0, 0xff, 0xff, 0xff, 0xff, 0x95, 0, 0, 0, 0, 0, 0, 0] : Bytes) =
    some (.ok [0xb7, 1, 0, 0, 0x10, 0, 0, 0, 0x18, 2, 0, 0, 0xff, 0xff, 0xff, 0xff,
      0, 0, 0, 0, 0xff, 0xff, 0xff, 0xff, 0x95, 0, 0, 0, 0, 0, 0, 0]) := by decide +kernel
-- (b) on a non-canonical program: `mov64` with a stray source register and offset comes back with both cleared
example : RtSpec.roundTrip asciiClasses (#[0xb7, 0x21, 0x34, 0x12, 0x10, 0, 0, 0] : Bytes) =
    some (.ok [0xb7, 1, 0, 0, 0x10, 0, 0, 0]) := by decide +kernel
example : RtSpec.canon (#[0xb7, 0x21, 0x34, 0x12, 0x10, 0, 0, 0] : Bytes) =
    some [{ opc := 0xb7, dst := 1, src := 0, off := 0, imm := 0x10 }] := by decide +kernel
-- a negative immediate, an atomic add and a byte swap of width 8 print as text the assembler rejects; an unknown
-- opcode makes the disassembler panic
example : RtSpec.roundTrip asciiClasses (#[0xb7, 1, 0, 0, 0xff, 0xff, 0xff, 0xff] : Bytes) = some .err := by decide +kernel
example : RtSpec.roundTrip asciiClasses (#[0xc3, 0x21, 0, 0, 0, 0, 0, 0] : Bytes) = some .err := by decide +kernel
example : RtSpec.roundTrip asciiClasses (#[0xd4, 1, 0, 0, 8, 0, 0, 0] : Bytes) = some .err := by decide +kernel
example : RtSpec.roundTrip asciiClasses (#[0xff, 0, 0, 0, 0, 0, 0, 0] : Bytes) = none := by decide +kernel

end Rbpf
