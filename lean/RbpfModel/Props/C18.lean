/-
  C18 — atomic add really is atomic under concurrent executions (the logic part: every interleaving of
  indivisible add steps ends with initial + Σ addends mod 2^width; a step touches only its word;
  a misaligned atomic add is an interpreter error that leaves memory unchanged).
-/
import RbpfModel.Model.Atomic
import RbpfModel.Model.Interp
namespace Rbpf
open Atomic

theorem runSchedule_eq (w init : Nat) (l : List Nat) (hi : init < 2 ^ w) :
    runSchedule w init l = (init + l.sum) % 2 ^ w := by
  unfold runSchedule
  induction l generalizing init with
  | nil => simp [Nat.mod_eq_of_lt hi]
  | cons x xs ih =>
    have hlt : addStep w init x < 2 ^ w := Nat.mod_lt _ (Nat.two_pow_pos w)
    rw [List.foldl_cons, ih _ hlt]
    simp only [addStep, List.sum_cons]
    -- ((init + x % m) % m + S) % m = (init + (x + S)) % m
    generalize 2 ^ w = m
    rw [Nat.add_mod ((init + x % m) % m), Nat.mod_mod, ← Nat.add_mod, Nat.add_assoc, Nat.add_mod init,
      Nat.add_mod (x % m), Nat.mod_mod, ← Nat.add_mod x, ← Nat.add_mod init]

theorem total_all_nil (ts : List (List Nat)) (h : ∀ t ∈ ts, t = []) : total ts = 0 := by
  induction ts with
  | nil => rfl
  | cons t ts ih =>
    have ht := h t (by simp)
    subst ht
    simp only [total, List.map_cons, List.sum_nil, List.sum_cons, Nat.zero_add] at *
    exact ih (fun t' ht' => h t' (by simp [ht']))

theorem total_move (pre post : List (List Nat)) (x : Nat) (xs : List Nat) :
    total (pre ++ (x :: xs) :: post) = x + total (pre ++ xs :: post) := by
  simp only [total, List.map_append, List.map_cons, List.sum_append, List.sum_cons]
  omega

theorem interleaving_sum (ts : List (List Nat)) (l : List Nat) (h : Interleaving ts l) : l.sum = total ts := by
  induction h with
  | done ts h => simp [total_all_nil ts h]
  | move pre post x xs rest _ ih => rw [List.sum_cons, ih, total_move]

/-- for every number of executions, every number of adds each, every addend and every interleaving: no update is lost -/
theorem C18_interleaving_sum (w init : Nat) (hi : init < 2 ^ w) (ts : List (List Nat)) (sched : List Nat)
    (h : Interleaving ts sched) : runSchedule w init sched = (init + total ts) % 2 ^ w := by
  rw [runSchedule_eq w init sched hi, interleaving_sum ts sched h]

/-- the result does not depend on the schedule -/
theorem C18_schedule_independent (w init : Nat) (hi : init < 2 ^ w) (ts : List (List Nat)) (s1 s2 : List Nat)
    (h1 : Interleaving ts s1) (h2 : Interleaving ts s2) : runSchedule w init s1 = runSchedule w init s2 := by
  rw [C18_interleaving_sum w init hi ts s1 h1, C18_interleaving_sum w init hi ts s2 h2]

/-- the source register is truncated to the width: adding `v` and adding `v mod 2^w` are the same step -/
theorem C18_truncates (w word v : Nat) : addStep w word v = addStep w word (v % 2 ^ w) := by
  simp [addStep]

/-- a misaligned atomic add is an interpreter error that leaves the state (hence memory) unchanged -/
theorem C18_misaligned_refused (env : Env) (s : State) (addr : BitVec 64) (w : Nat) (v : BitVec 64)
    (hin : checkMem s.mem env.allowed addr w = true) (hm : addr.toNat % w ≠ 0) :
    Interp.xadd env s addr w v = .err .unaligned s := by
  simp [Interp.xadd, hin, hm]

/-- an aligned, admitted atomic add is one read-modify-write of exactly the `w` addressed bytes: the new bytes are the
    little-endian encoding of old + v (mod 2^(8w)) -/
theorem C18_xadd_step (env : Env) (s s' : State) (addr : BitVec 64) (w : Nat) (v : BitVec 64)
    (h : Interp.xadd env s addr w v = .next s') :
    ∃ bs m, s.mem.readBytes? addr.toNat w = some bs ∧
      s.mem.writeBytes? addr.toNat (leBytes (leValue bs + v.toNat) w) = some m ∧ s' = { s with mem := m } := by
  unfold Interp.xadd at h
  split at h
  · split at h
    · split at h
      · rename_i bs hb
        split at h
        · rename_i m hm
          cases h
          exact ⟨bs, m, hb, hm, rfl⟩
        · cases h
      · cases h
    · cases h
  · cases h

-- non-vacuity: two threads, three adds, both orders of a concrete interleaving give 0xfffffffe + 1 + 2 + 3 mod 2^32 = 4
example : Interleaving [[1, 2], [3]] [1, 3, 2] :=
  .move [] [[3]] 1 [2] [3, 2] (.move [[2]] [] 3 [] [2] (.move [] [[]] 2 [] [] (.done _ (by simp))))
example : runSchedule 32 0xfffffffe [1, 3, 2] = 4 := by decide
example : runSchedule 32 0xfffffffe [3, 2, 1] = 4 := by decide

end Rbpf
