/-
  C02 — the interpreter confines every load, store and atomic add to the program's own memory.
  Only property theorems and their non-vacuity examples live here; helper lemmas are in
  `Lemmas/MemLemmas.lean`.
-/
import RbpfModel.Model.Access
import RbpfModel.Lemmas.MemLemmas
namespace Rbpf

/-- host regions do not end at the very top of the address space (true of any real allocation) -/
def RegionsOk (m : Memory) (allowed : List (Nat × Nat)) : Prop :=
  m.mbuff.base + m.mbuff.bytes.size < 2^64 ∧ m.mem.base + m.mem.bytes.size < 2^64 ∧
  m.stack.base + m.stack.bytes.size < 2^64 ∧ ∀ r ∈ allowed, r.2 < 2^64

/-- the bounds test admits an access iff all its bytes are in the program's own memory — any width,
    any address incl. 0, wrap-around (addr + w ≥ 2^64), empty regions -/
theorem C02_checkMem_iff (m : Memory) (allowed : List (Nat × Nat)) (addr : BitVec 64) (w : Nat)
    (h : RegionsOk m allowed) : checkMem m allowed addr w = true ↔ OwnMemory m allowed addr.toNat w :=
  checkMem_iff m allowed addr w h.1 h.2.1 h.2.2.1 h.2.2.2

/-- every access instruction (ldx/st/stx/xadd/ldabs/ldind × 1,2,4,8 bytes) outside own memory is
    refused with an error, and the refused access changed nothing: the error carries the state
    unchanged.  (`hsrc`: in the model `stx`/`xadd` read the source register before the bounds test, so
    a source field ≥ 11 panics first; see `C02_refused_any` for the statement without it.) -/
theorem C02_refused (env : Env) (s : State) (insn : Insn) (k : AccessKind) (a : BitVec 64) (w : Nat)
    (hacc : access? s insn = some (k, a, w)) (hr : RegionsOk s.mem env.allowed)
    (hpkt : s.mem.mem.base + 2^32 < 2^64) (hsrc : insn.src.toNat < 11)
    (hno : ¬ OwnMemory s.mem env.allowed a.toNat w) : Interp.exec env s insn = .err .oob s := by
  obtain ⟨_, _, hex⟩ := exec_of_access env s insn k a w hacc hpkt
  have hck : checkMem s.mem env.allowed a w = false := by
    rw [← Bool.not_eq_true, C02_checkMem_iff _ _ _ _ hr]; exact hno
  cases k with
  | load => obtain ⟨dst, _, he⟩ := hex; rw [he]; exact load_refused env s a w dst hck
  | store =>
    rcases hex with ⟨v, he⟩ | ⟨_, h11⟩
    · rw [he]; exact store_refused env s a w v hck
    · omega
  | atomic =>
    rcases hex with ⟨v, he⟩ | ⟨_, h11⟩
    · rw [he]; exact xadd_refused env s a w v hck
    · omega

/-- without any assumption on the register fields: an access outside own memory is never performed —
    the outcome is the out-of-bounds error with the state unchanged, or (source field ≥ 11) a panic -/
theorem C02_refused_any (env : Env) (s : State) (insn : Insn) (k : AccessKind) (a : BitVec 64) (w : Nat)
    (hacc : access? s insn = some (k, a, w)) (hr : RegionsOk s.mem env.allowed)
    (hpkt : s.mem.mem.base + 2^32 < 2^64)
    (hno : ¬ OwnMemory s.mem env.allowed a.toNat w) :
    Interp.exec env s insn = .err .oob s ∨ (Interp.exec env s insn = .panic ∧ 11 ≤ insn.src.toNat) := by
  by_cases hsrc : insn.src.toNat < 11
  · exact Or.inl (C02_refused env s insn k a w hacc hr hpkt hsrc hno)
  · obtain ⟨_, _, hex⟩ := exec_of_access env s insn k a w hacc hpkt
    have hck : checkMem s.mem env.allowed a w = false := by
      rw [← Bool.not_eq_true, C02_checkMem_iff _ _ _ _ hr]; exact hno
    cases k with
    | load => obtain ⟨dst, _, he⟩ := hex; rw [he]; exact Or.inl (load_refused env s a w dst hck)
    | store =>
      rcases hex with ⟨v, he⟩ | h
      · rw [he]; exact Or.inl (store_refused env s a w v hck)
      · exact Or.inr h
    | atomic =>
      rcases hex with ⟨v, he⟩ | h
      · rw [he]; exact Or.inl (xadd_refused env s a w v hck)
      · exact Or.inr h

/-- an access wholly inside own memory is never refused as out of bounds and never panics
    (register fields in range, as the verifier guarantees); an atomic add that is misaligned is the
    only other error, and it also leaves the state unchanged -/
theorem C02_admitted (env : Env) (s : State) (insn : Insn) (k : AccessKind) (a : BitVec 64) (w : Nat)
    (hacc : access? s insn = some (k, a, w)) (hr : RegionsOk s.mem env.allowed)
    (hpkt : s.mem.mem.base + 2^32 < 2^64)
    (hregs : insn.dst.toNat < 11 ∧ insn.src.toNat < 11)
    (hyes : OwnMemory s.mem env.allowed a.toNat w) :
    (∀ s', Interp.exec env s insn ≠ .err .oob s') ∧ Interp.exec env s insn ≠ .panic ∧
    (∀ e s', Interp.exec env s insn = .err e s' → e = .unaligned ∧ k = .atomic ∧ a.toNat % w ≠ 0 ∧ s' = s) := by
  obtain ⟨_, _, hex⟩ := exec_of_access env s insn k a w hacc hpkt
  have hck : checkMem s.mem env.allowed a w = true := (C02_checkMem_iff _ _ _ _ hr).2 hyes
  cases k with
  | load =>
    obtain ⟨dst, hd, he⟩ := hex
    have hd : dst < 11 := by rcases hd with rfl | rfl <;> omega
    rw [he]
    rcases load_cases env s a w dst hck hd with ⟨_, h⟩ | ⟨bs, _, h⟩ <;> rw [h] <;> simp
  | store =>
    rcases hex with ⟨v, he⟩ | ⟨_, h11⟩
    · rw [he]
      rcases store_cases env s a w v hck with ⟨_, h⟩ | ⟨m, _, h⟩ <;> rw [h] <;> simp
    · omega
  | atomic =>
    rcases hex with ⟨v, he⟩ | ⟨_, h11⟩
    · rw [he]
      rcases xadd_cases env s a w v hck with ⟨hal, h⟩ | ⟨_, ⟨_, h⟩ | ⟨bs, _, ⟨_, h⟩ | ⟨m, _, h⟩⟩⟩ <;> rw [h]
      · refine ⟨by simp, by simp, ?_⟩
        intro e s' heq
        cases heq
        exact ⟨rfl, rfl, hal, rfl⟩
      all_goals simp
    · omega

/-- inside one of the three buffers the access is really performed: never `.fault` -/
theorem C02_backed (env : Env) (s : State) (insn : Insn) (k : AccessKind) (a : BitVec 64) (w : Nat)
    (hacc : access? s insn = some (k, a, w)) (hr : RegionsOk s.mem env.allowed)
    (hpkt : s.mem.mem.base + 2^32 < 2^64)
    (hregs : insn.dst.toNat < 11 ∧ insn.src.toNat < 11)
    (hin : Contained a.toNat w s.mem.mbuff ∨ Contained a.toNat w s.mem.mem ∨ Contained a.toNat w s.mem.stack) :
    Interp.exec env s insn ≠ .fault := by
  obtain ⟨_, _, hex⟩ := exec_of_access env s insn k a w hacc hpkt
  have hyes : OwnMemory s.mem env.allowed a.toNat w := by
    rcases hin with h | h | h
    · exact Or.inl h
    · exact Or.inr (Or.inl h)
    · exact Or.inr (Or.inr (Or.inl h))
  have hck : checkMem s.mem env.allowed a w = true := (C02_checkMem_iff _ _ _ _ hr).2 hyes
  obtain ⟨rb, hrb⟩ := readBytes?_isSome s.mem a.toNat w hin
  have hwb : ∀ v, ∃ m', s.mem.writeBytes? a.toNat (leBytes v w) = some m' := fun v =>
    writeBytes?_isSome s.mem a.toNat (leBytes v w) (by rw [leBytes_length]; exact hin)
  cases k with
  | load =>
    obtain ⟨dst, hd, he⟩ := hex
    have hd : dst < 11 := by rcases hd with rfl | rfl <;> omega
    rw [he]
    rcases load_cases env s a w dst hck hd with ⟨hn, _⟩ | ⟨bs, _, h⟩
    · rw [hrb] at hn; cases hn
    · rw [h]; simp
  | store =>
    rcases hex with ⟨v, he⟩ | ⟨_, h11⟩
    · rw [he]
      rcases store_cases env s a w v hck with ⟨hn, _⟩ | ⟨m, _, h⟩
      · obtain ⟨m', hm'⟩ := hwb v.toNat; rw [hm'] at hn; cases hn
      · rw [h]; simp
    · omega
  | atomic =>
    rcases hex with ⟨v, he⟩ | ⟨_, h11⟩
    · rw [he]
      rcases xadd_cases env s a w v hck with ⟨_, h⟩ | ⟨_, ⟨hn, _⟩ | ⟨bs, _, ⟨hn, _⟩ | ⟨m, _, h⟩⟩⟩
      · rw [h]; simp
      · rw [hrb] at hn; cases hn
      · obtain ⟨m', hm'⟩ := hwb (leValue bs + v.toNat); rw [hm'] at hn; cases hn
      · rw [h]; simp
    · omega

/-- a load changes no memory — and nothing else but its destination register (`r0` for
    `ldabs`/`ldind`), which receives the little-endian value of the `w` bytes at `a`, zero-extended -/
theorem C02_load_pure (env : Env) (s s' : State) (insn : Insn) (a : BitVec 64) (w : Nat)
    (hacc : access? s insn = some (.load, a, w)) (hpkt : s.mem.mem.base + 2^32 < 2^64)
    (hnext : Interp.exec env s insn = .next s') :
    s'.mem = s.mem ∧
    ∃ dst bs, (dst = 0 ∨ dst = insn.dst.toNat) ∧ s.mem.readBytes? a.toNat w = some bs ∧
      s' = { s with reg := s.reg.setIfInBounds dst (BitVec.ofNat 64 (leValue bs)) } := by
  obtain ⟨_, _, dst, hd, he⟩ := exec_of_access env s insn .load a w hacc hpkt
  rw [he] at hnext
  unfold Interp.load at hnext
  split at hnext
  · split at hnext
    · rename_i bs hbs
      unfold Interp.wr at hnext
      split at hnext
      · cases hnext
        exact ⟨rfl, dst, bs, hd, hbs, rfl⟩
      · cases hnext
    · cases hnext
  · cases hnext

/-- a store / atomic add changes no byte outside `[a, a+w)` — every single-byte read at an address `b`
    outside the interval gives what it gave before — leaves every region's base and size unchanged,
    and changes nothing else in the state -/
theorem C02_store_frame (env : Env) (s s' : State) (insn : Insn) (k : AccessKind) (a : BitVec 64) (w : Nat)
    (hacc : access? s insn = some (k, a, w)) (hk : k ≠ .load) (hpkt : s.mem.mem.base + 2^32 < 2^64)
    (hnext : Interp.exec env s insn = .next s') :
    (∀ b, b < a.toNat ∨ a.toNat + w ≤ b → s'.mem.readBytes? b 1 = s.mem.readBytes? b 1) ∧
    s'.mem.regions.map (fun r => (r.base, r.bytes.size)) = s.mem.regions.map (fun r => (r.base, r.bytes.size)) ∧
    s'.reg = s.reg ∧ s'.pc = s.pc ∧ s'.frames = s.frames ∧ s'.usage = s.usage ∧ s'.log = s.log := by
  obtain ⟨_, _, hex⟩ := exec_of_access env s insn k a w hacc hpkt
  have fin : ∀ v m, s.mem.writeBytes? a.toNat (leBytes v w) = some m → s' = { s with mem := m } →
      (∀ b, b < a.toNat ∨ a.toNat + w ≤ b → s'.mem.readBytes? b 1 = s.mem.readBytes? b 1) ∧
      s'.mem.regions.map (fun r => (r.base, r.bytes.size)) = s.mem.regions.map (fun r => (r.base, r.bytes.size)) ∧
      s'.reg = s.reg ∧ s'.pc = s.pc ∧ s'.frames = s.frames ∧ s'.usage = s.usage ∧ s'.log = s.log := by
    intro v m hm hs'
    subst hs'
    refine ⟨fun b hb => ?_, writeBytes?_shape _ _ _ _ hm, rfl, rfl, rfl, rfl, rfl⟩
    exact writeBytes?_read_frame _ _ _ _ hm b (by rw [leBytes_length]; exact hb)
  cases k with
  | load => exact absurd rfl hk
  | store =>
    rcases hex with ⟨v, he⟩ | ⟨hp, _⟩
    · rw [he] at hnext
      unfold Interp.store at hnext
      split at hnext
      · split at hnext
        · rename_i m hm
          cases hnext
          exact fin _ m hm rfl
        · cases hnext
      · cases hnext
    · rw [hp] at hnext; cases hnext
  | atomic =>
    rcases hex with ⟨v, he⟩ | ⟨hp, _⟩
    · rw [he] at hnext
      unfold Interp.xadd at hnext
      split at hnext
      · split at hnext
        · split at hnext
          · split at hnext
            · rename_i m hm
              cases hnext
              exact fin _ m hm rfl
            · cases hnext
          · cases hnext
        · cases hnext
      · cases hnext
    · rw [hp] at hnext; cases hnext

/-- widths: `accessWidth` is 1,2,4,8 for the b,h,w,dw opcodes of ldabs, ldind, ldx, st, stx (and 4, 8
    for the two atomic adds) -/
theorem C02_widths :
    (∀ opc ∈ [0x30#8, 0x50#8, 0x71#8, 0x72#8, 0x73#8], accessWidth opc = 1) ∧
    (∀ opc ∈ [0x28#8, 0x48#8, 0x69#8, 0x6a#8, 0x6b#8], accessWidth opc = 2) ∧
    (∀ opc ∈ [0x20#8, 0x40#8, 0x61#8, 0x62#8, 0x63#8, 0xc3#8], accessWidth opc = 4) ∧
    (∀ opc ∈ [0x38#8, 0x58#8, 0x79#8, 0x7a#8, 0x7b#8, 0xdb#8], accessWidth opc = 8) := by
  decide

/-- these 22 opcodes are all the access instructions, and the width `access?` reports is that table's -/
theorem C02_access_opcodes (s : State) (insn : Insn) (k : AccessKind) (a : BitVec 64) (w : Nat)
    (hacc : access? s insn = some (k, a, w)) :
    insn.opc.toNat ∈ [0x20, 0x28, 0x30, 0x38, 0x40, 0x48, 0x50, 0x58, 0x61, 0x69, 0x71, 0x79,
                      0x62, 0x6a, 0x72, 0x7a, 0x63, 0x6b, 0x73, 0x7b, 0xc3, 0xdb] ∧
    w = accessWidth insn.opc ∧ (w = 1 ∨ w = 2 ∨ w = 4 ∨ w = 8) := by
  refine ⟨access_some_opc s insn _ hacc, ?_⟩
  simp only [access?] at hacc
  have hw : accessWidth insn.opc = 1 ∨ accessWidth insn.opc = 2 ∨ accessWidth insn.opc = 4 ∨
      accessWidth insn.opc = 8 := by
    unfold accessWidth; split <;> simp
  suffices w = accessWidth insn.opc by rw [this]; exact ⟨rfl, hw⟩
  repeat' split at hacc
  all_goals first
    | (cases hacc; rfl)
    | (simp only [Option.map_eq_some_iff, Prod.mk.injEq] at hacc
       obtain ⟨_, _, _, _, h⟩ := hacc; exact h.symm)
    | cases hacc

/-! ### non-vacuity: the hypotheses of each theorem hold on a concrete machine
    (`Ex.state`: packet `01..08` at 0x2000 in r1, stack 0x3000..0x3200, r10 = 0x3200) -/

theorem C02_ex_regionsOk : RegionsOk Ex.state.mem Ex.env.allowed := by
  simp [RegionsOk, Ex.state, Ex.mem, Ex.env, Interp.init]

-- `ldxw r0, [r1+4]`: the last four packet bytes; admitted, backed, performed
example : Interp.exec Ex.env Ex.state ⟨0x61, 0, 1, 4, 0⟩ ≠ .panic :=
  (C02_admitted Ex.env Ex.state ⟨0x61, 0, 1, 4, 0⟩ .load 0x2004#64 4 (by decide +kernel) C02_ex_regionsOk
    (by decide +kernel) (by decide)
    (Or.inr (Or.inl (by simp [Contained, Ex.state, Ex.mem, Interp.init])))).2.1
example : Interp.exec Ex.env Ex.state ⟨0x61, 0, 1, 4, 0⟩ ≠ .fault :=
  C02_backed Ex.env Ex.state ⟨0x61, 0, 1, 4, 0⟩ .load 0x2004#64 4 (by decide +kernel) C02_ex_regionsOk
    (by decide +kernel) (by decide) (Or.inr (Or.inl (by simp [Contained, Ex.state, Ex.mem, Interp.init])))
example : ∃ s', Interp.exec Ex.env Ex.state ⟨0x61, 0, 1, 4, 0⟩ = .next s' ∧ s'.reg[0]? = some 0x08070605#64 :=
  ⟨_, rfl, by decide +kernel⟩
-- `ldxw r0, [r1+5]`: the fourth byte is one past the packet; refused
example : Interp.exec Ex.env Ex.state ⟨0x61, 0, 1, 5, 0⟩ = .err .oob Ex.state :=
  C02_refused Ex.env Ex.state ⟨0x61, 0, 1, 5, 0⟩ .load 0x2005#64 4 (by decide +kernel) C02_ex_regionsOk
    (by decide +kernel) (by decide) (by simp [OwnMemory, Contained, Ex.state, Ex.mem, Ex.env, Interp.init])
-- `ldxb r0, [r1-0x2000]`: address 0; refused
example : Interp.exec Ex.env Ex.state ⟨0x71, 0, 1, 0xe000, 0⟩ = .err .oob Ex.state :=
  C02_refused Ex.env Ex.state ⟨0x71, 0, 1, 0xe000, 0⟩ .load 0#64 1 (by decide +kernel) C02_ex_regionsOk
    (by decide +kernel) (by decide) (by simp [OwnMemory, Contained, Ex.state, Ex.mem, Ex.env, Interp.init])
-- `stxw [r10-4], r1`: top stack slot; performed, and the byte below the slot is unchanged
set_option maxRecDepth 8192 in
example : ∃ s', Interp.exec Ex.env Ex.state ⟨0x63, 10, 1, 0xfffc, 0⟩ = .next s' ∧
    s'.mem.readBytes? 0x31fc 4 = some [0x00, 0x20, 0, 0] ∧
    s'.mem.readBytes? 0x31fb 1 = Ex.state.mem.readBytes? 0x31fb 1 :=
  ⟨_, rfl, by decide +kernel,
    (C02_store_frame Ex.env Ex.state _ ⟨0x63, 10, 1, 0xfffc, 0⟩ .store 0x31fc#64 4 (by decide +kernel)
      (by decide) (by decide +kernel) rfl).1 0x31fb (Or.inl (by decide))⟩
-- `stxw [r10-3], r1`: one byte above the stack; refused
example : Interp.exec Ex.env Ex.state ⟨0x63, 10, 1, 0xfffd, 0⟩ = .err .oob Ex.state :=
  C02_refused Ex.env Ex.state ⟨0x63, 10, 1, 0xfffd, 0⟩ .store 0x31fd#64 4 (by decide +kernel) C02_ex_regionsOk
    (by decide +kernel) (by decide) (by simp [OwnMemory, Contained, Ex.state, Ex.mem, Ex.env, Interp.init])
-- `xaddw [r10-6], r1`: inside the stack but misaligned; the one other error, state unchanged
set_option maxRecDepth 8192 in
example : Interp.exec Ex.env Ex.state ⟨0xc3, 10, 1, 0xfffa, 0⟩ = .err .unaligned Ex.state := rfl
example : ∀ e s', Interp.exec Ex.env Ex.state ⟨0xc3, 10, 1, 0xfffa, 0⟩ = .err e s' → e = .unaligned ∧ s' = Ex.state :=
  fun e s' h =>
    have := (C02_admitted Ex.env Ex.state ⟨0xc3, 10, 1, 0xfffa, 0⟩ .atomic 0x31fa#64 4 (by decide +kernel)
      C02_ex_regionsOk (by decide +kernel) (by decide)
      (Or.inr (Or.inr (Or.inl (by simp [Contained, Ex.state, Ex.mem, Interp.init]))))).2.2 e s' h
    ⟨this.1, this.2.2.2⟩
-- `ldabsb 7`: the last packet byte; `ldabsb 8`: refused
example : ∃ s', Interp.exec Ex.env Ex.state ⟨0x30, 0, 0, 0, 7⟩ = .next s' ∧ s'.reg[0]? = some 8#64 :=
  ⟨_, rfl, by decide +kernel⟩
example : Interp.exec Ex.env Ex.state ⟨0x30, 0, 0, 0, 8⟩ = .err .oob Ex.state :=
  C02_refused Ex.env Ex.state ⟨0x30, 0, 0, 0, 8⟩ .load 0x2008#64 1 (by decide +kernel) C02_ex_regionsOk
    (by decide +kernel) (by decide) (by simp [OwnMemory, Contained, Ex.state, Ex.mem, Ex.env, Interp.init])

end Rbpf
