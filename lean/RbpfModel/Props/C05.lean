/-
  C05 — a program accepted by the verifier never makes the interpreter panic: for any input memory, any
  registered helpers, any number of steps.  Only the definitions used in the statements, the property
  theorems and their non-vacuity examples live here; the proofs are in `Lemmas/SafetyLemmas.lean`.
-/
import RbpfModel.Model.Interp
import RbpfModel.Model.Verifier
import RbpfModel.Model.WellFormed
import RbpfModel.Lemmas.SafetyLemmas
namespace Rbpf

/-- what is assumed about the host addresses the buffers live at (true of any user-space allocation):
    the stack sits at least 2^20 above 0 and below 2^63, the packet base leaves room for a 32-bit offset -/
def HostOk (m : Memory) : Prop :=
  2 ^ 20 ≤ m.stack.base ∧ m.stack.base + m.stack.bytes.size < 2 ^ 63 ∧ m.mem.base + 2 ^ 32 < 2 ^ 64

/-- frame sizes come from a u16-valued calculator -/
def UsageOk (env : Env) : Prop := ∀ pc u, env.usage pc = some u → u < 65536

/-- the invariant: pc is an instruction start, every saved return address is an instruction start,
    at most 8 frames, every recorded frame size is a u16, r10 = stack top − Σ frame sizes of the active callers -/
def Safe (env : Env) (top : Nat) (s : State) : Prop :=
  s.pc ∈ starts env.prog ∧ (∀ f ∈ s.frames, f.ret ∈ starts env.prog) ∧ s.frames.length ≤ 8 ∧
  (∀ k, k < 8 → ∀ u, s.usage[k]? = some u → u < 65536) ∧
  (∃ r10, s.reg[10]? = some r10 ∧
    r10.toNat + ((List.range s.frames.length).map (fun k => (s.usage[k]?).getD 0)).sum = top)

/-- the state after `n` steps, if the run gets that far (`none`: it ended, or was stopped, earlier) -/
def stateAt (env : Env) (s : State) : Nat → Option State
  | 0 => some s
  | n + 1 =>
    match stateAt env s n with
    | some t =>
      match Interp.step env t with
      | .next t' => some t'
      | _ => none
    | none => none

/-- the invariant holds initially -/
theorem C05_safe_init (env : Env) (m : Memory) (hc : Verifier.check env.prog = .ok) (hm : HostOk m) :
    Safe env (m.stack.base + m.stack.bytes.size) (Interp.init m) :=
  init_startInv env m hc hm.2.1

/-- a step that continues keeps the invariant (and the packet's host address) -/
theorem C05_safe_step (env : Env) (top : Nat) (s s' : State) (hc : Verifier.check env.prog = .ok)
    (hu : UsageOk env) (htop : 2 ^ 20 ≤ top ∧ top < 2 ^ 63) (hmem : s.mem.mem.base + 2 ^ 32 < 2 ^ 64)
    (hs : Safe env top s) (h : Interp.step env s = .next s') :
    Safe env top s' ∧ s'.mem.mem.base = s.mem.mem.base :=
  (step_good env top s hc hu htop hmem hs).of_next h

/-- under the invariant a step does not panic -/
theorem C05_step_no_panic (env : Env) (top : Nat) (s : State) (hc : Verifier.check env.prog = .ok)
    (hu : UsageOk env) (htop : 2 ^ 20 ≤ top ∧ top < 2 ^ 63) (hmem : s.mem.mem.base + 2 ^ 32 < 2 ^ 64)
    (hs : Safe env top s) : Interp.step env s ≠ .panic :=
  (step_good env top s hc hu htop hmem hs).ne_panic

/-- C05: an accepted program never panics the interpreter — any input, any helpers, any number of steps -/
theorem C05_no_panic (env : Env) (m : Memory) (fuel : Nat) (hc : Verifier.check env.prog = .ok)
    (hu : UsageOk env) (hm : HostOk m) : Interp.run env (Interp.init m) fuel ≠ .panic :=
  run_ne_panic env (m.stack.base + m.stack.bytes.size) hc hu ⟨by have := hm.1; omega, hm.2.1⟩ fuel
    (Interp.init m) hm.2.2 (C05_safe_init env m hc hm)

/-- and it only ever executes real instructions: every executed pc is an instruction start of the program
    (never the second half of a wide load, never outside the program) -/
theorem C05_pc_is_start (env : Env) (m : Memory) (n : Nat) (s : State) (hc : Verifier.check env.prog = .ok)
    (hu : UsageOk env) (hm : HostOk m) (h : stateAt env (Interp.init m) n = some s) :
    s.pc ∈ starts env.prog := by
  have htop : 2 ^ 20 ≤ m.stack.base + m.stack.bytes.size ∧ m.stack.base + m.stack.bytes.size < 2 ^ 63 :=
    ⟨by have := hm.1; omega, hm.2.1⟩
  suffices hsuf : Safe env (m.stack.base + m.stack.bytes.size) s ∧ s.mem.mem.base = m.mem.base from hsuf.1.1
  induction n generalizing s with
  | zero =>
    cases h
    exact ⟨C05_safe_init env m hc hm, rfl⟩
  | succ n ih =>
    rw [stateAt] at h
    cases ht : stateAt env (Interp.init m) n with
    | none => simp [ht] at h
    | some t =>
      obtain ⟨hst, hb⟩ := ih t ht
      rw [ht] at h
      cases hstep : Interp.step env t with
      | next t' =>
        simp only [hstep] at h
        cases h
        have hmem : t.mem.mem.base + 2 ^ 32 < 2 ^ 64 := by rw [hb]; exact hm.2.2
        obtain ⟨h1, h2⟩ := C05_safe_step env _ t s hc hu htop hmem hst hstep
        exact ⟨h1, by rw [h2, hb]⟩
      | done r t' => simp [hstep] at h
      | err e t' => simp [hstep] at h
      | panic => simp [hstep] at h
      | fault => simp [hstep] at h

/-! ### non-vacuity -/

/-- an environment as the harness builds it: no helpers, no extra ranges, the default 256-byte frames -/
private def exEnv (p : Bytes) : Env :=
  { prog := p, helpers := fun _ => none, allowed := [], usage := Interp.stackUsage p none }
/-- empty metadata buffer, a 4-byte packet, the 512-byte stack, at typical user-space addresses -/
private def exMem : Memory :=
  { mbuff := ⟨0x7f0000001000, #[]⟩, mem := ⟨0x7f0000002000, #[1, 2, 3, 4]⟩,
    stack := ⟨0x7f0000003000, Array.replicate 512 0⟩, extra := [] }
/-- `call +2; exit; ja +0; lddw r0, 7; exit` — a local call, a wide load, a jump -/
private def exProg : Bytes :=
  #[0x85,0x10,0,0,2,0,0,0, 0x95,0,0,0,0,0,0,0, 0x05,0,0,0,0,0,0,0, 0x18,0,0,0,7,0,0,0, 0,0,0,0,0,0,0,0,
    0x95,0,0,0,0,0,0,0]
private def r0? : Interp.Result → Option (BitVec 64)
  | .done r _ => some r
  | _ => none
private def isPanic : Interp.Result → Bool
  | .panic => true
  | _ => false

-- the hypotheses of C05 are satisfiable: the frame sizes of `stackUsage` (no calculator, or any u16-valued
-- one) satisfy `UsageOk`, the example memory satisfies `HostOk`, the example program is accepted
example (p : Bytes) (c : Option (Nat → Nat)) (hcalc : ∀ f, c = some f → ∀ pc, f pc < 65536) :
    UsageOk { exEnv p with usage := Interp.stackUsage p c } := by
  intro pc u h
  simp only [Interp.stackUsage, Interp.usageOf] at h
  split at h
  · cases h
    cases c with
    | none => show 256 < 65536; decide
    | some f => exact hcalc f rfl pc
  · cases h
private theorem exUsageOk (p : Bytes) : UsageOk (exEnv p) := by
  intro pc u h
  simp only [exEnv, Interp.stackUsage, Interp.usageOf] at h
  split at h <;> cases h
  decide
private theorem exHostOk : HostOk exMem := by unfold HostOk; decide +kernel
private theorem exCheck : Verifier.check exProg = .ok := check_ok_of_wellFormed (by decide +kernel)

-- C05 applies to the example, and the run does end with r0 = 7 after call, lddw, exit, exit
example (fuel : Nat) : Interp.run (exEnv exProg) (Interp.init exMem) fuel ≠ .panic :=
  C05_no_panic _ _ fuel exCheck (exUsageOk _) exHostOk
example : r0? (Interp.run (exEnv exProg) (Interp.init exMem) 10) = some 7 := by decide +kernel
example : (stateAt (exEnv exProg) (Interp.init exMem) 1).map (·.pc) = some 3 := by decide +kernel
example : (stateAt (exEnv exProg) (Interp.init exMem) 2).map (·.pc) = some 5 := by decide +kernel
example : (stateAt (exEnv exProg) (Interp.init exMem) 3).map (·.pc) = some 1 := by decide +kernel
-- the verifier's acceptance is needed: programs it refuses do panic the interpreter model —
-- a lone `mov r0, 0` runs off the end, `mov r11, 0; exit` indexes past the register file,
-- `ja -2; exit` jumps to a negative slot, `be r0, 8; exit` has no arm for width 8
example : Verifier.check (#[0xb7,0,0,0,0,0,0,0] : Bytes) = .err ∧
    isPanic (Interp.run (exEnv #[0xb7,0,0,0,0,0,0,0]) (Interp.init exMem) 2) = true := by decide +kernel
example : Verifier.check (#[0xb7,0x0b,0,0,0,0,0,0, 0x95,0,0,0,0,0,0,0] : Bytes) = .err ∧
    isPanic (Interp.run (exEnv #[0xb7,0x0b,0,0,0,0,0,0, 0x95,0,0,0,0,0,0,0]) (Interp.init exMem) 1) = true := by
  decide +kernel
example : Verifier.check (#[0x05,0,0xfe,0xff,0,0,0,0, 0x95,0,0,0,0,0,0,0] : Bytes) = .err ∧
    isPanic (Interp.run (exEnv #[0x05,0,0xfe,0xff,0,0,0,0, 0x95,0,0,0,0,0,0,0]) (Interp.init exMem) 1) = true := by
  decide +kernel
example : Verifier.check (#[0xdc,0,0,0,8,0,0,0, 0x95,0,0,0,0,0,0,0] : Bytes) = .err ∧
    isPanic (Interp.run (exEnv #[0xdc,0,0,0,8,0,0,0, 0x95,0,0,0,0,0,0,0]) (Interp.init exMem) 1) = true := by
  decide +kernel

end Rbpf
