/- The emitter functions of src/jit.rs that are sequences of other emitter calls, the prologue and the epilogue of `jit_compile`, as translated on every run
   (Generated/JitArms.lean, second part), are the byte-level model's (`Model/JitEmit.lean`). -/
import RbpfModel.Generated.JitArms
namespace Rbpf
open Rbpf.JitEmit Rbpf.Generated.Jit

theorem JitSeq_translated : seqFnsSrcOk = true := by decide

/-- `REGISTER_MAP` -/
theorem JitSeq_registerMap : registerMapSrc = registerMap := by decide

private theorem mr (k : Nat) : mapRegSrc k = registerMap.getD k 0 := rfl

/-- twenty emitter functions: each is the model's, for all arguments -/
theorem JitSeq_fns (e : Em) (op src dst r m code target : Nat) (imm targetPc : Int) :
    emitModrmReg2regSrc e r m = emitModrmReg2reg e r m ∧ emitPushSrc e r = emitPush e r ∧ emitPopSrc e r = emitPop e r ∧
    emitAlu32Src e op src dst = emitAlu32 e op src dst ∧ emitAlu32Imm32Src e op src dst imm = emitAlu32Imm32 e op src dst imm ∧
    emitAlu32Imm8Src e op src dst imm = emitAlu32Imm8 e op src dst imm ∧ emitAlu64Src e op src dst = emitAlu64 e op src dst ∧
    emitAlu64Imm32Src e op src dst imm = emitAlu64Imm32 e op src dst imm ∧ emitAlu64Imm8Src e op src dst imm = emitAlu64Imm8 e op src dst imm ∧
    emitMovSrc e src dst = emitMov e src dst ∧ emitCmpImm32Src e dst imm = emitCmpImm32 e dst imm ∧ emitCmpSrc e src dst = emitCmp e src dst ∧
    emitCmp32Imm32Src e dst imm = emitCmp32Imm32 e dst imm ∧ emitCmp32Src e src dst = emitCmp32 e src dst ∧
    emitLoadImmSrc e dst imm = emitLoadImm e dst imm ∧ emitCallSrc e target = emitCall e target ∧
    emitJccSrc e code targetPc = emitJcc e code targetPc ∧ emitJmpSrc e targetPc = emitJmp e targetPc ∧
    emitLocalCallSrc e targetPc = emitLocalCall e targetPc := by
  refine ⟨rfl, rfl, rfl, rfl, rfl, rfl, rfl, rfl, rfl, rfl, rfl, rfl, rfl, rfl, ?_, rfl, rfl, rfl, rfl⟩
  unfold emitLoadImmSrc emitLoadImm
  split <;> rfl

/-- `emit_load_packet` (the immediate is an `i32`) -/
theorem JitSeq_loadPacket (e : Em) (size base : Nat) (imm : Int) (h : -2147483648 ≤ imm ∧ imm ≤ 2147483647) :
    emitLoadPacketSrc e size base imm = emitLoadPacket e size base imm := by
  unfold emitLoadPacketSrc emitLoadPacket
  split
  · rfl
  · have : ((u32 imm : Nat) : Int) = imm + 2 ^ 32 := by unfold u32; omega
    simp only [this]

/-- prologue (for each of the three VM configurations) and epilogue -/
theorem JitSeq_prologue (useMbuff updateDataPtr : Bool) : prologueSrc useMbuff updateDataPtr = prologue useMbuff updateDataPtr := by
  cases useMbuff <;> cases updateDataPtr <;> rfl

theorem JitSeq_epilogue (e : Em) : epilogueSrc e = epilogue e := rfl

/-- the byte-level primitives: ModRM and displacement forms, REX prefixes, `emit_load`, `emit_store`, `emit_store_imm32`, direct jumps and the jump record —
    the shapes are recognised as wholes, the constants (opcode bytes, masks, field positions, the disp8 range) come from the source -/
theorem JitSeq_prims (e : Em) (modrm r m w x b src dst size code off' : Nat) (d off imm targetPc : Int) :
    primsSrcOk = true ∧
    emitModrmSrc e modrm r m = emitModrm e modrm r m ∧ emitModrmAndDisplacementSrc e r m d = emitModrmAndDisplacement e r m d ∧
    rexWouldSetBitsSrc w src dst = rexWouldSetBits w src dst ∧ emitRexSrc e w r x b = emitRex e w r x b ∧
    emitBasicRexSrc e w src dst = emitBasicRex e w src dst ∧ emitLoadSrc e size src dst off = emitLoad e size src dst off ∧
    emitStoreSrc e size src dst off = emitStore e size src dst off ∧ emitStoreImm32Src e size dst off imm = emitStoreImm32 e size dst off imm ∧
    emitDirectJccSrc e code off' = emitDirectJcc e code off' ∧ emitJumpOffsetSrc e targetPc = emitJumpOffset e targetPc :=
  ⟨by decide, rfl, rfl, rfl, rfl, rfl, rfl, rfl, rfl, rfl, rfl⟩

/-- `emit_muldivmod`: the flags computed from the opcode, the two early returns (constant divisor 0), the run-time zero test of a register divisor with its
    fixed-distance jump, the save / load / divide / restore sequence -/
theorem JitSeq_muldivmod (e : Em) (pc opc src dst : Nat) (imm : Int) : emitMuldivmodSrc e pc opc src dst imm = emitMuldivmod e pc opc src dst imm := by
  unfold emitMuldivmodSrc emitMuldivmod
  simp only [and_assoc]

/-- `resolve_jumps` (target location = the anchor of a special target, else `pc_locs[target]`; rel32 = target - (field + 4), written into the field; nothing written
    in the size-only pass), the std `JitMemory::new` (size-only pass; buffer = `round_up_to_page(max(size, PAGE_SIZE))`; second pass; `resolve_jumps`) and
    `round_up_to_page` have the shapes the model's `resolveJumps` / `compile` / `bufferSize` mirror; the page size is the model's -/
theorem JitSeq_shapes : emitBytesShape = true ∧ resolveJumpsShape = true ∧ jitMemoryNewShape = true ∧ jitMemoryNewNoStdShape = true ∧ roundUpShape = true ∧ pageSizeSrc = 4096 ∧
    (∀ n, bufferSize n = ((max n pageSizeSrc) + (pageSizeSrc - 1)) / pageSizeSrc * pageSizeSrc) := by
  refine ⟨by decide, by decide, by decide, by decide, by decide, by decide, ?_⟩
  intro n; rfl

end Rbpf
