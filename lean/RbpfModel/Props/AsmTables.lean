/- The assembler's tables as translated from src/assembler.rs on every run (Generated/AsmTables.lean) coincide with the
   hand-written model the C13 theorems are about. -/
import RbpfModel.Generated.AsmTables
namespace Rbpf
open Rbpf.Asm Rbpf.Generated

/-- the translator understood all three functions -/
theorem AsmTables_translated : instructionMapSrcOk = true ∧ mkInsnSrcOk = true ∧ encodeSrcOk = true := by decide

/-- `make_instruction_map`, executed symbolically from the source, performs exactly the model's insertions in the model's order -/
theorem AsmTables_map : instructionMapSrc = Asm.instructionMap := by decide +kernel

/-- `insn(..)`: same range checks in the same order, same casts -/
theorem AsmTables_insn (opc : Nat) (dst src off imm : Int) : mkInsnSrc opc dst src off imm = Asm.mkInsn opc dst src off imm := by
  unfold mkInsnSrc Asm.mkInsn
  repeat' split
  all_goals first | rfl | omega

theorem shl32sar32_eq (imm : Int) : shl32sar32 imm = Asm.low32s imm := by
  unfold shl32sar32 Asm.low32s
  rw [BitVec.toInt_sshiftRight, BitVec.toInt_shiftLeft, BitVec.toInt_ofInt, BitVec.toNat_ofInt]
  simp only [Int.shiftRight_eq_div_pow, Int.bmod_def, Nat.shiftLeft_eq]
  omega

/-- `encode`: same rows in the same order, same arguments to `insn` -/
theorem AsmTables_encode (t : InstType) (opc : Nat) (ops : List Operand) : encodeSrc t opc ops = Asm.encode t opc ops := by
  unfold encodeSrc Asm.encode
  split <;> simp [AsmTables_insn, shl32sar32_eq]

/-- the loops around the tables (`assemble_internal`, `operands_tuple`, the head of `encode`, `assemble`) have the shape the model's `assembleInternal` / `assemble` mirror
    (recognised as a whole by the translator: any other text makes a flag false) -/
theorem AsmTables_shape : assembleLoopShape = true ∧ operandsTupleShape = true ∧ encodeHeadShape = true ∧ assembleTopShape = true := by decide

/-- the numeric meaning of integer literals (`asm_parser.rs::integer`, its final `and_then`): for a `u64` magnitude the model's `applySign` is the source's if-chain —
    hexadecimal literals are 64-bit patterns with the sign applied by `wrapping_mul`, decimal ones are range-checked against `i64` (2^63 only when negated) -/
theorem AsmTables_integer (neg : Bool) (m : Nat) (isHex : Bool) (hm : m < 2 ^ 64) :
    integerFinalSrc (if neg then -1 else 1) m isHex = applySign neg m isHex := by
  have em : ∀ a b : Int, a.emod b = a % b := fun _ _ => rfl
  unfold integerFinalSrc applySign u64ToI64 wrapI64 u64ToI64
  cases neg <;> cases isHex <;> simp [em] <;> (repeat' split) <;> first | rfl | omega | (simp_all; omega) | simp_all

theorem AsmTables_parserShapes : integerFinalSrcOk = true ∧ parserStructureShape = true ∧ signShape = true ∧ hexParseShape = true ∧ decParseShape = true ∧ registerParseShape = true := by decide

end Rbpf
