/- The pure parts of src/helpers.rs as translated on every run (Generated/HelperFns.lean) are the model's functions (what C19's theorems are about). -/
import RbpfModel.Generated.HelperFns
namespace Rbpf
open Rbpf.Helpers Rbpf.Generated.HelperFns

theorem HelperFns_translated : gatherBytesSrcOk = true ∧ printfSrcOk = true ∧ memfrobSrcOk = true ∧ randRangeSrcOk = true ∧ strcmpSrcOk = true ∧ sqrtiSrcOk = true ∧ sqrtiShape = true := by decide

/-- `gather_bytes`: the source's expression (`wrapping_shl` masks the count to the width) is the model's -/
theorem HelperFns_gather (a1 a2 a3 a4 a5 : BitVec 64) : gatherBytesSrc a1 a2 a3 a4 a5 = gatherBytes a1 a2 a3 a4 a5 := by
  have e32 : BitVec.toNat (32 : BitVec 32) % 64 = 32 := by simp
  have e24 : BitVec.toNat (24 : BitVec 32) % 64 = 24 := by simp
  have e16 : BitVec.toNat (16 : BitVec 32) % 64 = 16 := by simp
  have e8 : BitVec.toNat (8 : BitVec 32) % 64 = 8 := by simp
  simp only [gatherBytesSrc, gatherBytes, e32, e24, e16, e8]

/-- `bpf_trace_printf`: the text it writes … -/
theorem HelperFns_printfText (a3 a4 a5 : Nat) : printfTextSrc a3 a4 a5 = printfText a3 a4 a5 := by
  unfold printfText printfTextSrc
  have e1 : "bpf_trace_printf: 0x".toList = ['b', 'p', 'f', '_', 't', 'r', 'a', 'c', 'e', '_', 'p', 'r', 'i', 'n', 't', 'f', ':', ' ', '0', 'x'] := by simp
  have e2 : ", 0x".toList = [',', ' ', '0', 'x'] := by simp
  rw [e1, e2]
  simp only [List.append_assoc, List.cons_append, List.nil_append]

/-- … and the value it returns -/
theorem HelperFns_printfRet (a3 a4 a5 : Nat) : printfRetSrc a3 a4 a5 = printfRet a3 a4 a5 := by
  have h : ∀ x, sizeArgSrc x = hexLen x := by
    intro x; unfold sizeArgSrc hexLen; split <;> first | rfl | (congr 1)
  simp only [printfRetSrc, printfRet, h, List.length_cons, List.length_nil]

/-- `memfrob`'s XOR constant -/
theorem HelperFns_memfrobKey : memfrobKeySrc = 0x2a := by decide

/-- `rand`'s range reduction -/
theorem HelperFns_randRange (n min max : Nat) (hmax : max < 2 ^ 64) : randRangeSrc n min max = randRange n min max := by
  unfold randRangeSrc randRange
  split
  · simp only []
    split <;> split <;> first | rfl | omega
  · rfl

/-- `strcmp`: the null test with its value, and one step of the comparison loop — where the source's loop continues the model recurses, where it stops the model returns the source's result -/
theorem HelperFns_strcmp (p1 p2 : Nat) (s1 s2 : List (BitVec 8)) (x y : BitVec 8) (xs ys : List (BitVec 8)) :
    strcmp p1 p2 s1 s2 = (if strcmpNullSrc p1 p2 then some strcmpNullValueSrc else strcmpBytes s1 s2) ∧
    strcmpBytes (x :: xs) (y :: ys) = (if strcmpContinueSrc x y then strcmpBytes xs ys else some (strcmpResultSrc x y)) := by
  constructor
  · unfold strcmp strcmpNullSrc strcmpNullValueSrc
    by_cases h : p1 = 0 ∨ p2 = 0 <;> simp [h]
  · unfold strcmpContinueSrc strcmpResultSrc
    simp only [strcmpBytes]
    by_cases h1 : x = y
    · subst h1
      by_cases h2 : x = 0 <;> simp [h2]
    · simp [h1]

end Rbpf
