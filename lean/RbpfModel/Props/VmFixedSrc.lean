/- The fixed-metadata VM's buffer handling in src/lib.rs as translated on every run (Generated/VmFixed.lean) is the model's (`Vm.fixedBufLen`, `Vm.fixedPrepare`: what the
   C09 / C10 theorems and every fixed-kind case of the exec and api suites use). -/
import RbpfModel.Generated.VmFixed
namespace Rbpf
open Rbpf.Vm Rbpf.Generated.VmFixed

theorem VmFixedSrc_translated : prepareSrcOk = true ∧ newShape = true ∧ setProgramShape = true := by decide

/-- the buffer `new` and `set_program` allocate -/
theorem VmFixedSrc_bufLen (d e : Nat) : fixedBufLenSrc d e = fixedBufLen d e := by
  unfold fixedBufLenSrc fixedBufLen; split <;> rfl

/-- both slots always fit the buffer that was allocated for them: the size test of `execute_program` never fails -/
theorem VmFixedSrc_fits (d e : Nat) : fixedFitsSrc (fixedBufLenSrc d e) d e = true := by
  unfold fixedFitsSrc fixedBufLenSrc; split <;> simp <;> omega

/-- the two writes: packet start at `data_offset` first, then packet end at `data_end_offset` (interpreter path and Cranelift path alike) -/
theorem VmFixedSrc_prepare (buf : Bytes) (d e memBase memLen : Nat) : fixedPrepareSrc buf d e memBase memLen = fixedPrepare buf d e memBase memLen := rfl

/-- which prologue configuration each VM kind compiles with (std and no_std paths alike; the no-data VM delegates to the raw one) — the table the driver
    and `C03_x86_*` / `C09` use: metadata VM (true, false), fixed-metadata VM (true, true), raw and no-data VMs (false, false) — and how the kinds without a
    metadata buffer reach the interpreter (an empty metadata buffer; for the no-data VM an empty packet as well: `Vm.memOf`) -/
theorem VmFixedSrc_kinds : jitFlagsSrc = [("EbpfVmMbuff", true, false), ("EbpfVmFixedMbuff", true, true), ("EbpfVmRaw", false, false)] ∧
    mbuffPassShape = true ∧ rawPassShape = true ∧ noDataPassShape = true := by decide

end Rbpf
