/- The API methods of `EbpfVmMbuff` (src/lib.rs) as translated on every run (Generated/VmApi.lean: each method's statements in source order, as effects on the VM state)
   behave as the state machine `Vm.step` that the C10 theorems (and C07–C09, C12 through the api suite) are about. -/
import RbpfModel.Generated.VmApi
namespace Rbpf
open Rbpf.Vm Rbpf.VmSrc Rbpf.Generated.VmApi

theorem VmApiSrc_translated : vmApiSrcOk = true ∧ delegationShape = true ∧ notCompiledShape = true ∧ registerAllowedShape = true := by decide

/-- the frame-size table follows the program and the calculator in every method -/
theorem VmApiSrc_usageKept : usageKept setProgramSrc = true ∧ usageKept setVerifierSrc = true ∧ usageKept registerHelperSrc = true ∧
    usageKept setCalcSrc = true ∧ usageKept jitCompileSrc = true ∧ usageKept clifCompileSrc = true := by decide

/-- `set_program` (metadata / raw / no-data VMs: no offsets): verify with the verifier in force first, then replace the program and drop compiled code -/
theorem VmApiSrc_setProgram (w : World) (s : VmState) (p : Bytes) (hf : s.fixed = none) :
    run w { prog := p } s setProgramSrc = step w s (.setProgram p none) := by
  simp only [setProgramSrc, run, step]
  split
  · cases hs : s.fixed <;> simp_all
  · rfl

theorem VmApiSrc_setVerifier (w : World) (s : VmState) (v : VerifierId) :
    run w { verifier := v } s setVerifierSrc = step w s (.setVerifier v) := by
  simp only [setVerifierSrc, run, step]
  cases s.prog <;> simp <;> split <;> rfl

theorem VmApiSrc_registerHelper (w : World) (s : VmState) (id fn : Nat) :
    run w { helperId := id, helperFn := fn } s registerHelperSrc = step w s (.registerHelper id fn) := by
  simp [registerHelperSrc, run, step]

theorem VmApiSrc_setCalc (w : World) (s : VmState) (c : Nat) :
    run w { calcArg := c } s setCalcSrc = step w s (.setCalc c) := by
  simp [setCalcSrc, run, step]

theorem VmApiSrc_jitCompile (w : World) (s : VmState) : run w {} s jitCompileSrc = step w s .jitCompile := by
  simp only [jitCompileSrc, run, step]
  cases s.prog <;> simp <;> split <;> rfl

theorem VmApiSrc_clifCompile (w : World) (s : VmState) : run w {} s clifCompileSrc = step w s .clifCompile := by
  simp only [clifCompileSrc, run, step]
  cases s.prog <;> simp <;> split <;> rfl

end Rbpf
