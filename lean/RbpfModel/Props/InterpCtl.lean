/-
  The model's interpreter loop (`Interp.step`: list of live frames, immediate panic on a negative target) is a correct
  abstraction of the control skeleton of `execute_program` as translated from the current source
  (`Generated/InterpCtl.lean`: array of frames and an index, wrapped `usize` arithmetic, overflow checks of a debug build).
-/
import RbpfModel.Lemmas.InterpCtlAux
namespace Rbpf
open Rbpf.Src Rbpf.Generated.Ctl

/-- the translator understood every piece of the skeleton -/
theorem InterpCtl_translated :
    loopCondSrcOk = true ∧ afterLoopSrcOk = true ∧ headerSrcOk = true ∧ doJumpSrcOk = true ∧ lddwArmSrcOk = true ∧
    callArmSrcOk = true ∧ tailCallArmSrcOk = true ∧ exitArmSrcOk = true ∧ defaultArmSrcOk = true := by decide

/-- the opcodes the four control arms are attached to are the model's, and none of them is one of the 119 other arms -/
theorem InterpCtl_opcodes : opcLdDw = 0x18 ∧ opcCall = 0x85 ∧ opcTailCall = 0x8d ∧ opcExit = 0x95 ∧
    isOther opcLdDw = false ∧ isOther opcCall = false ∧ isOther opcTailCall = false ∧ isOther opcExit = false := by decide

/-- one iteration: for every environment and every source state satisfying the loop invariant, the translated iteration
    and the model's step agree up to `abs` (see `RelOut` for the one-iteration delay of the wrapped-target panic) -/
theorem InterpCtl_step (env : Env) (σ : St) (hsz : env.prog.size < 2 ^ 63) (h : Inv σ) :
    RelOut (stepSrc env σ) (Interp.step env (abs σ)) := Src.stepSrc_rel env σ hsz h

/-- a wrapped `insn_ptr` is refused by the next loop test -/
theorem InterpCtl_wrapped (env : Env) (σ : St) (h : 2 ^ 63 ≤ σ.insnPtr) : stepSrc env σ = .panic := Src.stepSrc_wrapped env σ h

/-- `do_jump` against the model's `jumpTo` -/
theorem InterpCtl_doJump (insn : Insn) (σ : St) (h : σ.insnPtr < 2 ^ 62) :
    ∃ σ', doJumpSrc insn σ = .ok () σ' ∧ σ'.reg = σ.reg ∧ σ'.idx = σ.idx ∧ σ'.stacks = σ.stacks ∧ σ'.mem = σ.mem ∧ σ'.log = σ.log ∧
      σ'.insnPtr < 2 ^ 64 ∧
      (if (σ.insnPtr : Int) + insn.off.toInt < 0 then 2 ^ 63 ≤ σ'.insnPtr
       else Interp.jumpTo (abs σ) ((σ.insnPtr : Int) + insn.off.toInt) = .next (abs σ')) := Src.doJumpSrc_rel insn σ h

/-- whole runs: whenever the model's run ends (result, error, panic or fault) within `fuel` iterations, the translated
    loop ends the same way within `fuel + 1` -/
theorem InterpCtl_run (env : Env) (σ : St) (hsz : env.prog.size < 2 ^ 63) (h : Inv σ) (fuel : Nat)
    (hm : ∀ s, Interp.run env (abs σ) fuel ≠ .timeout s) :
    RelRes (runSrc env σ (fuel + 1)) (Interp.run env (abs σ) fuel) := Src.runSrc_rel env σ hsz h fuel hm

/-- the initial locals abstract to the model's initial state and satisfy the invariant -/
theorem InterpCtl_init (m : Memory) : abs (initSrc m) = Interp.init m ∧ Inv (initSrc m) := Src.initSrc_abs m

/-- the set-up of the locals before the loop, as translated: the registers (`initSrc` takes them from `Interp.init`), the fresh frames and the stack size are the source's -/
theorem InterpCtl_locals (m : Memory) : initSrcOk = true ∧ (initSrc m).reg = initRegsSrc m ∧ (initSrc m).stacks = Vector.replicate 8 initFrameSrc ∧ stackSizeSrc = 512 := by
  refine ⟨by decide, ?_, rfl, by decide⟩
  simp only [initSrc, Interp.init, initRegsSrc]
  apply Vector.ext
  intro i hi
  simp only [Vector.getElem_setIfInBounds]
  have e1 : ∀ a b : Nat, (a = b) = (b = a) := fun a b => propext ⟨Eq.symm, Eq.symm⟩
  by_cases h1 : 1 = i <;> by_cases h10 : 10 = i <;> simp_all <;> omega

end Rbpf
