/-
  The checks decide "inside C03's claim" per case with the taint run of `Model/Taint.lean` (registers other than r1/r10
  undefined until written, stack bytes undefined until written, r1 … r5 undefined after a helper call, addresses usable
  as addresses but not as results).  This file proves that decision sound for the hypothesis the machine-code
  theorems need: a run the taint analysis accepts does not depend on what the undefined registers hold nor on what
  helper calls leave in r1 … r5 — `ClobIndep`.  So `C03_x86_calls` applies to every case the checks compare.
  Proofs of the lemmas: `Lemmas/TaintLemmas.lean`.
-/
import RbpfModel.Model.Taint
import RbpfModel.Props.C03x86
import RbpfModel.Lemmas.TaintLemmas
namespace Rbpf
open Rbpf.JitSim

/-- **the in-claim decision is sound.**  If the taint run of the interpreter model from the initial state returns a
    value with `inClaim = true` (and the program has no eBPF-to-eBPF call and no F7 instruction), then every run of
    the compiled code's register-transfer semantics — from any values of r0, r2 … r9, with any values left in r1 … r5 by
    helper calls — returns the same value, leaves the same packet / metadata / registered ranges and makes the same
    helper calls. -/
theorem C03_taint_sound (env : Env) (m : Memory) (fuel : Nat) (ptrSlots patched : List Nat) (t : Taint.TState)
    (r0 : BitVec 64) (sfin : State)
    (hl : NoLocalCall env.prog) (h7 : NoF7 env.prog)
    (hrun : Taint.run env ptrSlots patched fuel (Taint.init m) = (t, .done r0 sfin)) (hin : t.inClaim = true) :
    ClobIndep env m fuel :=
  taint_clobIndep env m fuel ptrSlots patched t r0 sfin hl h7 hrun hin

end Rbpf
