/-
  The checks decide "inside C03's claim" per case with the taint run of `Model/Taint.lean` (registers other than r1/r10
  undefined until written, stack bytes undefined until written, r1 … r5 undefined after a helper call, addresses usable
  as addresses but not as results).  This file proves that decision sound for the hypothesis the machine-code
  theorems need: a run the taint analysis accepts does not depend on what the undefined registers hold nor on what
  helper calls leave in r1 … r5 — `ClobIndep`.  So `C03_x86_calls` applies to every case the checks compare.
  Proofs of the lemmas: `Lemmas/TaintLemmas.lean`.
-/
import RbpfModel.Model.Taint
import RbpfModel.Props.C03x86
import RbpfModel.Lemmas.TaintLemmas
namespace Rbpf
open Rbpf.JitSim

/-- **the in-claim decision is sound.**  If the taint run of the interpreter model from the initial state returns a
    value with `inClaim = true` (and the program has no eBPF-to-eBPF call and no F7 instruction), then every run of
    the compiled code's register-transfer semantics — from any values of r0, r2 … r9, with any values left in r1 … r5 by
    helper calls — returns the same value, leaves the same packet / metadata / registered ranges and makes the same
    helper calls.
    `hdisj`: the private stack shares no byte with the metadata buffer nor with the packet (no access of one byte or
    more lies inside the stack and inside one of the other two).  It holds of real memory, where the three regions are
    separate allocations; the model's `readBytes?` / `writeBytes?` would serve such an access from the metadata buffer
    or the packet, not from the stack the tags speak about (witness without it: `mbuff = ⟨1504, 8 bytes⟩`,
    `stack = ⟨1000, 512 bytes⟩`, `stx dw [r10-8], r2; mov r0, 0; exit` — accepted, yet the metadata buffer ends up
    holding the undefined r2). -/
theorem C03_taint_sound (env : Env) (m : Memory) (fuel : Nat) (ptrSlots patched : List Nat) (t : Taint.TState)
    (r0 : BitVec 64) (sfin : State)
    (hl : NoLocalCall env.prog) (h7 : NoF7 env.prog)
    (hdisj : ∀ a w, 0 < w → m.stack.contains a w = true → m.mbuff.contains a w = false ∧ m.mem.contains a w = false)
    (hrun : Taint.run env ptrSlots patched fuel (Taint.init m) = (t, .done r0 sfin)) (hin : t.inClaim = true) :
    ClobIndep env m fuel :=
  taint_clobIndep env m fuel ptrSlots patched t r0 sfin hl h7 hdisj hrun hin

/-- **machine code = interpreter on every case the checks call in-claim.**  `C03_x86_calls` with its semantic
    independence hypothesis discharged by the taint run: for an accepted program without eBPF-to-eBPF calls and F7
    instructions, if the taint run of the interpreter model returns `r0` with `inClaim = true`, then the
    emitter model's machine code, entered under the calling convention with any garbage in the registers the convention
    does not fix and any garbage left by helpers in the caller-saved registers, returns `r0`, leaves packet / metadata /
    registered ranges as the interpreter leaves them, makes the interpreter's helper calls in order with the stack
    aligned, and restores the callee-saved registers. -/
theorem C03_x86_inclaim (env : Env) (haddr : Nat → Option Nat) (um : Bool) (c : X86.Cfg) (locs : Array Nat) (ex : Nat)
    (m : Memory) (σ : X86.St) (fuel : Nat) (ptrSlots patched : List Nat) (t : Taint.TState) (r0 : BitVec 64) (sfin : State)
    (hacc : Verifier.check env.prog = .ok)
    (hcomp : JitEmit.compileWithLayout env.prog haddr um false = .ok (c.code, locs, ex))
    (hext : ExtOk c env haddr)
    (hl : NoLocalCall env.prog) (h7 : NoF7 env.prog)
    (hbase : c.codeBase + c.code.size < 2 ^ 63)
    (hsent : c.retSentinel.toNat < c.codeBase ∨ c.codeBase + c.code.size ≤ c.retSentinel.toNat)
    (he : Entry c m σ) (hlog : σ.log = []) (halign : m.stack.base % 16 = 0)
    (hpkt : m.mem.bytes.size = 0 → m.mem.base = 0) (hum : um = false → m.mbuff.bytes.size = 0)
    (hdisj : ∀ a w, 0 < w → m.stack.contains a w = true → m.mbuff.contains a w = false ∧ m.mem.contains a w = false)
    (hrun : Taint.run env ptrSlots patched fuel (Taint.init m) = (t, .done r0 sfin)) (hin : t.inClaim = true) :
    ∃ k σ' s', Interp.run env (Interp.init m) fuel = .done r0 s' ∧
      X86.run c σ k = .done r0 σ' ∧ DataRel σ'.mem s'.mem ∧
      σ'.get 3 = σ.get 3 ∧ σ'.get 5 = σ.get 5 ∧ σ'.get 13 = σ.get 13 ∧ σ'.get 14 = σ.get 14 ∧ σ'.get 15 = σ.get 15 ∧
      (σ'.get X86.RSP).toNat = (σ.get X86.RSP).toNat + 8 ∧
      σ'.log.map (·.2) = s'.log.map (·.2) ∧ σ'.misaligned = σ.misaligned := by
  have hindep := C03_taint_sound env m fuel ptrSlots patched t r0 sfin hl h7 hdisj hrun hin
  have hint : Interp.run env (Interp.init m) fuel = .done r0 sfin := taint_run_interp env ptrSlots patched fuel (Taint.init m) t r0 sfin hrun
  obtain ⟨k, σ', h⟩ := C03_x86_calls env haddr um c locs ex m σ fuel r0 sfin hacc hcomp hext hl h7 hbase hsent he hlog halign
    hpkt hum hindep hint
  exact ⟨k, σ', sfin, hint, h⟩

end Rbpf
