/-
  C03 at the level of machine code — the x86-64 JIT's output, executed by the x86-64 machine model, returns what
  the interpreter returns.

  Chain of theorems (all about models; each model is tied to the real code / the real processor by the per-run
  correspondence checks, DESIGN.md §4):

    JitEmit.compileWithLayout p = ok (code, …)          byte-exact emitter model (= the real JIT's bytes, hook)
      ⟹  JitAst.validate p code = true                  `compile_validates_partial`   (Lemmas/X86Enc)
      ⟹  X86.run on code  ≃  EngineSem.jitRun           `jit_call_to_return`          (Lemmas/X86Sim)
      ⟹  ≃ Interp.run                                    `C03_run`                     (Props/C03)

  Scope: programs all of whose instructions are arithmetic, byte swaps, wide loads, mul/div/mod, jumps, loads, stores,
  atomic adds, packet loads or `exit` (`Covered`: no helper calls, no eBPF-to-eBPF calls), VM kinds whose metadata
  buffer is the caller's or absent (`EbpfVmMbuff`, `EbpfVmRaw`, `EbpfVmNoData`).  Only the property-level statements
  and their non-vacuity examples live here.
-/
import RbpfModel.Lemmas.X86Sim.Entry
import RbpfModel.Lemmas.X86Sim.EntryC
import RbpfModel.Lemmas.X86Sim.EntryFixed
import RbpfModel.Lemmas.X86Sim.EntryD
import RbpfModel.Lemmas.X86Sim.CoveredOfCheck
import RbpfModel.Lemmas.X86Enc.Layout
import RbpfModel.Lemmas.X86Enc.Targets
import RbpfModel.Lemmas.X86Enc.Size
import RbpfModel.Props.C03
namespace Rbpf
open Rbpf.JitSim Rbpf.JitEnc

/-- packet, metadata buffer and registered ranges are the same in two memories (the private stack may differ) -/
def SameData (a b : Memory) : Prop := a.mbuff = b.mbuff ∧ a.mem = b.mem ∧ a.extra = b.extra

/-- the machine's memory holds exactly the packet, metadata and registered ranges of `m`, between its native frame and
    the native stack below it -/
def DataRel (xm : List Region) (m : Memory) : Prop :=
  ∃ frame lower : Region, xm = frame :: m.mbuff :: m.mem :: (m.extra ++ [lower])

theorem DataRel.of_memRel {xm : List Region} {a b : Memory} (h : MemRel xm a) (hs : SameData a b) : DataRel xm b := by
  obtain ⟨frame, lower, hx, _⟩ := h
  obtain ⟨h1, h2, h3⟩ := hs
  exact ⟨frame, lower, by rw [hx, h1, h2, h3]⟩

/-- C03's exclusion "results that depend on a never-written register", stated semantically: whatever r0, r2 … r9 hold
    at entry (compiled code does not zero them; the interpreter starts them at 0), the run returns the same value and
    leaves the same packet, metadata and registered ranges -/
def RegIndep (env : Env) (m : Memory) (fuel : Nat) : Prop :=
  ∀ s : State, s.pc = 0 → s.frames = [] → s.mem = m → s.log = [] →
    s.reg[1]? = (Interp.init m).reg[1]? → s.reg[10]? = (Interp.init m).reg[10]? →
    ∀ r0 a, EngineSem.jitRun env (Interp.init m) fuel = .done r0 a →
      ∃ b, EngineSem.jitRun env s fuel = .done r0 b ∧ SameData b.mem a.mem

/-- **machine code of the emitter model = interpreter.**  If the emitter model compiles `env.prog` to `c.code`, the
    program is covered, free of the F7 instructions, its jump targets are instruction starts, and its result does not
    depend on unwritten registers, then whenever the interpreter returns `r0`, the x86-64 machine entered at the first
    byte of `c.code` under the System V calling convention returns `r0` too, leaves packet, metadata and registered
    ranges exactly as the interpreter leaves them (`DataRel`), and restores rbx, rbp, r13, r14, r15 and rsp. -/
theorem C03_x86 (env : Env) (haddr : Nat → Option Nat) (um : Bool) (c : X86.Cfg) (locs : Array Nat) (ex : Nat)
    (m : Memory) (σ : X86.St) (fuel : Nat) (r0 : BitVec 64) (s' : State)
    (hcomp : JitEmit.compileWithLayout env.prog haddr um false = .ok (c.code, locs, ex))
    (hh : ∀ k a, haddr k = some a → a < 2 ^ 64)
    (ht : TargetsOk env.prog haddr) (hp : env.prog.size / 8 ≤ 1000000) (hsz : c.code.size < 2 ^ 31)
    (hcov : Covered env.prog) (hl : NoLocalCall env.prog) (h7 : NoF7 env.prog)
    (hbase : c.codeBase + c.code.size < 2 ^ 63)
    (hsent : c.retSentinel.toNat < c.codeBase ∨ c.codeBase + c.code.size ≤ c.retSentinel.toNat)
    (he : Entry c m σ)
    (hpkt : m.mem.bytes.size = 0 → m.mem.base = 0) (hum : um = false → m.mbuff.bytes.size = 0)
    (hindep : RegIndep env m fuel)
    (hint : Interp.run env (Interp.init m) fuel = .done r0 s') :
    ∃ k σ', X86.run c σ k = .done r0 σ' ∧ DataRel σ'.mem s'.mem ∧
      σ'.get 3 = σ.get 3 ∧ σ'.get 5 = σ.get 5 ∧ σ'.get 13 = σ.get 13 ∧ σ'.get 14 = σ.get 14 ∧ σ'.get 15 = σ.get 15 ∧
      (σ'.get X86.RSP).toNat = (σ.get X86.RSP).toNat + 8 := by
  -- the register-transfer semantics agree with the interpreter (C03_run)
  have hna : ∀ t, Interp.run env (Interp.init m) fuel ≠ .err .unaligned t := by
    intro t ht'; rw [hint] at ht'; cases ht'
  have hrel := C03_run env m fuel hl h7 hna
  rw [hint] at hrel
  obtain ⟨a, hja, hsame⟩ : ∃ a, EngineSem.jitRun env (Interp.init m) fuel = .done r0 a ∧ a.mem = s'.mem := by
    cases hj : EngineSem.jitRun env (Interp.init m) fuel with
    | done r a =>
      rw [hj] at hrel
      obtain ⟨hr, hs⟩ := hrel
      exact ⟨a, by rw [hr], hs.2.2.2.1⟩
    | err e a => rw [hj] at hrel; exact absurd hrel (by simp [ResultRel])
    | panic => rw [hj] at hrel; exact absurd hrel (by simp [ResultRel])
    | fault => rw [hj] at hrel; exact absurd hrel (by simp [ResultRel])
    | timeout a => rw [hj] at hrel; exact absurd hrel (by simp [ResultRel])
  -- … and do not depend on the registers compiled code leaves unset
  obtain ⟨h1, h10⟩ := entryState_r1_r10 c m σ um he hpkt hum
  obtain ⟨b, hjb, hbm⟩ := hindep (entryState m σ um) rfl rfl rfl rfl h1 h10 r0 a hja
  -- the emitter's output validates, hence the machine follows that run
  have hv := compile_validates_partial env.prog haddr um false c.code locs ex hcomp hh ht hsz hp
  obtain ⟨k, σ', hrun, hmem, hrest⟩ := jit_call_to_return env haddr um c { pcLocs := locs, exitLoc := ex } m σ fuel r0 b hv hcov hbase hsent he hjb
  refine ⟨k, σ', hrun, ?_, hrest⟩
  exact DataRel.of_memRel hmem ⟨by rw [hbm.1, hsame], by rw [hbm.2.1, hsame], by rw [hbm.2.2, hsame]⟩

/-- the same for programs the default verifier accepts: its verdict supplies the facts about jump targets and program
    length (`targetsOk_of_check`); what remains are the scope (`Covered`, no F7 instruction in any slot), the size of the
    generated code, the calling convention and the independence from unset registers -/
theorem C03_x86_accepted (env : Env) (haddr : Nat → Option Nat) (um : Bool) (c : X86.Cfg) (locs : Array Nat) (ex : Nat)
    (m : Memory) (σ : X86.St) (fuel : Nat) (r0 : BitVec 64) (s' : State)
    (hacc : Verifier.check env.prog = .ok)
    (hcomp : JitEmit.compileWithLayout env.prog haddr um false = .ok (c.code, locs, ex))
    (hh : ∀ k a, haddr k = some a → a < 2 ^ 64)
    (hcov : Covered env.prog) (hl : NoLocalCall env.prog) (h7 : NoF7 env.prog)
    (hbase : c.codeBase + c.code.size < 2 ^ 63)
    (hsent : c.retSentinel.toNat < c.codeBase ∨ c.codeBase + c.code.size ≤ c.retSentinel.toNat)
    (he : Entry c m σ)
    (hpkt : m.mem.bytes.size = 0 → m.mem.base = 0) (hum : um = false → m.mbuff.bytes.size = 0)
    (hindep : RegIndep env m fuel)
    (hint : Interp.run env (Interp.init m) fuel = .done r0 s') :
    ∃ k σ', X86.run c σ k = .done r0 σ' ∧ DataRel σ'.mem s'.mem ∧
      σ'.get 3 = σ.get 3 ∧ σ'.get 5 = σ.get 5 ∧ σ'.get 13 = σ.get 13 ∧ σ'.get 14 = σ.get 14 ∧ σ'.get 15 = σ.get 15 ∧
      (σ'.get X86.RSP).toNat = (σ.get X86.RSP).toNat + 8 :=
  have ht := targetsOk_of_check env.prog haddr hacc
  C03_x86 env haddr um c locs ex m σ fuel r0 s' hcomp hh ht.1 ht.2 (compile_size_lt _ _ _ _ _ _ _ hcomp ht.2) hcov hl h7 hbase hsent he hpkt hum hindep hint

/-- C12 at the level of machine code: what the emitter model writes for an accepted program is, byte for byte, a
    prologue, one well-formed x86-64 instruction sequence per eBPF instruction — each the one `JitAst.arm` prescribes,
    every jump and call landing on the first byte of an arm or of the epilogue — and the epilogue; nothing else is in
    the buffer, and every recorded location lies inside it -/
theorem C12_code_wellformed (p : Bytes) (haddr : Nat → Option Nat) (um ud : Bool) (code : Array UInt8) (locs : Array Nat) (ex : Nat)
    (hacc : Verifier.check p = .ok)
    (hcomp : JitEmit.compileWithLayout p haddr um ud = .ok (code, locs, ex))
    (hh : ∀ k a, haddr k = some a → a < 2 ^ 64) :
    JitAst.validate p haddr um ud code { pcLocs := locs, exitLoc := ex } = true ∧ code.size < 2 ^ 31 :=
  have ht := targetsOk_of_check p haddr hacc
  have hs := compile_size_lt p haddr um ud code locs ex hcomp ht.2
  ⟨compile_validates_partial p haddr um ud code locs ex hcomp hh ht.1 hs ht.2, hs⟩

/-- C03's exclusions "results that depend on a never-written register, or on r1 … r5 after a helper call", stated
    semantically: whatever r0, r2 … r9 hold at entry and whatever each helper call leaves in r1 … r5 (`clob`), the run
    returns the same value, leaves the same memory and makes the same helper calls -/
def ClobIndep (env : Env) (m : Memory) (fuel : Nat) : Prop :=
  ∀ (clob : Nat → Nat → BitVec 64) (s : State), s.pc = 0 → s.frames = [] → s.mem = m → s.log = [] →
    s.reg[1]? = (Interp.init m).reg[1]? → s.reg[10]? = (Interp.init m).reg[10]? →
    ∀ r0 a, EngineSem.jitRun env (Interp.init m) fuel = .done r0 a →
      ∃ b, jitRunC clob env s fuel = .done r0 b ∧ SameData b.mem a.mem ∧ b.log = a.log

/-- **machine code = interpreter, with helper calls** (and C08's clauses for the x86-64 JIT).  For an accepted program
    whose instructions are covered, `exit` or helper calls, compiled by the emitter model against helper addresses at
    which the machine finds the registered functions (`ExtOk`): whenever the interpreter returns `r0`, the machine
    returns `r0`, leaves packet / metadata / registered ranges as the interpreter leaves them, restores the callee-saved
    registers and rsp — and it has called the same helpers with the same five arguments in the same order as the
    interpreter (`σ'.log` against the interpreter's log), each time with rsp a multiple of 16 (no call counted as
    misaligned), provided the caller respected the ABI at entry (`m.stack.base % 16 = 0`, i.e. rsp + 8 ≡ 0 mod 16). -/
theorem C03_x86_calls (env : Env) (haddr : Nat → Option Nat) (um : Bool) (c : X86.Cfg) (locs : Array Nat) (ex : Nat)
    (m : Memory) (σ : X86.St) (fuel : Nat) (r0 : BitVec 64) (s' : State)
    (hacc : Verifier.check env.prog = .ok)
    (hcomp : JitEmit.compileWithLayout env.prog haddr um false = .ok (c.code, locs, ex))
    (hext : ExtOk c env haddr)
    (hl : NoLocalCall env.prog) (h7 : NoF7 env.prog)
    (hbase : c.codeBase + c.code.size < 2 ^ 63)
    (hsent : c.retSentinel.toNat < c.codeBase ∨ c.codeBase + c.code.size ≤ c.retSentinel.toNat)
    (he : Entry c m σ) (hlog : σ.log = []) (halign : m.stack.base % 16 = 0)
    (hpkt : m.mem.bytes.size = 0 → m.mem.base = 0) (hum : um = false → m.mbuff.bytes.size = 0)
    (hindep : ClobIndep env m fuel)
    (hint : Interp.run env (Interp.init m) fuel = .done r0 s') :
    ∃ k σ', X86.run c σ k = .done r0 σ' ∧ DataRel σ'.mem s'.mem ∧
      σ'.get 3 = σ.get 3 ∧ σ'.get 5 = σ.get 5 ∧ σ'.get 13 = σ.get 13 ∧ σ'.get 14 = σ.get 14 ∧ σ'.get 15 = σ.get 15 ∧
      (σ'.get X86.RSP).toNat = (σ.get X86.RSP).toNat + 8 ∧
      σ'.log.map (·.2) = s'.log.map (·.2) ∧ σ'.misaligned = σ.misaligned := by
  have hna : ∀ t, Interp.run env (Interp.init m) fuel ≠ .err .unaligned t := by
    intro t ht'; rw [hint] at ht'; cases ht'
  have hrel := C03_run env m fuel hl h7 hna
  rw [hint] at hrel
  obtain ⟨a, hja, hsame, hlogs⟩ : ∃ a, EngineSem.jitRun env (Interp.init m) fuel = .done r0 a ∧ a.mem = s'.mem ∧ a.log = s'.log := by
    cases hj : EngineSem.jitRun env (Interp.init m) fuel with
    | done r a =>
      rw [hj] at hrel
      obtain ⟨hr, hs⟩ := hrel
      exact ⟨a, by rw [hr], hs.2.2.2.1, hs.2.2.2.2⟩
    | err e a => rw [hj] at hrel; exact absurd hrel (by simp [ResultRel])
    | panic => rw [hj] at hrel; exact absurd hrel (by simp [ResultRel])
    | fault => rw [hj] at hrel; exact absurd hrel (by simp [ResultRel])
    | timeout a => rw [hj] at hrel; exact absurd hrel (by simp [ResultRel])
  obtain ⟨h1, h10⟩ := entryState_r1_r10 c m σ um he hpkt hum
  obtain ⟨b, hjb, hbm, hbl⟩ := hindep c.clobber (entryState m σ um) rfl rfl rfl rfl h1 h10 r0 a hja
  have ht := targetsOk_of_check env.prog haddr hacc
  have hv := compile_validates_partial env.prog haddr um false c.code locs ex hcomp hext.2 ht.1 (compile_size_lt _ _ _ _ _ _ _ hcomp ht.2) ht.2
  obtain ⟨k, σ', hrun, hmem, h3, h5, h13, h14, h15, hrsp, hlg, hmis⟩ :=
    jit_call_to_returnC env haddr um c { pcLocs := locs, exitLoc := ex } m σ fuel r0 b hv (coveredC_of_check env.prog hacc hl) hext hbase hsent he hlog halign hjb
  refine ⟨k, σ', hrun, ?_, h3, h5, h13, h14, h15, hrsp, ?_, hmis⟩
  · exact DataRel.of_memRel hmem ⟨by rw [hbm.1, hsame], by rw [hbm.2.1, hsame], by rw [hbm.2.2, hsame]⟩
  · rw [hlg, hbl, hlogs]

/-- **the fixed-metadata VM** (`EbpfVmFixedMbuff`: the prologue itself stores the packet pointer and the packet end at
    the two configured offsets of the VM's buffer).  Entered with the buffer in rdi, the packet in rdx/rcx and the
    offsets in r8/r9 (`EntryFixed`), the machine behaves as the interpreter does on the memory in which
    `EbpfVmFixedMbuff::execute_program` has written those two pointers (`preparedMem` = `Vm.fixedPrepare`): same value,
    same packet / buffer / registered ranges afterwards, same helper calls, none misaligned.  (C09's fixed-metadata
    clause for the x86-64 JIT: on every execution the buffer holds the two addresses, for every pair of offsets inside
    the buffer — overlapping or not — and every packet.) -/
theorem C03_x86_fixed (env : Env) (haddr : Nat → Option Nat) (c : X86.Cfg) (locs : Array Nat) (ex : Nat)
    (m : Memory) (d e : Nat) (σ : X86.St) (fuel : Nat) (r0 : BitVec 64) (s' : State)
    (hacc : Verifier.check env.prog = .ok)
    (hcomp : JitEmit.compileWithLayout env.prog haddr true true = .ok (c.code, locs, ex))
    (hext : ExtOk c env haddr)
    (hl : NoLocalCall env.prog) (h7 : NoF7 env.prog)
    (hbase : c.codeBase + c.code.size < 2 ^ 63)
    (hsent : c.retSentinel.toNat < c.codeBase ∨ c.codeBase + c.code.size ≤ c.retSentinel.toNat)
    (he : EntryFixed c m d e σ) (hlog : σ.log = []) (halign : m.stack.base % 16 = 0)
    (hindep : ClobIndep env (preparedMem m d e) fuel)
    (hint : Interp.run env (Interp.init (preparedMem m d e)) fuel = .done r0 s') :
    ∃ k σ', X86.run c σ k = .done r0 σ' ∧ DataRel σ'.mem s'.mem ∧
      σ'.get 3 = σ.get 3 ∧ σ'.get 5 = σ.get 5 ∧ σ'.get 13 = σ.get 13 ∧ σ'.get 14 = σ.get 14 ∧ σ'.get 15 = σ.get 15 ∧
      (σ'.get X86.RSP).toNat = (σ.get X86.RSP).toNat + 8 ∧
      σ'.log.map (·.2) = s'.log.map (·.2) ∧ σ'.misaligned = σ.misaligned := by
  have hna : ∀ t, Interp.run env (Interp.init (preparedMem m d e)) fuel ≠ .err .unaligned t := by
    intro t ht'; rw [hint] at ht'; cases ht'
  have hrel := C03_run env (preparedMem m d e) fuel hl h7 hna
  rw [hint] at hrel
  obtain ⟨a, hja, hsame, hlogs⟩ : ∃ a, EngineSem.jitRun env (Interp.init (preparedMem m d e)) fuel = .done r0 a ∧ a.mem = s'.mem ∧ a.log = s'.log := by
    cases hj : EngineSem.jitRun env (Interp.init (preparedMem m d e)) fuel with
    | done r a =>
      rw [hj] at hrel
      obtain ⟨hr, hs⟩ := hrel
      exact ⟨a, by rw [hr], hs.2.2.2.1, hs.2.2.2.2⟩
    | err e a => rw [hj] at hrel; exact absurd hrel (by simp [ResultRel])
    | panic => rw [hj] at hrel; exact absurd hrel (by simp [ResultRel])
    | fault => rw [hj] at hrel; exact absurd hrel (by simp [ResultRel])
    | timeout a => rw [hj] at hrel; exact absurd hrel (by simp [ResultRel])
  obtain ⟨h1, h10⟩ := entryStateFixed_r1_r10 c m d e σ he
  have hmemeq : (entryStateFixed m σ d e).mem = preparedMem m d e := by simp only [entryStateFixed, Interp.init]
  obtain ⟨b, hjb, hbm, hbl⟩ := hindep c.clobber (entryStateFixed m σ d e) (by simp only [entryStateFixed, Interp.init])
    (by simp only [entryStateFixed, Interp.init]) hmemeq (by simp only [entryStateFixed, Interp.init]) h1 h10 r0 a hja
  have ht := targetsOk_of_check env.prog haddr hacc
  have hv := compile_validates_partial env.prog haddr true true c.code locs ex hcomp hext.2 ht.1 (compile_size_lt _ _ _ _ _ _ _ hcomp ht.2) ht.2
  obtain ⟨k, σ', hrun, hmem, h3, h5, h13, h14, h15, hrsp, hlg, hmis⟩ :=
    jit_call_to_return_fixed env haddr c { pcLocs := locs, exitLoc := ex } m d e σ fuel r0 b hv (coveredC_of_check env.prog hacc hl) hext hbase hsent he hlog halign hjb
  refine ⟨k, σ', hrun, ?_, h3, h5, h13, h14, h15, hrsp, ?_, hmis⟩
  · exact DataRel.of_memRel hmem ⟨by rw [hbm.1, hsame], by rw [hbm.2.1, hsame], by rw [hbm.2.2, hsame]⟩
  · rw [hlg, hbl, hlogs]

/-- **Every accepted program: the machine code computes the JIT's register-transfer semantics.**  No restriction on
    the program beyond acceptance by the default verifier — arithmetic, jumps, memory, helper calls, eBPF-to-eBPF calls
    at any depth.  If the emitter model compiles `env.prog` to `c.code` and the machine is entered under the calling
    convention with room on the native stack for `D` nested calls, then every run of `jitRunC` (the semantics of
    `EngineSem`: sign-extended compare immediates, local calls that keep the frame pointer — findings F7 and F16 are
    properties of the machine code, not of a model of it —, helper calls clobbering r1 … r5) from `entryState` that
    returns `r0` within depth `D` is matched by the machine: it returns `r0`, leaves the eBPF-visible memory as that
    run leaves it, makes the same helper calls in the same order with an aligned stack, restores the callee-saved
    registers and pops the return address. -/
theorem C03_x86_jit_semantics (env : Env) (haddr : Nat → Option Nat) (um : Bool) (c : X86.Cfg) (locs : Array Nat) (ex : Nat)
    (m : Memory) (σ : X86.St) (D fuel : Nat) (r0 : BitVec 64) (s' : State)
    (hacc : Verifier.check env.prog = .ok)
    (hcomp : JitEmit.compileWithLayout env.prog haddr um false = .ok (c.code, locs, ex))
    (hext : ExtOk c env haddr)
    (hbase : c.codeBase + c.code.size < 2 ^ 63)
    (hsent : c.retSentinel.toNat < c.codeBase ∨ c.codeBase + c.code.size ≤ c.retSentinel.toNat)
    (he : Entry c m σ) (hlog : σ.log = []) (halign : m.stack.base % 16 = 0) (hroom : StackRoom σ m D)
    (hdepth : depthOk c.clobber env D (entryState m σ um) fuel)
    (hrun : jitRunC c.clobber env (entryState m σ um) fuel = .done r0 s') :
    ∃ k σ', X86.run c σ k = .done r0 σ' ∧ MemRel σ'.mem s'.mem ∧
      σ'.get 3 = σ.get 3 ∧ σ'.get 5 = σ.get 5 ∧ σ'.get 13 = σ.get 13 ∧ σ'.get 14 = σ.get 14 ∧ σ'.get 15 = σ.get 15 ∧
      (σ'.get X86.RSP).toNat = (σ.get X86.RSP).toNat + 8 ∧
      σ'.log.map (·.2) = s'.log.map (·.2) ∧ σ'.misaligned = σ.misaligned := by
  have ht := targetsOk_of_check env.prog haddr hacc
  have hv := compile_validates_partial env.prog haddr um false c.code locs ex hcomp hext.2 ht.1 (compile_size_lt _ _ _ _ _ _ _ hcomp ht.2) ht.2
  exact jit_call_to_returnD env haddr um c { pcLocs := locs, exitLoc := ex } m σ D fuel r0 s' hv (coveredD_of_check env.prog hacc)
    hext hbase hsent he hlog halign hroom hdepth hrun

/-- the same for the fixed-metadata VM -/
theorem C03_x86_jit_semantics_fixed (env : Env) (haddr : Nat → Option Nat) (c : X86.Cfg) (locs : Array Nat) (ex : Nat)
    (m : Memory) (d e : Nat) (σ : X86.St) (D fuel : Nat) (r0 : BitVec 64) (s' : State)
    (hacc : Verifier.check env.prog = .ok)
    (hcomp : JitEmit.compileWithLayout env.prog haddr true true = .ok (c.code, locs, ex))
    (hext : ExtOk c env haddr)
    (hbase : c.codeBase + c.code.size < 2 ^ 63)
    (hsent : c.retSentinel.toNat < c.codeBase ∨ c.codeBase + c.code.size ≤ c.retSentinel.toNat)
    (he : EntryFixed c m d e σ) (hlog : σ.log = []) (halign : m.stack.base % 16 = 0) (hroom : StackRoom σ m D)
    (hdepth : depthOk c.clobber env D (entryStateFixed m σ d e) fuel)
    (hrun : jitRunC c.clobber env (entryStateFixed m σ d e) fuel = .done r0 s') :
    ∃ k σ', X86.run c σ k = .done r0 σ' ∧ MemRel σ'.mem s'.mem ∧
      σ'.get 3 = σ.get 3 ∧ σ'.get 5 = σ.get 5 ∧ σ'.get 13 = σ.get 13 ∧ σ'.get 14 = σ.get 14 ∧ σ'.get 15 = σ.get 15 ∧
      (σ'.get X86.RSP).toNat = (σ.get X86.RSP).toNat + 8 ∧
      σ'.log.map (·.2) = s'.log.map (·.2) ∧ σ'.misaligned = σ.misaligned := by
  have ht := targetsOk_of_check env.prog haddr hacc
  have hv := compile_validates_partial env.prog haddr true true c.code locs ex hcomp hext.2 ht.1 (compile_size_lt _ _ _ _ _ _ _ hcomp ht.2) ht.2
  exact jit_call_to_return_fixedD env haddr c { pcLocs := locs, exitLoc := ex } m d e σ D fuel r0 s' hv (coveredD_of_check env.prog hacc)
    hext hbase hsent he hlog halign hroom hdepth hrun

end Rbpf
