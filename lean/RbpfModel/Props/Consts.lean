/-
  The integer constants of `src/ebpf.rs`, regenerated from the source on every run (`checklib/gen_consts.py` →
  `Generated/EbpfConsts.lean`), against the values the models are written with.  Unlike the rest of the model, which is tied to
  the code by running both, this slice is tied by translation: if a constant changes in the source, these theorems stop checking.
-/
import RbpfModel.Generated.EbpfConsts
import RbpfModel.Model.WellFormed
import RbpfModel.Model.AsmSpec
import RbpfModel.Model.Disasm
import RbpfModel.Generated.DisasmRows
import RbpfModel.Generated.VerifierArms
import RbpfModel.Model.Verifier
namespace Rbpf
open Rbpf.Generated

def constOf (n : String) : Option Nat := (ebpfConsts.find? (·.1 == n)).bind (·.2.2)

/-- the opcode constants: the `u8` constants that are not `BPF_*` field values or masks -/
def opcodeConsts : List Nat := (ebpfConsts.filter fun c => c.2.1 == "u8" && !c.1.startsWith "BPF_").filterMap (·.2.2)

/-- every constant is evaluated by the translator -/
theorem Consts_all_evaluated : ebpfConsts.all (·.2.2.isSome) = true := by decide +kernel

/-- the limits the models use: program length (verifier), slot size, stack size, call depth, default frame size (interpreter) -/
theorem Consts_limits :
    constOf "PROG_MAX_INSNS" = some 1000000 ∧ constOf "INSN_SIZE" = some 8 ∧ constOf "PROG_MAX_SIZE" = some 8000000 ∧
    constOf "STACK_SIZE" = some 512 ∧ constOf "MAX_CALL_DEPTH" = some 8 ∧ constOf "LOCAL_FUNCTION_STACK_SIZE" = some 256 := by
  decide +kernel

/-- the opcode universe: a byte is a supported opcode of the verifier model (C06's `WF.supported`) exactly when `ebpf.rs`
    names it, `TAIL_CALL` (0x8d, refused by the verifier) excepted -/
theorem Consts_opcode_universe :
    ∀ o : Fin 256, WF.supported (BitVec.ofNat 8 o.val) = (opcodeConsts.contains o.val && o.val != 0x8d) := by
  decide +kernel

/-- every opcode of the documented mnemonic table (C13) is an opcode constant of `ebpf.rs` -/
theorem Consts_mnemonic_opcodes : AsmSpec.table.all (fun e => opcodeConsts.contains e.2.2) = true := by decide +kernel

/-- the field values the models decode opcodes with: classes, sizes, modes, source bit, masks -/
theorem Consts_fields :
    constOf "BPF_LD" = some 0 ∧ constOf "BPF_LDX" = some 1 ∧ constOf "BPF_ST" = some 2 ∧ constOf "BPF_STX" = some 3 ∧
    constOf "BPF_ALU" = some 4 ∧ constOf "BPF_JMP" = some 5 ∧ constOf "BPF_JMP32" = some 6 ∧ constOf "BPF_ALU64" = some 7 ∧
    constOf "BPF_W" = some 0 ∧ constOf "BPF_H" = some 8 ∧ constOf "BPF_B" = some 0x10 ∧ constOf "BPF_DW" = some 0x18 ∧
    constOf "BPF_IMM" = some 0 ∧ constOf "BPF_ABS" = some 0x20 ∧ constOf "BPF_IND" = some 0x40 ∧ constOf "BPF_MEM" = some 0x60 ∧
    constOf "BPF_XADD" = some 0xc0 ∧ constOf "BPF_K" = some 0 ∧ constOf "BPF_X" = some 8 ∧
    constOf "BPF_CLS_MASK" = some 7 ∧ constOf "BPF_ALU_OP_MASK" = some 0xf0 ∧
    constOf "LD_DW_IMM" = some 0x18 ∧ constOf "CALL" = some 0x85 ∧ constOf "EXIT" = some 0x95 ∧ constOf "JA" = some 0x05 ∧
    constOf "ST_W_XADD" = some 0xc3 ∧ constOf "ST_DW_XADD" = some 0xdb ∧ constOf "LE" = some 0xd4 ∧ constOf "BE" = some 0xdc := by
  decide +kernel

end Rbpf

/-! ### the disassembler's row table (`src/disassembler.rs`), translated -/
namespace Rbpf
open Rbpf.Generated

/-- an instruction with a distinctive value in every field: each formatter renders it differently -/
def constsProbe : Insn := { opc := 0, dst := 3, src := 4, off := 0xfffb, imm := 0x1234 }

/-- the formatter functions of `disassembler.rs` ↦ the model's -/
def formatterOf : String → Option (String → Insn → String)
  | "alu_imm" => some Disasm.aluImm | "alu_reg" => some Disasm.aluReg | "byteswap" => some Disasm.byteswap
  | "ld_st_imm" => some Disasm.ldStImm | "ld_reg" => some Disasm.ldReg | "st_reg" => some Disasm.stReg
  | "ldabs" => some Disasm.ldabs | "ldind" => some Disasm.ldind | "jmp_imm" => some Disasm.jmpImm | "jmp_reg" => some Disasm.jmpReg
  | "unary" => some Disasm.unary | "plain" => some Disasm.plain
  | _ => none

def disasmRowOk (row : String × String × String) : Bool :=
  match constOf row.1, formatterOf row.2.2 with
  | some opc, some r =>
    (match Disasm.arm opc with
     | some (n, render) => n == row.2.1 && render n constsProbe == r row.2.1 constsProbe
     | none => false)
  | _, _ => false

/-- every single-line row of the real table — opcode constant, mnemonic, formatter — is the model's row for that opcode
    (119 of the 123 arms; `lddw`, `ja`, `call`, `tail_call` have code of their own) -/
theorem Consts_disasm_rows : disasmRows.all disasmRowOk = true := by decide +kernel

theorem Consts_disasm_rows_count : disasmRows.length = 119 := by decide +kernel

end Rbpf

/-! ### the arm table of the verifier (`fn check` of `src/verifier.rs`), translated -/
namespace Rbpf
open Rbpf.Generated

/-- the tag the translator gives an arm ↦ the model's arm (`exit` is an empty arm like `plain`) -/
def verifierTag : Verifier.Arm → String
  | .plain => "plain" | .exit => "plain" | .lddw => "lddw" | .store => "store" | .xadd => "xadd" | .endian => "endian"
  | .jump => "jump" | .call => "call" | .tailCall => "reject" | .unknown => "reject"

/-- what the real `match insn.opc` does for opcode byte `o`: its arm if it has one, else the default arm -/
def verifierSrcArm (o : Nat) : String :=
  match verifierArms.find? (·.1 == o) with
  | some r => r.2.2
  | none => verifierDefault

/-- for each of the 256 opcode bytes the model's arm table (`Verifier.arm`) is the source's — the same checks for the same opcodes,
    unknown opcodes refused — no opcode has two arms, after the match the source runs `check_registers` and advances by one slot, and the function's head
    (`check_prog_len`, the loop test, the instruction fetch, the store flag) and tail (the `insn_ptr != len / 8` test) have the shape `Verifier.check` / `checkLoop` model -/
theorem Consts_verifier_arms :
    (∀ o : Fin 256, verifierTag (Verifier.arm o.val) = verifierSrcArm o.val) ∧
    (verifierArms.map (·.1)).Nodup ∧ verifierAfterMatch = true ∧ verifierDefault = "reject" ∧
    verifierLoopHead = true ∧ verifierLoopTail = true := by
  decide +kernel

end Rbpf
