/-
  C19 — the built-in helpers compute what their documentation says: `gather_bytes`, `memfrob`, `strcmp`,
  `bpf_trace_printf` (return value = bytes printed), `rand` (range), `sqrti` (exact integer square root).
  Only property theorems and their non-vacuity examples live here; proofs are in `Lemmas/HelperLemmas.lean`.
-/
import RbpfModel.Model.Helpers
import RbpfModel.Lemmas.HelperLemmas
namespace Rbpf
open Helpers HelperLemmas

/-- gather_bytes: a1<<32 | a2<<24 | a3<<16 | a4<<8 | a5 -/
theorem C19_gather (a1 a2 a3 a4 a5 : BitVec 64) :
    gatherBytes a1 a2 a3 a4 a5
      = (a1 <<< (32:Nat)) ||| (a2 <<< (24:Nat)) ||| (a3 <<< (16:Nat)) ||| (a4 <<< (8:Nat)) ||| a5 := rfl

/-- … with byte-sized arguments the result is the five bytes in order -/
theorem C19_gather_bytes (b1 b2 b3 b4 b5 : BitVec 8) :
    gatherBytes (b1.setWidth 64) (b2.setWidth 64) (b3.setWidth 64) (b4.setWidth 64) (b5.setWidth 64)
      = ((0 : BitVec 24) ++ b1 ++ b2 ++ b3 ++ b4 ++ b5 : BitVec 64) :=
  gather_bytes_eq b1 b2 b3 b4 b5

/-- memfrob XORs exactly the `len` addressed bytes with 0x2a and no others -/
theorem C19_memfrob_frame (buf : List (BitVec 8)) (base ptr len : Nat) (b' : List (BitVec 8))
    (h : memfrob buf base ptr len = some b') :
    b'.length = buf.length ∧ ∀ k, k < buf.length →
      b'.getD k 0 = (if base + k ≥ ptr ∧ base + k < ptr + len then buf.getD k 0 ^^^ 0x2a else buf.getD k 0) :=
  memfrob_frame buf base ptr len b' h

/-- applying it twice restores the buffer -/
theorem C19_memfrob_twice (buf : List (BitVec 8)) (base ptr len : Nat) (b' : List (BitVec 8))
    (h : memfrob buf base ptr len = some b') : memfrob b' base ptr len = some buf :=
  memfrob_twice buf base ptr len b' h

/-- it never fails when the addressed bytes lie inside the buffer -/
theorem C19_memfrob_total (buf : List (BitVec 8)) (base ptr len : Nat)
    (h : len = 0 ∨ (base ≤ ptr ∧ ptr + len ≤ base + buf.length)) : ∃ b', memfrob buf base ptr len = some b' :=
  memfrob_total buf base ptr len h

/-- strcmp: 0 exactly for equal NUL-terminated strings -/
theorem C19_strcmp_zero_iff (s1 s2 t1 t2 : List (BitVec 8)) (h1 : ∀ c ∈ s1, c ≠ 0) (h2 : ∀ c ∈ s2, c ≠ 0) :
    strcmpBytes (s1 ++ 0 :: t1) (s2 ++ 0 :: t2) = some 0 ↔ s1 = s2 :=
  strcmp_zero_iff s1 s2 t1 t2 h1 h2

/-- otherwise the absolute difference of the first differing bytes -/
theorem C19_strcmp_diff (pre r1 r2 : List (BitVec 8)) (x y : BitVec 8) (hp : ∀ c ∈ pre, c ≠ 0) (hxy : x ≠ y) :
    strcmpBytes (pre ++ x :: r1) (pre ++ y :: r2)
      = some (if y.ule x then (x - y).setWidth 64 else (y - x).setWidth 64) :=
  strcmp_diff pre r1 r2 x y hp hxy

/-- all-ones when either pointer is null -/
theorem C19_strcmp_null (p1 p2 : Nat) (s1 s2 : List (BitVec 8)) (h : p1 = 0 ∨ p2 = 0) :
    strcmp p1 p2 s1 s2 = some (BitVec.allOnes 64) := if_pos h

/-- never runs off a NUL-terminated pair of strings -/
theorem C19_strcmp_total (s1 s2 t1 t2 : List (BitVec 8)) (h1 : ∀ c ∈ s1, c ≠ 0) (h2 : ∀ c ∈ s2, c ≠ 0) :
    ∃ v, strcmpBytes (s1 ++ 0 :: t1) (s2 ++ 0 :: t2) = some v :=
  strcmp_total s1 s2 t1 t2 h1 h2

/-- bpf_trace_printf returns the number of bytes it prints -/
theorem C19_hexLen (x : Nat) : hexLen x = (hexDigits x).length := hexLen_eq x

theorem C19_printf_ret (a3 a4 a5 : Nat) : printfRet a3 a4 a5 = (printfText a3 a4 a5).length :=
  printf_ret a3 a4 a5

/-- rand(min, max) lies in [min, max] when min < max, for every raw random number, and never overflows 64 bits -/
theorem C19_rand_in_range (n min max : Nat) (hn : n < 2^64) (hmax : max < 2^64) (h : min < max) :
    min ≤ randRange n min max ∧ randRange n min max ≤ max :=
  rand_in_range n min max hn hmax h

/-- sqrti: exact integer square root below 2^52 -/
theorem C19_sqrti_exact (n : Nat) (h : n < 2^52) : sqrti n = Nat.sqrt n := sqrti_exact n h

-- non-vacuity ------------------------------------------------------------------------------------------

example : gatherBytes 1 2 3 4 5 = 0x0102030405 := by decide
example : gatherBytes 0x1ff 0 0 0 0 = 0x1ff00000000 := by decide      -- arguments are not truncated to a byte
-- memfrob: touches exactly bytes 1 and 2 of a buffer at address 100; refuses to run off the buffer
example : memfrob [1, 2, 3, 4] 100 101 2 = some [1, 0x28, 0x29, 4] := by decide
example : memfrob [1, 2, 3, 4] 100 103 2 = none := by decide
example : memfrob [1, 2, 3, 4] 100 99 2 = none := by decide
example : memfrob [1, 2, 3, 4] 100 7 0 = some [1, 2, 3, 4] := by decide
example : ∃ b', memfrob [1, 2, 3, 4] 100 101 2 = some b' := C19_memfrob_total _ _ _ _ (Or.inr (by decide))
-- strcmp: "ab\0…" vs "ab\0…" → 0; "abd" vs "abc" → 1 either way round; unterminated → none
example : strcmpBytes [0x61, 0x62, 0, 7] [0x61, 0x62, 0, 9] = some 0 := by decide
example : strcmpBytes [0x61, 0x62, 0x64, 0] [0x61, 0x62, 0x63, 0] = some 1 := by decide
example : strcmpBytes [0x61, 0x62, 0x63, 0] [0x61, 0x62, 0x64, 0] = some 1 := by decide
example : strcmpBytes [0x61, 0] [0x61, 0x62, 0] = some 0x62 := by decide
example : strcmpBytes [0x61, 0x62] [0x61, 0x62] = none := by decide
example : strcmp 0 5 [1, 0] [1, 0] = some 0xffffffffffffffff := by decide
example : strcmp 4 5 [1, 0] [1, 0] = some 0 := by decide
-- printf
example : hexDigits 0 = ['0'] := by simp [hexDigits, hexDigit]
example : hexDigits 0xab = ['a', 'b'] := by simp [hexDigits, hexDigit]
example : hexLen 0 = 1 ∧ hexLen 0xf = 1 ∧ hexLen 0x10 = 2 ∧ hexLen (2^64 - 1) = 16 := by decide
example : printfRet 1 2 3 = 32 := by decide
-- rand
example : randRange 17 5 10 = 10 := by decide
example : randRange (2^64 - 1) 0 (2^64 - 1) = 2^64 - 1 := by decide   -- the full range does not compute 2^64
example : randRange 17 10 5 = 17 := by decide                          -- min ≥ max: the raw number
-- sqrti
example : sqrti 0 = 0 := by rw [C19_sqrti_exact 0 (by decide)]; exact sqrt_unique 0 0 (by decide) (by decide)
example : sqrti 24 = 4 := by rw [C19_sqrti_exact 24 (by decide)]; exact sqrt_unique 24 4 (by decide) (by decide)
example : sqrti (2^52 - 1) = 2^26 - 1 := by
  rw [C19_sqrti_exact _ (by decide)]; exact sqrt_unique _ _ (by decide) (by decide)
-- the bound 2^52 is tight up to 2^27: one below the first odd-root perfect square above 2^52, `f64::sqrt` rounds up
example : sqrti (2^52 + 2^27) = 2^26 + 1 ∧ Nat.sqrt (2^52 + 2^27) = 2^26 := by
  constructor
  · have hs : Nat.sqrt ((2^52 + 2^27) * 4^60) = 77371253608257763198107775 :=
      sqrt_unique _ _ (by decide) (by decide)
    have hl : Nat.log2 77371253608257763198107775 = 86 := (Nat.log2_eq_iff (by decide)).2 (by decide)
    unfold sqrti toF64
    rw [if_pos (by decide)]
    unfold sqrtTrunc
    rw [if_neg (by decide)]
    dsimp only
    rw [hs, hl]
    decide
  · exact sqrt_unique _ _ (by decide) (by decide)
-- … and at the top of the range the conversion to f64 already rounds: sqrti(u64::MAX) = 2^32, not 2^32 - 1
example : sqrti (2^64 - 1) = 2^32 ∧ Nat.sqrt (2^64 - 1) = 2^32 - 1 := by
  constructor
  · have ht : toF64 (2^64 - 1) = 2^64 := by decide
    have hs : Nat.sqrt (2^64 * 4^60) = 2^92 := sqrt_unique _ _ (by decide) (by decide)
    unfold sqrti
    rw [ht]
    unfold sqrtTrunc
    rw [if_neg (by decide)]
    dsimp only
    rw [hs, Nat.log2_two_pow]
    decide
  · exact sqrt_unique _ _ (by decide) (by decide)

end Rbpf
