/-
  `rbpf_model`: reads one case per line on stdin, prints the model's transcript line on stdout.
  The first token selects the suite operation.  See DESIGN.md §2.2.
-/
import RbpfModel.Model.Hex
import RbpfModel.Model.Insn
import RbpfModel.Model.Builder
import RbpfModel.Model.DriveExec
import RbpfModel.Model.DriveText
import RbpfModel.Model.DriveHelpers
import RbpfModel.Model.DriveApi
import RbpfModel.Model.DriveXadd
import RbpfModel.Model.DriveX86
import RbpfModel.Model.DriveClif
open Rbpf Rbpf.Hex

def insnStr (i : Insn) : String :=
  s!"{bvHex i.opc},{bvHex i.dst},{bvHex i.src},{bvHex i.off},{bvHex i.imm}"

def parseInsn? (a b c d e : String) : Option Insn := do
  let opc ← parseNat? a; let dst ← parseNat? b; let src ← parseNat? c
  let off ← parseNat? d; let imm ← parseNat? e
  pure ⟨BitVec.ofNat 8 opc, BitVec.ofNat 8 dst, BitVec.ofNat 8 src, BitVec.ofNat 16 off, BitVec.ofNat 32 imm⟩

open Builder in
def parseKind? (toks : List String) : Option Kind :=
  let src? (n : Nat) : Option Source := match n with | 0 => some .imm | 1 => some .reg | _ => none
  let arch? (n : Nat) : Option Arch := match n with | 0 => some .x64 | 1 => some .x32 | _ => none
  let op? (n : Nat) : Option OpBits := [OpBits.add, .sub, .mul, .div, .bitOr, .bitAnd, .lShift, .rShift,
    .negate, .mod, .bitXor, .mov, .signRShift][n]?
  let sz? (n : Nat) : Option MemSize := [MemSize.byte, .halfWord, .word, .doubleWord][n]?
  let cond? (n : Nat) : Option Cond := [Cond.abs, .equals, .greater, .greaterEquals, .lower, .lowerEquals,
    .bitAnd, .notEquals, .greaterSigned, .greaterEqualsSigned, .lowerSigned, .lowerEqualsSigned][n]?
  match toks with
  | ["move", s, a, o] => do pure (.move (← src? (← parseNat? s)) (← arch? (← parseNat? a)) (← op? (← parseNat? o)))
  | ["swap", e] => do match ← parseNat? e with | 0 => pure (.swap .little) | 1 => pure (.swap .big) | _ => none
  | ["load", m] => do pure (.load .imm (← sz? (← parseNat? m)) 0x00)
  | ["load_abs", m] => do pure (.load .abs (← sz? (← parseNat? m)) 0x00)
  | ["load_ind", m] => do pure (.load .ind (← sz? (← parseNat? m)) 0x00)
  | ["load_x", m] => do pure (.load .mem (← sz? (← parseNat? m)) 0x01)
  | ["store", m] => do pure (.store (← sz? (← parseNat? m)) 0x00)
  | ["store_x", m] => do pure (.store (← sz? (← parseNat? m)) (0x60 ||| 0x03))
  | ["jump", c, s] => do pure (.jump (← cond? (← parseNat? c)) (← src? (← parseNat? s)))
  | ["call"] => some .call
  | ["exit"] => some .exit
  | _ => none

def handle (toks : List String) : String :=
  match toks with
  -- codec suite --------------------------------------------------------------------------------
  | ["dec", slot] =>
    match parseBytes? slot with
    | some bs =>
      match getInsn? bs 0 with
      | some i => s!"i={insnStr i} a={bytesHex i.toArray} v={bytesHex i.toVec}"
      | none => "panic"
    | none => "bad-op"
  | ["enc", a, b, c, d, e] =>
    match parseInsn? a b c d e with
    | some i =>
      let bytes := i.toArray
      let back := match getInsn? bytes.toArray 0 with | some j => insnStr j | none => "panic"
      s!"a={bytesHex bytes} v={bytesHex i.toVec} d={back}"
    | none => "bad-op"
  | ["idx", prog, k] =>
    match parseBytes? prog, parseNat? k with
    | some bs, some k => match getInsn? bs k with | some i => s!"i={insnStr i}" | none => "panic"
    | _, _ => "bad-op"
  | ["vec", prog] =>
    match parseBytes? prog with
    | some bs => match toInsnVec? bs with
      | some l => "v=" ++ ";".intercalate (l.map insnStr)
      | none => "panic"
    | none => "bad-op"
  | "bld" :: rest =>
    -- bld <kind tokens…> <dst> <src> <off> <imm>
    let n := rest.length
    if n < 5 then "bad-op" else
    match parseKind? (rest.take (n - 4)), rest.drop (n - 4) with
    | some k, [b, c, d, e] =>
      match parseInsn? "0" b c d e with
      | some f =>
        let e := (Builder.insn k f).toArray
        let ea : Bytes := e.toArray
        -- the assembler on the disassembly of the encoder's bytes; `canon=1`: the instruction is assembler-expressible
        let a := if (Builder.insn k f).opc = 0x18 then "skip" else
          match Disasm.toInsnVec ea with
          | some [d] => (match Asm.assemble Drive.cc d.desc.toList with
            | .ok bs => bytesHex bs | .err => "err" | .panic => "panic")
          | _ => "nodis"
        s!"b={bytesHex (Builder.intoBytes k f)} e={bytesHex e} a={a}" ++ (if decide (RtSpec.Canonical ea) then " | canon=1" else "")
      | none => "bad-op"
    | _, _ => "bad-op"
  | ["asm", t] => Drive.handleAsm t
  | ["asm", t, _want] => Drive.handleAsm t
  | ["dis", p] => Drive.handleDis p
  | ["dis", p, t] => if t.startsWith "texts=" then Drive.handleDisT p t else "bad-op"
  | ["rt", p] => Drive.handleRt p
  | "xadd" :: rest => Drive.handleXadd rest
  | "api" :: rest => Drive.handleApi rest
  | "helper" :: rest => Drive.handleHelper rest
  | ["verify", prog] => Drive.handleVerify prog
  | "exec" :: rest => Drive.handleExec rest ++ Drive.clifIrField rest
  | "x86" :: rest => Drive.handleX86 rest
  | ["clifdump", p, ids] => Drive.handleClifDump p ids
  | ["clifdump", p, ids, "res"] => Drive.handleClifDumpR p ids
  | _ => "bad-op"

partial def loop (h : IO.FS.Stream) (out : IO.FS.Stream) : IO Unit := do
  let line ← h.getLine
  if line.isEmpty then return ()
  let toks := (line.trimAscii.toString.splitOn " ").filter (· ≠ "")
  out.putStrLn (handle toks)
  loop h out

def main : IO Unit := do
  let out ← IO.getStdout
  loop (← IO.getStdin) out
  out.flush
