//! C20: the same case lines as the main harness, against rbpf built WITHOUT its default features (no_std).
//! Suites: asm, dis, verify, exec (interpreter; x86-64 JIT running from caller-supplied executable memory).
//! Output formats are the main harness' so that the two transcripts can be diffed line by line.
#[path = "../../harness/src/rng.rs"]
#[allow(dead_code)]
mod rng;
use rng::*;
#[path = "../../harness/src/progen.rs"]
#[allow(dead_code)]
mod progen;
#[path = "../../harness/src/api.rs"]
#[allow(dead_code)]
mod api;
use std::any::Any;
use std::cell::RefCell;
use std::collections::HashMap;
use std::io::{BufRead, Write};

thread_local! { static HLOG: RefCell<Vec<(u64, [u64; 5])>> = RefCell::new(Vec::new()); }
fn mix(n: u64, a: u64, b: u64, c: u64, d: u64, e: u64) -> u64 {
    (a.wrapping_mul(3).wrapping_add(b.wrapping_mul(5)).wrapping_add(c.wrapping_mul(7)).wrapping_add(d.wrapping_mul(11)).wrapping_add(e.wrapping_mul(13))) ^ (n + 1).wrapping_mul(0x9e3779b97f4a7c15)
}
macro_rules! helper { ($name:ident, $n:expr) => { fn $name(a: u64, b: u64, c: u64, d: u64, e: u64) -> u64 { HLOG.with(|l| l.borrow_mut().push(($n, [a, b, c, d, e]))); mix($n, a, b, c, d, e) } }; }
helper!(h0, 0); helper!(h1, 1); helper!(h2, 2); helper!(h3, 3);
pub const HELPERS: [rbpf::ebpf::Helper; 4] = [h0, h1, h2, h3];
fn fnv(bytes: &[u8]) -> u64 { let mut h: u64 = 0xcbf29ce484222325; for b in bytes { h ^= *b as u64; h = h.wrapping_mul(0x100000001b3); } h }
fn calc(_p: &[u8], pc: usize, data: &mut dyn Any) -> u16 {
    let t: &Vec<u16> = match data.downcast_ref::<Vec<u16>>() { Some(t) => t, None => data.downcast_ref::<Box<dyn Any>>().and_then(|b| b.downcast_ref::<Vec<u16>>()).unwrap() };
    t[pc % t.len()]
}
fn err_class(msg: &str) -> &'static str {
    if msg.contains("budget exhausted") { "budget" } else if msg.contains("out of bounds") { "oob" } else if msg.contains("unaligned") { "unaligned" }
    else if msg.contains("unknown helper") { "unknown-helper" } else if msg.contains("too many nested") { "call-depth" } else if msg.contains("unsupported call type") { "call-type" }
    else if msg.contains("TAIL_CALL") { "tail-call" } else if msg.contains("[Verifier]") { "verifier" } else { "other" }
}
fn catch<F: FnOnce() -> String + std::panic::UnwindSafe>(f: F) -> String { std::panic::catch_unwind(f).unwrap_or_else(|_| "panic".to_string()) }

fn exec_mem(size: usize) -> &'static mut [u8] {
    unsafe {
        let p = libc::mmap(std::ptr::null_mut(), size, libc::PROT_READ | libc::PROT_WRITE | libc::PROT_EXEC, libc::MAP_PRIVATE | libc::MAP_ANONYMOUS, -1, 0);
        assert!(p != libc::MAP_FAILED);
        std::slice::from_raw_parts_mut(p as *mut u8, size)
    }
}

/// one executable region shared by the (sequential) api cases
pub fn exec_mem_shared() -> &'static mut [u8] {
    static mut P: *mut u8 = std::ptr::null_mut();
    unsafe {
        if P.is_null() { P = exec_mem(1 << 16).as_mut_ptr(); }
        std::slice::from_raw_parts_mut(P, 1 << 16)
    }
}

fn run_exec(t: &[&str]) -> String {
    let mut kv: HashMap<&str, &str> = HashMap::new();
    for tok in &t[1..] { if let Some((k, v)) = tok.split_once('=') { kv.insert(k, v); } }
    let bytes = |k: &str| -> Option<Vec<u8>> { match kv.get(k) { None => Some(vec![]), Some(v) => unhex(v) } };
    let (Some(prog0), Some(mem0), Some(mbuff0)) = (bytes("prog"), bytes("mem"), bytes("mbuff")) else { return "bad-op".into() };
    if kv.get("kind").copied().unwrap_or("mbuff") != "mbuff" || kv.get("extra").map(|v| *v != "-").unwrap_or(false) { return "skip".into() }
    let mut helpers: Vec<(u32, usize)> = vec![];
    if let Some(h) = kv.get("helpers") { if *h != "-" { for e in h.split(',') { let Some((k, f)) = e.split_once(':') else { return "bad-op".into() };
        helpers.push((u32::from_str_radix(k, 16).unwrap(), f.parse().unwrap())); } } }
    let calc_t: Option<Vec<u16>> = kv.get("calc").and_then(|v| if *v == "-" { None } else { Some(v.split(',').map(|x| u16::from_str_radix(x, 16).unwrap()).collect()) });
    let budget: u64 = kv.get("budget").and_then(|v| v.parse().ok()).unwrap_or(10000);
    let want_jit = kv.get("engines").map(|s| s.split(',').any(|x| x == "jit")).unwrap_or(false);
    let mut mem = mem0.clone(); let mut mbuff = mbuff0.clone();
    let membase = mem.as_ptr() as u64; let mbuffbase = mbuff.as_ptr() as u64;
    let mut prog = prog0.clone();
    if let Some(v) = kv.get("patch") { if *v != "-" { for e in v.split(',') { let p: Vec<&str> = e.split(':').collect();
        let slot: usize = p[0].parse().unwrap(); let delta: i64 = p[2].parse().unwrap();
        let base = match p[1] { "mem" => membase, "mbuff" => mbuffbase, _ => 0 };
        let val = base.wrapping_add(delta as u64);
        if (slot + 2) * 8 <= prog.len() { prog[slot * 8 + 4..slot * 8 + 8].copy_from_slice(&(val as u32).to_le_bytes()); prog[slot * 8 + 12..slot * 8 + 16].copy_from_slice(&((val >> 32) as u32).to_le_bytes()); } } } }
    HLOG.with(|l| l.borrow_mut().clear());
    let progref: &[u8] = &prog;
    let (mp, ml, bp, bl) = (mem.as_mut_ptr(), mem.len(), mbuff.as_mut_ptr(), mbuff.len());
    let mut engine_out = String::new();
    let eo = &mut engine_out;
    let res = std::panic::catch_unwind(std::panic::AssertUnwindSafe(move || -> Result<String, String> {
        let mut vm = match rbpf::EbpfVmMbuff::new(Some(progref)) { Ok(v) => v, Err(_) => return Ok("rejected".into()) };
        for (k, f) in &helpers { vm.register_helper(*k, HELPERS[*f % 4]).map_err(|e| format!("{:?}", e))?; }
        if let Some(tb) = calc_t { vm.set_stack_usage_calculator(calc, Box::new(tb)).map_err(|e| format!("{:?}", e))?; }
        rbpf::verif::set_insn_budget(budget);
        let memr: &[u8] = unsafe { std::slice::from_raw_parts(mp, ml) }; let mbuffr: &[u8] = unsafe { std::slice::from_raw_parts(bp, bl) };
        let r = vm.execute_program(memr, mbuffr);
        rbpf::verif::set_insn_budget(0);
        let out = match r { Ok(v) => format!("ok r0={:016x}", v), Err(e) => { let cl = err_class(&format!("{:?}", e)); if cl == "budget" { "budget".to_string() } else { format!("err:{}", cl) } } };
        let log_bytes: Vec<u8> = HLOG.with(|l| l.borrow().iter().flat_map(|(n, a)| { let mut v = n.to_le_bytes().to_vec(); for x in a { v.extend_from_slice(&x.to_le_bytes()); } v }).collect());
        let first = format!("{} mem={:016x} mbuff={:016x} extra={:016x} log={}:{:016x}", out, fnv(memr), fnv(mbuffr), fnv(&[]), HLOG.with(|l| l.borrow().len()), fnv(&log_bytes));
        if want_jit {
            if vm.set_jit_exec_memory(exec_mem(1 << 22)).is_err() { *eo = " | jit=setmem-err".into(); }
            else { match vm.jit_compile() {
                Err(_) => *eo = " | jit=compile-err".into(),
                Ok(()) => if out.starts_with("ok") && !kv.contains_key("norun") {
                    let mut m2 = mem0.clone(); let mut b2 = mbuff0.clone();
                    HLOG.with(|l| l.borrow_mut().clear());
                    // (patched pointers refer to the first buffers: restore and reuse them)
                    let (m2p, m2l, b2p, b2l) = if kv.get("patch").map(|v| *v != "-").unwrap_or(false) {
                        unsafe { std::ptr::copy_nonoverlapping(mem0.as_ptr(), mp, ml); std::ptr::copy_nonoverlapping(mbuff0.as_ptr(), bp, bl); } (mp, ml, bp, bl) } else { (m2.as_mut_ptr(), m2.len(), b2.as_mut_ptr(), b2.len()) };
                    let m2r: &mut [u8] = unsafe { std::slice::from_raw_parts_mut(m2p, m2l) }; let b2r: &mut [u8] = unsafe { std::slice::from_raw_parts_mut(b2p, b2l) };
                    let r = unsafe { vm.execute_program_jit(m2r, b2r) };
                    let log_bytes: Vec<u8> = HLOG.with(|l| l.borrow().iter().flat_map(|(n, a)| { let mut v = n.to_le_bytes().to_vec(); for x in a { v.extend_from_slice(&x.to_le_bytes()); } v }).collect());
                    let (mv, bv): (&[u8], &[u8]) = unsafe { (std::slice::from_raw_parts(m2p, m2l), std::slice::from_raw_parts(b2p, b2l)) };
                    *eo = match r { Ok(v) => format!(" | jit=ok:r0={:016x}:mem={:016x}:mbuff={:016x}:LOG={}:{:016x}", v, fnv(mv), fnv(bv), HLOG.with(|l| l.borrow().len()), fnv(&log_bytes)), Err(_) => " | jit=err".into() };
                } else { *eo = " | jit=compiled".into(); }
            } }
        }
        Ok(first)
    }));
    let stackbase = rbpf::verif::last_stack_base();
    let out = match res { Ok(Ok(s)) => s, Ok(Err(e)) => format!("setup-error:{}", e.replace(' ', "_")), Err(_) => "panic".to_string() };
    format!("{}{} @ membase={:x} mbuffbase={:x} extrabase=- stackbase={:x} fixedbase=0", out, engine_out, membase, mbuffbase, stackbase)
}

fn run_line(line: &str) -> String {
    let toks: Vec<&str> = line.split_ascii_whitespace().collect();
    if toks.is_empty() { return "bad-op".into(); }
    match toks[0] {
        "asm" if toks.len() >= 2 => { let Some(b) = unhex(toks[1]) else { return "bad-op".into() }; let Ok(s) = String::from_utf8(b) else { return "bad-op".into() };
            catch(move || match rbpf::assembler::assemble(&s) { Ok(p) => format!("ok {}", hex(&p)), Err(_) => "err".into() }) }
        "dis" if toks.len() == 2 => { let Some(b) = unhex(toks[1]) else { return "bad-op".into() };
            catch(move || { let v = rbpf::disassembler::to_insn_vec(&b);
                format!("ok {}", v.iter().map(|e| format!("{:02x}~{}~{}~{:02x}~{:02x}~{:04x}~{:016x}", e.opc, e.name, e.desc, e.dst, e.src, e.off as u16, e.imm as u64)).collect::<Vec<_>>().join(";")) }) }
        "verify" if toks.len() == 2 => { let Some(p) = unhex(toks[1]) else { return "bad-op".into() };
            catch(move || match rbpf::EbpfVmMbuff::new(Some(&p)) { Ok(_) => "ok".into(), Err(_) => "err".into() }) }
        "exec" => run_exec(&toks),
        "api" => api::run(&toks),
        // the built-in helpers that exist without `std` (gather_bytes, memfrob, strcmp), same formats as the std harness' suite `helper`
        "helper" if toks.len() >= 2 => {
            let t: Vec<String> = toks.iter().map(|s| s.to_string()).collect();
            catch(move || {
                let u = |s: &str| u64::from_str_radix(s, 16).ok();
                match t[1].as_str() {
                    "gather" if t.len() == 7 => {
                        let v: Option<Vec<u64>> = t[2..7].iter().map(|s| u(s)).collect();
                        let Some(v) = v else { return "bad-op".into() };
                        format!("ok {:016x}", rbpf::helpers::gather_bytes(v[0], v[1], v[2], v[3], v[4]))
                    }
                    "memfrob" if t.len() == 5 => {
                        let (Some(mut b), Some(off), Some(len)) = (unhex(&t[2]), u(&t[3]), u(&t[4])) else { return "bad-op".into() };
                        if len > 0 && off + len > b.len() as u64 { return "precondition".into(); }
                        let r = rbpf::helpers::memfrob(b.as_mut_ptr() as u64 + off, len, 1, 2, 3);
                        format!("ok {:016x} {}", r, hex(&b))
                    }
                    "strcmp" if t.len() == 4 => {
                        let get = |s: &str| -> Option<Option<Vec<u8>>> { if s == "null" { Some(None) } else { unhex(s).map(Some) } };
                        let (Some(a), Some(b)) = (get(&t[2]), get(&t[3])) else { return "bad-op".into() };
                        let p = |x: &Option<Vec<u8>>| x.as_ref().map(|v| v.as_ptr() as u64).unwrap_or(0);
                        if a.is_some() && b.is_some() {
                            let (x, y) = (a.as_ref().unwrap(), b.as_ref().unwrap());
                            let mut i = 0; loop { if i >= x.len() || i >= y.len() { return "precondition".into(); } if x[i] != y[i] || x[i] == 0 { break; } i += 1; }
                        }
                        format!("ok {:016x}", rbpf::helpers::strcmp(p(&a), p(&b), 0, 0, 0))
                    }
                    _ => "bad-op".into(),
                }
            })
        }
        _ => "bad-op".into(),
    }
}

fn main() {
    std::panic::set_hook(Box::new(|_| {}));
    let stdin = std::io::stdin(); let out = std::io::stdout(); let mut w = std::io::BufWriter::new(out.lock());
    for line in stdin.lock().lines() { let r = run_line(&line.unwrap()); writeln!(w, "{}", r).unwrap(); w.flush().unwrap(); }
}
